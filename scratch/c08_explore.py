import sys, re, json; sys.path.insert(0,'/verif')
from simlint.facts import *
from simlint.match import *
U=units_matching(r'/Simbody/src/(SimbodyMatterSubsystemRep|SimbodyMatterSubsystem|Constraint)\.cpp$')
P=Program(extract_split(U, hdr=r"/Simbody/src/(ConstraintImpl|SimbodyMatterSubsystemRep|SimbodyTreeState)\.h$"))
n=0
for fn in sorted(P.all_fns(), key=lambda f:(f.file,f.line)):
    for h,body in sorted(fn.loops().items()):
        t=fn.blocks[h].get('term')
        if not t or 'cond' not in t: continue
        c=t['cond']
        s=sx_str(c)
        if not re.search(r'constraints|getNumConstraints|ConstraintIndex', json.dumps(c)): continue
        # loop var
        n+=1
        guards=[]
        calls=set()
        for b in body:
            tb=fn.blocks[b].get('term')
            if tb and tb.get('cond') is not None and re.search(r'isConstraintDisabled|constraintIsDisabled|isDisabled', json.dumps(tb['cond'])): guards.append(sx_str(tb['cond'])[:60])
            for e in fn.blocks[b]['ev']:
                if e['k']=='call' and re.search(r'Constraint', e.get('fn','')) and not e.get('ctor'): calls.add(e['fn'].split('::')[-1])
        print(fn.name.replace('SimTK::','')[:60], t['line'], '|', s[:50], '| guards', guards[:1], '| calls', sorted(calls)[:6])
print(n)
