import sys, json, time, os, re; sys.path.insert(0,'/verif')
from simlint.facts import *
from simlint.match import *
U=units_matching(r'/Simbody/src/')
P=Program(extract_split(U, hdr=r"/Simbody/src/.*\.h$|/Simbody/include/"))
AL=re.compile(r'::allocate(DiscreteVariable|AutoUpdateDiscreteVariable|CacheEntry|LazyCacheEntry|CacheEntryWithPrerequisites)$')
SV={n.split('::')[-1]:int(v) for n,v in P.enums['SimTK::Stage::Level']['enumerators']}
var={}; cache={}
for f in P.all_fns():
    for b,i,e in f.calls():
        m=AL.search(e.get('fn',''))
        if not m: continue
        recv=None
        evs=f.blocks[b]['ev']
        for j in range(i+1, min(i+10,len(evs))):
            w=ev_write(evs[j])
            if w and w[2] is not None and sx_find(w[2], lambda y: y==e['x']):
                recv=field_of(w[0]); break
        if not recv: continue
        st=[SV[x.split('::')[-1]] for x in sx_enums(e['x']) if x.startswith('SimTK::Stage::')]
        kind=m.group(1)
        if kind=='DiscreteVariable' and st: var[recv]=dict(inv=st[0], site=f.id)
        elif kind=='AutoUpdateDiscreteVariable' and len(st)>=2: 
            var[recv]=dict(inv=st[0], site=f.id, auto=True, upd=st[1])
            cache[recv+'#update']=dict(dep=st[1], site=f.id)
        elif st: cache[recv]=dict(dep=st[0], site=f.id, kind=kind)
print(len(var),len(cache))
RD=re.compile(r'::(get|upd)DiscreteVariable$|::getDiscreteVarUpdateValue$')
FL=re.compile(r'::(updCacheEntry|markCacheValueRealized|updDiscreteVarUpdateValue|markDiscreteVarUpdateValueRealized)$')
def fields_in(x): return [y[2] for y in sx_find(x, lambda y: y[0]=='mem')]
direct={}
for f in P.all_fns():
    r=set(); w=set(); fl=set()
    for b,i,e in f.calls():
        n=e.get('fn','')
        if RD.search(n):
            for fld in fields_in(e['x']):
                if fld in var:
                    (w if '::upd' in n else r).add(fld)
        if FL.search(n):
            for fld in fields_in(e['x']):
                if fld in cache: fl.add(fld)
                if fld in var and 'DiscreteVarUpdate' in n: fl.add(fld+'#update')
    if r or w or fl: direct[f.id]=(r,w,fl)
print(len(direct))
memo={}
def reads(fid, depth=3, seen=()):
    if (fid,depth) in memo: return memo[(fid,depth)]
    res=set(direct.get(fid,(set(),set(),set()))[0])
    if depth>0:
        for fn in P.by_id.get(fid,[]):
            for b,i,e in fn.calls():
                c=e.get('fid')
                if c and c not in seen and c in P.by_id and c!=fid:
                    res|=reads(c, depth-1, seen+(fid,))
    memo[(fid,depth)]=res
    return res
inv={v:k for k,v in SV.items()}
for fid,(r,w,fl) in sorted(direct.items()):
    if not fl: continue
    rs=reads(fid)
    for c in fl:
        for v in rs:
            if var[v]['inv']>cache[c]['dep']:
                print('STAGE?', fid.replace('SimTK::',''), 'fills', c.split('::')[-1], 'dep', inv[cache[c]['dep']], 'reads', v.split('::')[-1], 'inv', inv[var[v]['inv']])

print('----chain')
def chain(fid, target, depth=3, seen=()):
    if target in direct.get(fid,(set(),))[0]: return [fid]
    if depth==0: return None
    for fn in P.by_id.get(fid,[]):
        for b,i,e in fn.calls():
            c=e.get('fid')
            if c and c not in seen and c in P.by_id and c!=fid:
                r=chain(c,target,depth-1,seen+(fid,))
                if r: return [fid]+r
    return None
tgt=[v for v in var if v.endswith('dynamicsVarsIndex')][0]
print(chain('SimTK::SimbodyMatterSubsystemRep::realizeSubsystemTimeImpl(const SimTK::State &)const', tgt))
