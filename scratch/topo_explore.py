import sys, re; sys.path.insert(0,'/verif')
from simlint.facts import *
from simlint.match import *
from simlint.rules import c16
U=units_matching(r'/Simbody/src/')
P=Program(extract_split(U, hdr=c16.HDR))
impls=sorted(P.subclasses('SimTK::ForceImpl'))
print(len(impls))
mut={}
for c in impls+['SimTK::ForceImpl']:
    cd=P.classes.get(c)
    if not cd: print('no class facts',c); continue
    for f in cd['fields']: mut[c+'::'+f['name']]=(f.get('mutable'), f['ty'])
INV=re.compile(r'invalidate(Subsystem)?TopologyCache$|::setDisabledByDefault$')
n=0
for fn in sorted(P.all_fns(), key=lambda f:f.id):
    if fn.kind in('ctor','copyctor','movector','dtor'): continue
    for b,i,e in fn.events(lambda e: e['k']=='mem' and e['field'] in mut and e['acc'] in('w','rw','mcall','refarg','addr','handout','refbind')):
        if mut[e['field']][0]: continue
        n+=1
        isinv=lambda q: q['k']=='call' and INV.search(q.get('fn',''))
        before=fn.path_exists(None, lambda q: q is e, isinv)
        after=fn.path_exists((b,i),'exit',isinv)
        ok = before is None or after is None
        print('OK ' if ok else 'BAD', fn.name.replace('SimTK::',''), e['field'].split('::')[-1], e['acc'], e.get('via','').split('::')[-1], fn.file.split('/')[-1], e['line'])
print(n)
