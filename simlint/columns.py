"""Shared structural rules for 'explicit matrix == operator applied to unit vectors' (COLUMNS) and for the direction / coverage of
tree sweeps (SWEEP).  Used by C01, C02, C04 (and C15 for its own sweeps)."""
import re
from .facts import sx_find, sx_str
from .match import call_args, call_obj, var_of, ev_write, field_of


def _lit(x, vals):
    while isinstance(x, list) and x and x[0] in ("cast", "ctor", "conv"):
        if x[0] == "ctor":
            if len(x[2]) != 1:
                return False
            x = x[2][0]
        elif x[0] == "cast":
            x = x[2]
        else:
            x = x[1]
    return isinstance(x, list) and x[:1] == ["lit"] and str(x[1]) in vals


def _loop_var(f, h):
    t = f.blocks[h].get("term")
    c = t.get("cond") if t else None
    if isinstance(c, list) and len(c) == 4 and c[0] in ("op", "opc") and c[1] in ("<", ">=", "<=", ">", "!="):
        return var_of(c[2]) if isinstance(c[2], list) and c[2][:1] == ["var"] else None, c
    return None, c


def _steps(f, body, v):
    out = []
    for b in body:
        for e in f.blocks[b]["ev"]:
            if e["k"] == "call" and e.get("op") in ("++", "--", "+=", "-=") and e["x"][2] == ["var", v]:
                out.append(e["op"])
            if e["k"] == "assign" and e["lhs"] == ["var", v]:
                out.append(e["op"])
    return out


def _iter_bypass(f, h, body, start, must):
    """a path from just after position `start` (block, idx) to the loop header h, inside the loop, that passes no event of `must`"""
    infeas = f.infeasible_edges()
    b0, i0 = start
    for e in f.blocks[b0]["ev"][i0 + 1:]:
        if any(e is m for m in must):
            return None
    seen, st = set(), [(s, (b0, s)) for s in f.succs(b0) if (b0, s) not in infeas]
    while st:
        b, path = st.pop()
        if b == h:
            return list(path)
        if b in seen or b not in body:
            continue
        seen.add(b)
        if any(any(e is m for m in must) for e in f.blocks[b]["ev"]):
            continue
        for s in f.succs(b):
            if (b, s) not in infeas:
                st.append((s, path + (s,)))
    return None


def _root(f, x, depth=3):
    """the variable an l-value lives in, following reference locals (`SpatialVec& Fb = F_G[mobodx]`)"""
    v = var_of(x)
    while v and depth > 0:
        ds = [d for _, _, d in f.events(lambda q: q["k"] == "decl" and q["var"] == v)]
        if len(ds) == 1 and str(ds[0].get("ty", "")).rstrip().endswith("&") and isinstance(ds[0].get("init"), list) and var_of(ds[0]["init"]) and var_of(ds[0]["init"]) != v:
            v = var_of(ds[0]["init"])
            depth -= 1
        else:
            break
    return v


def _reaches_header(f, b, i, d, h, var):
    """can block h be reached from just after declaration d (at block b, index i) without passing another declaration of var?"""
    if any(q["k"] == "decl" and q["var"] == var and q is not d for q in f.blocks[b]["ev"][i + 1:]):
        return False
    infeas = f.infeasible_edges()
    seen, st = {b}, [b]
    while st:
        x = st.pop()
        for s_ in f.succs(x):
            if (x, s_) in infeas or s_ in seen:
                continue
            if s_ == h:
                return True
            if any(q["k"] == "decl" and q["var"] == var and q is not d for q in f.blocks[s_]["ev"]):
                continue
            seen.add(s_)
            st.append(s_)
    return b == h


def range_for(f, h):
    """(range expression, element variable) if loop h is a range-based for (it visits every element of its range, in order), else None"""
    t = f.blocks[h].get("term")
    if not t or t.get("k") != "forrange" or not isinstance(t.get("cond"), list):
        return None
    c = t["cond"]
    bv = c[2][1] if isinstance(c[2], list) and c[2][:1] == ["var"] else None
    if not bv or not bv.startswith("__begin"):
        return None
    n = bv[len("__begin"):]
    rd = [(b, i, d) for b, i, d in f.events(lambda q: q["k"] == "decl" and q["var"] == "__range" + n and q.get("init") is not None)]
    if len(rd) > 1:
        # sibling range-fors at the same nesting depth reuse the compiler's names: take the declaration that reaches this header
        rd = [(b, i, d) for b, i, d in rd if _reaches_header(f, b, i, d, h, "__range" + n)]
    rd = [d for _, _, d in rd]
    body = f.loops().get(h, set())
    ed = [d for b, _, d in f.events(lambda q: q["k"] == "decl" and isinstance(q.get("init"), list) and q["init"][:2] in (["un", "*"], ["opc", "*"]) and q["init"][2] == ["var", bv]) if b in body]
    if len(rd) != 1 or len(ed) != 1:
        return None
    return rd[0]["init"], ed[0]["var"]


def unit_sets(f):
    """(header, body, block, idx, event, index variable) of every `X..[i] = 1` inside a loop whose loop variable is i"""
    out = []
    loops = f.loops()
    for b, i, e in f.events(lambda q: q["k"] == "assign" and q["op"] == "=" and _lit(q.get("rhs"), ("1", "1.0", "1."))):
        lhs = e["lhs"]
        if not (isinstance(lhs, list) and lhs[0] in ("opc", "idx") and len(lhs) > 3 and lhs[1] == "[]"):
            continue
        iv = var_of(lhs[3]) if isinstance(lhs[3], list) and lhs[3][:1] == ["var"] else None
        hs = [h for h in f.loops_of(b) if _loop_var(f, h)[0] == iv]
        if iv and hs:
            h = min(hs, key=lambda h: len(loops[h]))
            out.append((h, loops[h], b, i, e, iv))
    return out


def columns(chk, P, funcs, rule="COLUMNS", operator_re=r"::(multiplyBy\w+|calc\w+)$"):
    """funcs: {qualified function name: description}; every unit-entry loop found in them is judged"""
    n = 0
    for name in sorted(funcs):
        fs = sorted(P.fns_named(name), key=lambda g: g.line)
        if not chk.shape(bool(fs), rule, name.split("::")[-1] + ":found", "", "%d definitions" % len(fs)):
            continue
        for k, f0 in enumerate(fs):
            short = name.split("::")[-1] + ("#%d" % k if len(fs) > 1 else "")
            # the function itself and its local lambdas (a column loop extracted into `auto part = [&](SpatialVec& Fb, ..) {..}`)
            parts = [f0] + sorted([g for g in P.all_fns() if g.d.get("parent") == f0.id and g.blocks], key=lambda g: g.line)
            us = [(g,) + u for g in parts for u in unit_sets(g)]
            chk.shape(bool(us), rule, short + ":unit-entry-loops", f0.loc, "%d loops set one entry of a work vector to 1" % len(us))
            for m, (f, h, body, b, i, e, iv) in enumerate(us):
                n += 1
                inst = "%s:unit#%d" % (short, m)
                site = "%s:%d" % (f.file, e["line"])
                lhs = e["lhs"]
                resets = [(rb, ri, r) for rb, ri, r in f.events(lambda q: q["k"] == "assign" and q["op"] == "=" and q["lhs"] == lhs and _lit(q.get("rhs"), ("0", "0.0", "0."))) if rb in body]
                byp = _iter_bypass(f, h, body, (b, i), [r[2] for r in resets])
                chk.judge(bool(resets) and byp is None, rule, inst + ":entry-reset-to-0-before-the-next-column", site,
                          "%s = 1 is not followed by %s = 0 on every path to the next iteration: the next column is computed from a vector with two (or more) unit entries" % (sx_str(lhs), sx_str(lhs)), byp)
                # the operator is applied between the set and the reset
                isop = lambda q: q["k"] == "call" and re.search(operator_re, str(q.get("fn", ""))) is not None
                ops = [q for bb in body for q in f.blocks[bb]["ev"] if isop(q)]
                okop = bool(ops)
                for rb, ri, r in resets:
                    p_ = f.path_exists((b, i), lambda q, r=r: q is r, isop, lift=0)
                    if p_ is not None:
                        okop = False
                chk.judge(okop, rule, inst + ":operator-applied-while-the-entry-is-1", site, "an O(n) operator (%s) is called on every path between the set and the reset" %
                          sorted({str(q["fn"]).split("::")[-1] for q in ops}))
                # the work vector starts from zero
                root = _root(f, lhs)

                def starts_zero(F, root, at):
                    ds = [(db, di, d) for db, di, d in F.events(lambda q: q["k"] == "decl" and q["var"] == root)]
                    if len(ds) != 1:
                        return False
                    init = ds[0][2].get("init")
                    zero = isinstance(init, list) and init[:1] == ["ctor"] and len(init[2]) >= 2 and bool(sx_find(init[2][-1], lambda y: y[0] == "lit" and str(y[1]) in ("0", "0.0", "0."))) and \
                        not sx_find(init[2][-1], lambda y: y[0] in ("var", "mem"))
                    if not zero:
                        z = lambda q: (q["k"] == "call" and str(q.get("fn", "")).endswith("::setToZero") and var_of(call_obj(q)) == root) or \
                            (bool(ev_write(q)) and ev_write(q)[0] == ["var", root] and ev_write(q)[1] == "=" and _lit(ev_write(q)[2], ("0", "0.0", "0.")))
                        zero = any(True for _ in F.events(z)) and F.path_exists((ds[0][0], ds[0][1]), lambda q: q is at, z, lift=0) is None
                    return zero
                params = [p_[0] for p_ in f.d.get("params", [])]
                if f is not f0 and root in params:
                    # the work vector is handed to the lambda: judge the argument at every call of the lambda
                    cs = [q for _, _, q in f0.calls() if q.get("fid") == f.id]
                    k_ = params.index(root)
                    zero = bool(cs)
                    for q in cs:
                        a = call_args(q)
                        a = a[1:] if len(a) == len(params) + 1 else a      # operator(): the closure object may come first
                        zero = zero and len(a) == len(params) and starts_zero(f0, _root(f0, a[k_]), q)
                    root_desc = "%s (argument %d of the lambda)" % (root, k_)
                elif f is not f0:
                    # captured by reference: the parent's variable, zero before the lambda is first called
                    cs = [q for _, _, q in f0.calls() if q.get("fid") == f.id]
                    zero = bool(cs) and all(starts_zero(f0, root, q) for q in cs)
                    root_desc = root
                else:
                    zero = starts_zero(f, root, e)
                    root_desc = root
                chk.judge(zero, rule, inst + ":work-vector-starts-at-zero", site, "%s is zero before its first unit entry is set" % root_desc)
                # loop shape
                _, c = _loop_var(f, h)
                d0 = [d for _, _, d in f.events(lambda q: q["k"] == "decl" and q["var"] == iv)]
                d0 = [d for d in d0 if f.path_exists(_pos(f, d), lambda q: q is e, lambda q: any(q is o for o in d0 if o is not d), lift=0) is not None]
                okl = len(d0) == 1 and _lit(d0[0].get("init"), ("0",)) and isinstance(c, list) and c[1] == "<" and _steps(f, body, iv) == ["++"]
                chk.judge(okl, rule, inst + ":every-column-0..n-1", site, "loop %s = %s; %s; %s" % (iv, sx_str(d0[0].get("init")) if d0 else None, sx_str(c), _steps(f, body, iv)))
                # the result lands in slot i of something else than the work vector
                outs = []
                for bb in body:
                    for q in f.blocks[bb]["ev"]:
                        for x in (q.get("x"), q.get("lhs")):
                            for y in sx_find(x, lambda y: y[0] in ("opc", "idx") and len(y) > 3 and y[1] in ("()", "[]") and _root(f, y) != root and
                                             any(bool(sx_find(a, lambda z: z == ["var", iv])) or a == ["var", iv] for a in y[3:])):
                                outs.append(sx_str(y))
                chk.judge(bool(outs), rule, inst + ":result-stored-at-the-same-index", site, "slots written / handed out with index %s: %s" % (iv, sorted(set(outs))[:3]))
    return n


def _pos(f, ev):
    for b, i, e in f.events(lambda q: q is ev):
        return (b, i)
    return None


def node_sweeps(chk, P, funcs, rule="SWEEP", direction=None):
    """funcs: {function short name (in SimbodyMatterSubsystemRep): [expected node routines in call order]}.  Every nested level/node loop
    over rbNodeLevels in those functions is judged: an ...Inward routine is called from a loop that runs the levels from the last down
    to 0 (children before parents), an ...Outward routine from one that runs them from 0 (or 1) upwards; all nodes of a level;
    pass 1 completes before pass 2 starts."""
    n = 0
    for name, expected in sorted(funcs.items()):
        fs = [f for f in P.all_fns() if f.name.split("::")[-1] == name and "SimbodyMatterSubsystemRep" in f.name]
        def mentions(f):
            return any(True for _ in f.events(lambda q: q["k"] == "mem" and str(q.get("field", "")).endswith("::rbNodeLevels")))
        fs = [f for f in fs if mentions(f) or any(mentions(g) for g in P.all_fns() if g.d.get("parent") == f.id)]
        if not chk.shape(len(fs) >= 1, rule, name + ":found", "", "%d definitions sweeping rbNodeLevels" % len(fs)):
            continue
        for f0 in fs[:1]:
          lv = lambda x: bool(sx_find(x, lambda y: y[0] == "mem" and y[2].endswith("::rbNodeLevels")))
          seen_at = []
          # the operator itself and its local lambdas (a pass extracted into a lambda is ordered by where the lambda is called)
          parts = [(f0, None)] + [(g, min([e["line"] for _, _, e in f0.calls() if e.get("fid") == g.id] or [g.line])) for g in P.all_fns() if g.d.get("parent") == f0.id and g.blocks]
          for f, at_line in parts:
            loops = f.loops()
            seen = []
            for h in sorted(loops, key=lambda h: -h):       # CFG block ids decrease in source order
                  body = loops[h]
                  iv, c = _loop_var(f, h)
                  rf = range_for(f, h)
                  outer = [oh for oh in f.loops_of(h) if oh != h and h in loops[oh]]
                  if not outer:
                      continue
                  oh = min(outer, key=lambda x: len(loops[x]))
                  # the level loop may itself be a range-for over rbNodeLevels (`for (const auto& level : rbNodeLevels)`: levels 0..last)
                  orf = range_for(f, oh)
                  if orf is not None and not (lv(orf[0]) and not sx_find(orf[0], lambda y: y[0] in ("opc", "idx") and len(y) > 3)):
                      orf = None

                  def one_level(x):
                      """x is `rbNodeLevels[i]` or the element variable of the enclosing range-for over rbNodeLevels"""
                      if lv(x) and sx_find(x, lambda y: y[0] in ("opc", "idx") and len(y) > 3):
                          return True
                      return orf is not None and bool(sx_find(x, lambda y: y == ["var", orf[1]]))
                  if rf is not None:
                      # node loop written as a range-for over rbNodeLevels[i] / over the level variable
                      if not one_level(rf[0]):
                          continue
                  else:
                      if not iv or not isinstance(c, list):
                          continue
                      # node loop: bound is rbNodeLevels[i].size() / level.size()
                      if not (c[1] == "<" and one_level(c[3])):
                          continue
                  ov, oc = _loop_var(f, oh)
                  if orf is not None:
                      ov = orf[1]
                  direction = direction or {}
                  calls = [q for bb in body for q in f.blocks[bb]["ev"] if q["k"] == "call" and "RigidBodyNode" in str(q.get("fn", "")) and
                           (re.search(r"(Inward|Outward)$", str(q["fn"])) or str(q["fn"]).split("::")[-1] in direction)]
                  for q in calls:
                      rn = str(q["fn"]).split("::")[-1]
                      seen.append((q["line"], rn))
                      n += 1
                      site = "%s:%d" % (f.file, q["line"])
                      od = [d for _, _, d in f.events(lambda z: z["k"] == "decl" and z["var"] == ov)]
                      od = [d for d in od if f.path_exists(_pos(f, d), lambda z: z is q, lambda z: any(z is o for o in od if o is not d), lift=0) is not None]
                      init = od[0].get("init") if len(od) == 1 else None
                      st = _steps(f, loops[oh] - body, ov)
                      if orf is not None:
                          inward = rn.endswith("Inward") or direction.get(rn) == "Inward"
                          chk.judge(not inward, rule, "%s:%s:%s" % (name, rn, "levels-last..0-children-before-parents" if inward else "levels-0..last-parents-before-children"), site,
                                    "level loop is a range-for over %s (levels 0..last in order)" % sx_str(orf[0]))
                      elif rn.endswith("Inward") or direction.get(rn) == "Inward":
                          ok = isinstance(init, list) and lv(init) and bool(sx_find(init, lambda y: y[0] in ("op", "opc") and y[1] == "-" and _lit(y[3], ("1",)))) and \
                              isinstance(oc, list) and oc[1] in (">=", ">") and _lit(oc[3], ("0",)) and st == ["--"]
                          chk.judge(ok, rule, "%s:%s:levels-last..0-children-before-parents" % (name, rn), site, "level loop %s = %s; %s; %s" % (ov, sx_str(init), sx_str(oc), st))
                      else:
                          ok = _lit(init, ("0", "1")) and isinstance(oc, list) and oc[1] == "<" and lv(oc[3]) and st == ["++"]
                          chk.judge(ok, rule, "%s:%s:levels-0..last-parents-before-children" % (name, rn), site, "level loop %s = %s; %s; %s" % (ov, sx_str(init), sx_str(oc), st))
                      if rf is not None:
                          okj = bool(sx_find(rf[0], lambda y: y == ["var", ov]))
                          chk.judge(okj, rule, "%s:%s:all-nodes-of-the-level" % (name, rn), site, "range-for over %s" % sx_str(rf[0]))
                      else:
                          jd = [d for _, _, d in f.events(lambda z: z["k"] == "decl" and z["var"] == iv)]
                          jd = [d for d in jd if f.path_exists(_pos(f, d), lambda z: z is q, lambda z: any(z is o for o in jd if o is not d), lift=0) is not None]
                          okj = len(jd) == 1 and _lit(jd[0].get("init"), ("0",)) and _steps(f, body, iv) == ["++"] and bool(sx_find(c[3], lambda y: y == ["var", ov]))
                          chk.judge(okj, rule, "%s:%s:all-nodes-of-the-level" % (name, rn), site, "node loop %s = %s; %s" % (iv, sx_str(jd[0].get("init")) if jd else None, sx_str(c)))
                      byp = _iter_bypass(f, h, body, (h, len(f.blocks[h]["ev"]) - 1), [q])
                      chk.judge(byp is None, rule, "%s:%s:called-for-every-node" % (name, rn), site, "an iteration of the node loop can finish without calling %s" % rn, byp)
                      onode = call_obj(q)
                      raw = onode
                      onode = _deref_local(f, onode, q)
                      if rf is not None:
                          oknode = raw == ["var", rf[1]] or (isinstance(onode, list) and {y[1] for y in sx_find(onode, lambda y: y[0] == "var")} == {rf[1]})
                      else:
                          oknode = {y[1] for y in sx_find(onode, lambda y: y[0] == "var")} >= {ov, iv}
                      chk.judge(oknode, rule, "%s:%s:on-node[level][j]" % (name, rn), site, "called on %s" % sx_str(onode))
            seen_at += [((at_line if at_line is not None else ln), rn_) for ln, rn_ in seen]
          seen = [rn_ for _, rn_ in sorted(seen_at, key=lambda x: x[0])]
          f = f0
          chk.judge(seen == expected, rule, name + ":passes-in-order", f.loc, "node routines in sweep order: %s (required %s)" % (seen, expected))
            # pass k completes (its level loop is left) before pass k+1 starts: no node routine of a later pass inside an earlier pass's loop is implied by `seen` being grouped per loop
    return n


def _deref_local(f, x, at_ev):
    """object expression with a reference local (`const RigidBodyNode& node = *rbNodeLevels[i][j]`) replaced by its initialiser"""
    v = x[1] if isinstance(x, list) and x[:1] == ["var"] else None
    if not v:
        return x
    ds = [d for _, _, d in f.events(lambda q: q["k"] == "decl" and q["var"] == v and q.get("init") is not None)]
    ds = [d for d in ds if f.path_exists(_pos(f, d), lambda z: z is at_ev, lambda z: any(z is o for o in ds if o is not d), lift=0) is not None]
    return ds[0]["init"] if len(ds) == 1 else x


NODE_UNITS = r"/Simbody/src/(RigidBodyNodeSpec|RigidBodyNode_LoneParticle|RigidBodyNode_Weld)\.cpp$"
NODE_HDR = r"/Simbody/src/RigidBodyNodeSpec\.h$"


def index_space(chk, P, methods=None, rule="INDEXSPACE"):
    """Sibling agreement between the generic node template and the hand-written node classes: a pointer parameter that
    RigidBodyNodeSpec<dof> accesses through fromU()/toU() is a u-space array, one it accesses through fromQ()/toQ() a q-space array; every
    other implementation of the same virtual (lone particle, weld, ground) must subscript that parameter with its uIndex / qIndex
    respectively.  (The two index spaces differ as soon as a quaternion-capable mobilizer precedes the body.)"""
    tab = {}
    for f in P.all_fns():
        if "RigidBodyNodeSpec" in (f.cls or "") and f.d.get("tmpl") == "pattern":
            ps = [p_[0] for p_ in f.d["params"]]
            sp = {}
            for _, _, e in f.events():
                for x in (e.get("x"), e.get("init"), e.get("rhs"), e.get("lhs"), e.get("val")):
                    for y in sx_find(x, lambda y: y[0] in ("dcall", "call") and str(y[1]).split("::")[-1] in ("fromU", "toU", "fromQ", "toQ") and y[3] and
                                     isinstance(y[3][0], list) and y[3][0][:1] == ["var"] and y[3][0][1] in ps):
                        sp[ps.index(y[3][0][1])] = str(y[1]).split("::")[-1][-1].lower()
            if sp:
                tab[(f.name.split("::")[-1], len(ps))] = sp
    chk.shape(len(tab) >= 10, rule, "generic-template:spaces-learned", "", "%d virtuals of RigidBodyNodeSpec<dof> with u- / q-space pointer parameters" % len(tab))
    n = 0
    for f in sorted(P.all_fns(), key=lambda f: f.id):
        key = (f.name.split("::")[-1], len(f.d.get("params", [])))
        if key not in tab or "RigidBodyNodeSpec" in (f.cls or "") or f.d.get("tmpl") == "pattern" or not f.cls:
            continue
        if methods is not None and key[0] not in methods:
            continue
        ps = [p_[0] for p_ in f.d["params"]]
        for pos, space in sorted(tab[key].items()):
            pv = ps[pos]
            subs = []
            for _, _, e in f.events():
                for x in (e.get("x"), e.get("init"), e.get("rhs"), e.get("lhs"), e.get("val")):
                    for y in sx_find(x, lambda y: y[0] in ("idx", "opc") and (y[0] == "idx" or y[1] == "[]") and (y[1] if y[0] == "idx" else y[2]) == ["var", pv]):
                        subs.append(y[2] if y[0] == "idx" else y[3])
            for k, ix in enumerate(subs):
                n += 1
                names = {str(z[2]).split("::")[-1] for z in sx_find(ix, lambda z: z[0] == "mem")} | {str(z[1]).split("::")[-1] for z in sx_find(ix, lambda z: z[0] in ("call", "dcall"))}
                want = {"u": {"uIndex", "getUIndex"}, "q": {"qIndex", "getQIndex"}}[space]
                other = {"u": {"qIndex", "getQIndex"}, "q": {"uIndex", "getUIndex"}}[space]
                chk.judge(bool(names & want) and not (names & other), rule, "%s::%s:%s[%d]" % (f.cls.split("::")[-1], key[0], pv, k), f.loc,
                          "%s is a %s-space array (the generic node reads it with from%s/to%s) but is subscripted with %s" % (pv, space, space.upper(), space.upper(), sx_str(ix)))
    return n


def _written_params(f):
    """positions of pointer parameters an element of which [nodeNum] / [0] is assigned in f (directly or through a reference local bound to it)
    -> list of the write events"""
    ps = [p_[0] for p_ in f.d.get("params", [])]
    refs = {}
    for _, _, d in f.events(lambda q: q["k"] == "decl" and str(q.get("ty", "")).rstrip().endswith("&") and not str(q.get("ty", "")).lstrip().startswith("const") and isinstance(q.get("init"), list)):
        x = d["init"]
        if x[0] in ("idx", "opc") and (x[0] == "idx" or x[1] == "[]"):
            base = x[1] if x[0] == "idx" else x[2]
            ix = x[2] if x[0] == "idx" else x[3]
            if not (isinstance(base, list) and base[:1] == ["var"] and base[1] in ps) and isinstance(ix, list) and ix[:1] == ["var"] and ix[1] in ps:
                base, ix = ix, base         # (a dependent subscript may be recorded index-first)
            if isinstance(base, list) and base[:1] == ["var"] and base[1] in ps and (sx_find(ix, lambda z: z[0] == "mem" and str(z[2]).endswith("::nodeNum")) or _lit(ix, ("0",))):
                refs[d["var"]] = base[1]
    out = {}
    for b, i, e in f.events(lambda q: bool(ev_write(q)) and ev_write(q)[1] in ("=", "+=", "-=")):
        lhs = ev_write(e)[0]
        tgt = None
        if isinstance(lhs, list) and lhs[:1] == ["var"] and lhs[1] in refs:
            tgt = refs[lhs[1]]
        elif isinstance(lhs, list) and lhs[0] in ("idx", "opc") and (lhs[0] == "idx" or lhs[1] == "[]"):
            base = lhs[1] if lhs[0] == "idx" else lhs[2]
            ix = lhs[2] if lhs[0] == "idx" else lhs[3]
            if not (isinstance(base, list) and base[:1] == ["var"] and base[1] in ps) and isinstance(ix, list) and ix[:1] == ["var"] and ix[1] in ps:
                base, ix = ix, base
            if isinstance(base, list) and base[:1] == ["var"] and base[1] in ps and (sx_find(ix, lambda z: z[0] == "mem" and str(z[2]).endswith("::nodeNum")) or _lit(ix, ("0",))):
                tgt = base[1]
        elif isinstance(lhs, list) and lhs[0] in ("dcall", "call") and str(lhs[1]).split("::")[-1] == "toB" and lhs[3] and isinstance(lhs[3][0], list) and lhs[3][0][:1] == ["var"] and lhs[3][0][1] in ps:
            tgt = lhs[3][0][1]
        if tgt is not None:
            out.setdefault(ps.index(tgt), []).append(e)
    return out


def _caller_visible(PR, mname, nparams, pos):
    """is the array handed to node routine `mname` at parameter position pos, at some call site in the matter subsystem's operators, storage
    that belongs to the operator's CALLER (a non-const reference parameter of the operator) rather than a scratch local?"""
    for g in PR.all_fns():
        gp = {p_[0]: p_[1] for p_ in g.d.get("params", [])}
        for _, _, e in g.calls():
            if str(e.get("fn", "")).split("::")[-1] != mname or "RigidBodyNode" not in str(e.get("fn", "")):
                continue
            a = call_args(e)
            if len(a) != nparams:
                continue
            x = a[pos]
            for _ in range(3):
                v = var_of(x) if isinstance(x, list) else None
                roots = {y[1] for y in sx_find(x, lambda y: y[0] == "var")} if isinstance(x, list) else set()
                hit = [r for r in roots if r in gp and gp[r].rstrip().endswith("&") and not gp[r].lstrip().startswith("const")]
                if hit:
                    return True
                ds = [d for _, _, d in g.events(lambda q: q["k"] == "decl" and q["var"] in roots and isinstance(q.get("init"), list))]
                if len(ds) != 1:
                    break
                x = ds[0]["init"]
    return False


def body_outputs(chk, P, methods=None, rule="OUTWRITE", PR=None):
    """Sibling agreement on outputs: a per-body output array (SpatialVec* / Real* parameter) whose own entry [nodeNum] the generic node
    template assigns in a pass must be assigned, on every path, by every other implementation of that pass too (Ground writes its entry 0):
    the sweeps never pre-zero these arrays, so an entry a node leaves alone keeps whatever the caller's vector held."""
    gen = {}
    for f in P.all_fns():
        if "RigidBodyNodeSpec" in (f.cls or "") and f.d.get("tmpl") == "pattern":
            w = _written_params(f)
            w = {k: v for k, v in w.items() if "SpatialVec" in f.d["params"][k][1]}
            if w:
                gen[(f.name.split("::")[-1], len(f.d["params"]))] = set(w)
    chk.shape(len(gen) >= 4, rule, "generic-template:body-outputs-learned", "", "%d passes of RigidBodyNodeSpec<dof> assign their own entry of a per-body output array" % len(gen))
    n = 0
    for f in sorted(P.all_fns(), key=lambda f: f.id):
        key = (f.name.split("::")[-1], len(f.d.get("params", [])))
        if key not in gen or "RigidBodyNodeSpec" in (f.cls or "") or f.d.get("tmpl") == "pattern" or not f.cls:
            continue
        if methods is not None and key[0] not in methods:
            continue
        w = _written_params(f)
        for pos in sorted(gen[key]):
            pv = f.d["params"][pos][0]
            if PR is not None and not _caller_visible(PR, key[0], key[1], pos):
                continue        # a scratch array of the operator: an entry nobody reads need not be written
            n += 1
            evs = w.get(pos, [])
            byp = f.path_exists(None, "exit", lambda q: any(q is e for e in evs), lift=0) if evs else [f.entry]
            chk.judge(bool(evs) and byp is None, rule, "%s::%s:%s[own entry]" % (f.cls.split("::")[-1], key[0], pv), f.loc,
                      "the generic node assigns its own entry of %s in this pass; this implementation does not on every path, so the entry keeps whatever the caller's array held" % pv, byp)
    return n
