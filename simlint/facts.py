"""Fact acquisition: compilation database, factdump runs (parallel, content-hash
cached), and the Program index the rules work on."""
import hashlib
import json
import os
import re
import subprocess
import sys
import time
from concurrent.futures import ThreadPoolExecutor

VERIF = os.path.dirname(os.path.dirname(os.path.abspath(__file__)))
REPO = os.environ.get("SIMLINT_REPO", "/repo")
WORK = os.path.join(VERIF, ".work")
FACTDUMP = os.path.join(VERIF, "tools", "bin", "factdump")
RESOURCE_DIR = "/usr/lib/llvm-14/lib/clang/14.0.6"
LIB_TARGETS = ("SimTKcommon", "SimTKmath", "SimTKsimbody")


class AnalysisBroken(Exception):
    """The analysis itself cannot run or an anchor vanished: exit 2, never a
    pass and never a violation."""


def _sha1_file(path, _memo={}):
    try:
        st = os.stat(path)
    except OSError:
        return "missing"
    key = (path, st.st_mtime_ns, st.st_size)
    if key not in _memo:
        h = hashlib.sha1()
        with open(path, "rb") as f:
            h.update(f.read())
        _memo[key] = h.hexdigest()
    return _memo[key]


def ensure_factdump():
    if not os.path.exists(FACTDUMP):
        r = subprocess.run([os.path.join(VERIF, "tools", "build.sh")], capture_output=True, text=True)
        if r.returncode != 0 or not os.path.exists(FACTDUMP):
            raise AnalysisBroken("factdump cannot be built: " + r.stderr[-2000:])


_compdb = None


def compdb():
    """Compile commands of the three library targets, taken from a fresh CMake
    configure of /repo's current tree (so added/removed sources are seen);
    falls back to /repo/_build's database.  Returns {file: [args]}."""
    global _compdb
    if _compdb is not None:
        return _compdb
    os.makedirs(WORK, exist_ok=True)
    cdbdir = os.path.join(WORK, "cdb")
    raw = None
    stamp = os.path.join(cdbdir, ".stamp")
    # re-configure unless done in the last 10 minutes with unchanged CMake lists
    cm = [os.path.join(REPO, p) for p in ("CMakeLists.txt", "SimTKcommon/CMakeLists.txt",
                                             "SimTKmath/CMakeLists.txt", "Simbody/CMakeLists.txt")]
    srcdirs_sig = hashlib.sha1()
    for lib in ("SimTKcommon", "SimTKmath", "Simbody"):
        for dp, dn, fn in os.walk(os.path.join(REPO, lib)):
            if "/tests" in dp or "/examples" in dp:
                continue
            for f in sorted(fn):
                if f.endswith((".cpp", ".c", ".txt", ".cmake")):
                    srcdirs_sig.update((dp + "/" + f).encode())
    for c in cm:
        srcdirs_sig.update(_sha1_file(c).encode())
    sig = srcdirs_sig.hexdigest()
    fresh = False
    if os.path.exists(stamp) and open(stamp).read() == sig:
        fresh = True
    if not fresh:
        r = subprocess.run(["cmake", "-G", "Ninja", "-S", REPO, "-B", cdbdir,
                            "-DCMAKE_BUILD_TYPE=RelWithDebInfo", "-DBUILD_EXAMPLES=OFF",
                            "-DBUILD_TESTING=OFF", "-DBUILD_VISUALIZER=OFF"],
                           capture_output=True, text=True)
        if r.returncode == 0:
            with open(stamp, "w") as f:
                f.write(sig)
            fresh = True
    if fresh:
        r = subprocess.run(["ninja", "-C", cdbdir, "-t", "compdb"], capture_output=True, text=True)
        if r.returncode == 0:
            raw = json.loads(r.stdout)
    if raw is None:
        r = subprocess.run(["ninja", "-C", os.path.join(REPO, "_build"), "-t", "compdb"],
                           capture_output=True, text=True)
        if r.returncode != 0:
            raise AnalysisBroken("no compilation database available")
        raw = json.loads(r.stdout)
    db = {}
    for e in raw:
        out = e.get("output", "")
        m = re.search(r"CMakeFiles/([^/]+)\.dir/", out)
        if not m or m.group(1) not in LIB_TARGETS or not out.endswith(".o"):
            continue
        f = os.path.normpath(e["file"])
        if f in db:
            continue
        import shlex
        toks = shlex.split(e["command"])
        args = []
        skip = 0
        for t in toks[1:]:
            if skip:
                skip -= 1
                continue
            if t in ("-o", "-MT", "-MF"):
                skip = 1
                continue
            if t in ("-c", "-MD", "-g") or t == f or t.startswith("-O"):
                continue
            if os.path.normpath(t) == f:
                continue
            args.append(t)
        if f.endswith(".c"):
            lang = []
        else:
            lang = [] if any(a.startswith("-std=") for a in args) else ["-std=gnu++17"]
        args += lang + ["-resource-dir", RESOURCE_DIR, "-w", "-ferror-limit=0"]
        db[f] = {"args": args, "target": m.group(1)}
    if len(db) < 200:
        raise AnalysisBroken("compilation database has only %d library units" % len(db))
    _compdb = db
    return db


def units_matching(*patterns):
    """Library units whose path matches any of the regex patterns."""
    db = compdb()
    res = [f for f in sorted(db) if any(re.search(p, f) for p in patterns)]
    return res


def _run_factdump(unit, args, hdr, inst, overlays, out, nomain=False):
    cmd = [FACTDUMP, "--root", REPO, "--hdr", hdr, "-o", out]
    if nomain:
        cmd.append("--no-main")
    if inst:
        cmd += ["--inst", inst]
    for real, var in overlays:
        cmd += ["--overlay", "%s=%s" % (real, var)]
    cmd += [unit, "--"] + args
    r = subprocess.run(cmd, capture_output=True, text=True)
    return r.returncode, r.stderr


def extract_split(units, hdr=".*", inst="", overlays=()):
    """Like extract() but parses each header's functions only once: every unit
    is dumped main-file-only, then a small cover of units is re-dumped for the
    (matching) headers they include, each header assigned to one unit."""
    main = extract(units, hdr="^$", inst=inst, overlays=overlays)
    rx = re.compile(hdr)
    covered = set()
    # an overlaid header must be parsed from the overlay: handled by passing overlays through
    jobs = []
    for u, f in zip(units, main):
        hs = sorted(h for h in f["deps"] if h != u and rx.search(h) and h not in covered and not h.endswith((".cpp", ".c")))
        if hs:
            covered.update(hs)
            jobs.append((u, hs))
    extra = []
    if jobs:
        from concurrent.futures import ThreadPoolExecutor
        def one(j):
            u, hs = j
            hre = "^(" + "|".join(re.escape(h) for h in hs) + ")$"
            return extract([u], hdr=hre, inst=inst, overlays=overlays, nomain=True, jobs=1)[0]
        with ThreadPoolExecutor(max_workers=min(16, os.cpu_count() or 4)) as ex:
            extra = list(ex.map(one, jobs))
    return main + extra


def extract(units, hdr=".*", inst="", overlays=(), extra_args=None, jobs=None, nomain=False):
    """Run factdump on each unit (cached by content of the unit and of every
    repository file it includes).  Returns list of fact dicts."""
    ensure_factdump()
    db = compdb() if extra_args is None else None
    os.makedirs(os.path.join(WORK, "facts"), exist_ok=True)
    fdsig = _sha1_file(FACTDUMP)
    todo = []
    results = {}
    for u in units:
        args = extra_args if extra_args is not None else db[u]["args"]
        key = hashlib.sha1(json.dumps([u, args, hdr, inst, fdsig, [list(o) for o in overlays], nomain]).encode()).hexdigest()
        out = os.path.join(WORK, "facts", key + ".json")
        meta = out + ".meta"
        ok = False
        # with overlays, the un-overlaid cache entry is still right for units that do not include an overlaid file
        key0 = hashlib.sha1(json.dumps([u, args, hdr, inst, fdsig, [], nomain]).encode()).hexdigest()
        out0 = os.path.join(WORK, "facts", key0 + ".json")
        if overlays and os.path.exists(out0) and os.path.exists(out0 + ".meta"):
            try:
                m = json.load(open(out0 + ".meta"))
                if not any(real in m or real == u for real, _ in overlays) and all(_sha1_file(p) == h for p, h in m.items()):
                    results[u] = out0
                    continue
            except Exception:
                pass
        if os.path.exists(out) and os.path.exists(meta) and not overlays:
            try:
                m = json.load(open(meta))
                ok = all(_sha1_file(p) == h for p, h in m.items())
            except Exception:
                ok = False
        if ok:
            results[u] = out
        else:
            todo.append((u, args, out, meta))

    def work(t):
        u, args, out, meta = t
        rc, err = _run_factdump(u, args, hdr, inst, overlays, out, nomain)
        return u, rc, err, out, meta

    if todo:
        with ThreadPoolExecutor(max_workers=jobs or min(16, os.cpu_count() or 4)) as ex:
            for u, rc, err, out, meta in ex.map(work, todo):
                if rc != 0 or not os.path.exists(out):
                    raise AnalysisBroken("factdump failed on %s (rc=%s): %s" % (u, rc, err[-1500:]))
                d = json.load(open(out))
                with open(meta, "w") as f:
                    json.dump({p: _sha1_file(p) for p in d["deps"]}, f)
                results[u] = out
    facts = []
    for u in units:
        facts.append(json.load(open(results[u])))
    return facts


# ------------------------------------------------------------------ Program

class Fn:
    """One function body with its CFG."""
    __slots__ = ("d", "name", "id", "file", "line", "cls", "kind", "blocks", "entry", "exit",
                 "_preds", "_dom", "_pdom", "_reach", "_infeas", "P")

    def __init__(self, d):
        self.d = d
        self.name = d["name"]
        self.id = d["id"]
        self.file = d["file"]
        self.line = d["line"]
        self.cls = d.get("cls", "")
        self.kind = d["kind"]
        self.blocks = {b["id"]: b for b in d.get("blocks", [])}
        self.entry = d.get("entry")
        self.exit = d.get("exit")
        self._preds = None
        self._dom = None
        self._pdom = None
        self._reach = None
        self._infeas = None
        self.P = None           # owning Program (set by Program), used to lift predicates through wrappers

    def __repr__(self):
        return "<Fn %s %s:%d>" % (self.id, self.file, self.line)

    @property
    def loc(self):
        return "%s:%d" % (self.file, self.line)

    def succs(self, b):
        return [s for s in self.blocks[b]["succ"] if s >= 0]

    def preds(self):
        if self._preds is None:
            p = {b: [] for b in self.blocks}
            for b in self.blocks:
                for s in self.succs(b):
                    p[s].append(b)
            self._preds = p
        return self._preds

    def reachable(self):
        if self._reach is None:
            seen = set()
            st = [self.entry]
            infeas = self.infeasible_edges()
            while st:
                b = st.pop()
                if b in seen or b not in self.blocks:
                    continue
                seen.add(b)
                st.extend(s for s in self.succs(b) if (b, s) not in infeas)
            self._reach = seen
        return self._reach

    def events(self, pred=None):
        """Yield (block id, index, event) over reachable blocks."""
        reach = self.reachable()
        for b in sorted(self.blocks, reverse=True):
            if b not in reach:
                continue
            for i, e in enumerate(self.blocks[b]["ev"]):
                if pred is None or pred(e):
                    yield b, i, e

    def calls(self, name=None, regex=None):
        for b, i, e in self.events():
            if e["k"] != "call":
                continue
            fn = e.get("fn", "")
            if name is not None and fn != name:
                continue
            if regex is not None and not re.search(regex, fn):
                continue
            yield b, i, e

    # -- path queries at event granularity ---------------------------------
    def path_exists(self, start, goal, avoid, kill_on_throw=True, avoid_blocks=(), avoid_edges=(), lift=2):
        """Is there a CFG path from just after `start` (block, idx) -- or from
        function entry if start is None -- to an event satisfying `goal`
        (a predicate) or, if goal == 'exit', to the normal function exit,
        without passing an event satisfying `avoid`?  Returns the list of
        block ids of such a path or None.  Throw events and noreturn blocks
        end a path (they never reach a normal exit).

        `avoid` is LIFTED through wrappers: a call of a non-virtual function whose
        body is known and which, on every path to its normal exit, passes an event
        satisfying `avoid` (itself lifted, to depth `lift`) counts as satisfying
        it -- so that extracting the required calls into a helper does not change
        a must-pass-through verdict."""
        if lift and avoid is not None and getattr(self, "P", None) is not None:
            base_avoid, P, memo = avoid, self.P, {}

            def must(fid, d):
                if (fid, d) in memo:
                    return memo[(fid, d)]
                memo[(fid, d)] = False      # recursion guard
                gs = [g for g in P.by_id.get(fid, []) if g.blocks]
                ok = bool(gs)
                for g in gs:
                    if g is self or g.path_exists(None, "exit", lambda q, d=d: lifted(q, d - 1), lift=0) is not None:
                        ok = False
                        break
                memo[(fid, d)] = ok
                return ok

            def lifted(q, d=lift):
                if base_avoid(q):
                    return True
                if d > 0 and q.get("k") == "call" and q.get("fid") and not q.get("virt"):
                    return must(q["fid"], d)
                return False
            avoid = lifted
        if start is None:
            b0, i0 = self.entry, 0
        else:
            b0, i0 = start[0], start[1] + 1
        seen = set()
        stack = [(b0, i0, (b0,))]
        infeas = self.infeasible_edges()
        while stack:
            b, i, path = stack.pop()
            if b in avoid_blocks:
                continue
            blk = self.blocks[b]
            evs = blk["ev"]
            dead = False
            for j in range(i, len(evs)):
                e = evs[j]
                if goal != "exit" and goal(e):
                    return list(path)
                if avoid(e):
                    dead = True
                    break
                if kill_on_throw and (e["k"] == "throw" or (e["k"] == "call" and e.get("noreturn"))):
                    dead = True
                    break
            if dead:
                continue
            if blk.get("noreturn") and kill_on_throw:
                continue
            if b == self.exit:
                if goal == "exit":
                    return list(path)
                continue
            for s in self.succs(b):
                if s in seen or (b, s) in avoid_edges or (b, s) in infeas:
                    continue
                seen.add(s)
                stack.append((s, 0, path + (s,)))
        return None

    def dominators(self):
        if self._dom is None:
            self._dom = _dominators(self.entry, self.reachable(), self.succs, self.preds())
        return self._dom

    def dominates(self, a, b):
        """(block,idx) a dominates (block,idx) b?"""
        if a[0] == b[0]:
            return a[1] <= b[1]
        return a[0] in self.dominators().get(b[0], ())

    def infeasible_edges(self):
        """Edges that constant folding of the branch condition rules out: conditions built only from
        literals / string literals under !, &&, || (e.g. the always-failing SimTK_ERRCHK(!"message") idiom
        and the `do { } while(false)` of the check macros)."""
        if getattr(self, "_infeas", None) is not None:
            return self._infeas
        res = set()

        def val(x):
            if not isinstance(x, list) or not x:
                return None
            if x[0] == "str":
                return True
            if x[0] == "lit":
                if x[1] in ("true",):
                    return True
                if x[1] in ("false", "0", "null"):
                    return False
                try:
                    return float(x[1]) != 0
                except ValueError:
                    return None
            if x[0] == "un" and x[1] == "!":
                v = val(x[2])
                return None if v is None else (not v)
            if x[0] == "cast":
                return val(x[2])
            return None
        for b, blk in self.blocks.items():
            t = blk.get("term")
            if not t or "cond" not in t or t["k"] not in ("if", "while", "do", "for", "cond", "||", "&&"):
                continue
            v = val(t["cond"])
            if v is None or len(blk["succ"]) < 2:
                continue
            dead = blk["succ"][1] if v else blk["succ"][0]
            if dead >= 0:
                res.add((b, dead))
        self._infeas = res
        return res

    def loops(self):
        """Natural loops: {header block: set of body blocks (incl. header)}."""
        dom = self.dominators()
        preds = self.preds()
        res = {}
        for t in self.reachable():
            for h in self.succs(t):
                if h in dom.get(t, ()):
                    body = res.setdefault(h, {h})
                    st = [t]
                    while st:
                        x = st.pop()
                        if x in body:
                            continue
                        body.add(x)
                        st.extend(p for p in preds[x] if p in self.reachable())
        return res

    def loop_depth(self, b):
        return sum(1 for h, body in self.loops().items() if b in body)

    def loops_of(self, b):
        """Headers of the loops containing block b, innermost first."""
        ls = [(len(body), h) for h, body in self.loops().items() if b in body]
        return [h for _, h in sorted(ls)]

    def ret_events(self):
        return [(b, i, e) for b, i, e in self.events() if e["k"] == "ret"]


def _dominators(entry, nodes, succs, preds):
    dom = {n: set(nodes) for n in nodes}
    dom[entry] = {entry}
    changed = True
    order = sorted(nodes, reverse=True)
    while changed:
        changed = False
        for n in order:
            if n == entry:
                continue
            ps = [p for p in preds[n] if p in nodes]
            if ps:
                new = set.intersection(*(dom[p] for p in ps)) | {n}
            else:
                new = {n}
            if new != dom[n]:
                dom[n] = new
                changed = True
    return dom


class Program:
    def __init__(self, facts):
        self.units = [f["unit"] for f in facts]
        self.fns = {}          # (id,file,line) -> Fn
        self.by_id = {}        # id -> [Fn]
        self.by_name = {}      # name -> [Fn]
        self.classes = {}      # name -> class dict (first definition)
        self.enums = {}
        self.statics = {}
        self.deps = set()
        for f in facts:
            self.deps.update(f["deps"])
            for d in f["functions"]:
                k = (d["id"], d["file"], d["line"])
                if k in self.fns:
                    continue
                fn = Fn(d)
                fn.P = self
                self.fns[k] = fn
                self.by_id.setdefault(fn.id, []).append(fn)
                self.by_name.setdefault(fn.name, []).append(fn)
            for c in f["classes"]:
                self.classes.setdefault(c["name"], c)
            for e in f["enums"]:
                self.enums.setdefault(e["name"], e)
            for s in f["statics"]:
                self.statics.setdefault((s["name"], s["file"], s["line"]), s)
        self._subs = None
        self._overriders = None

    def all_fns(self):
        return self.fns.values()

    def fn(self, name, sig=None, required=True):
        """The unique function with this qualified name (and id if given)."""
        c = self.by_id.get(name) if name.endswith((")", ")const")) else self.by_name.get(name)
        if not c:
            if required:
                raise AnalysisBroken("anchor function vanished: " + name)
            return None
        if len(c) > 1 and sig is None:
            ids = sorted(set(f.id for f in c))
            if len(ids) > 1:
                raise AnalysisBroken("ambiguous anchor %s: %s" % (name, ids))
        return c[0]

    def fns_named(self, name):
        return list(self.by_name.get(name, []))

    def methods_of(self, cls):
        return [f for f in self.fns.values() if f.cls == cls]

    def subclasses(self, cls, transitive=True):
        if self._subs is None:
            subs = {}
            for c in self.classes.values():
                for b in c["bases"]:
                    subs.setdefault(b, set()).add(c["name"])
            self._subs = subs
        res = set()
        st = [cls]
        while st:
            c = st.pop()
            for s in self._subs.get(c, ()):
                if s not in res:
                    res.add(s)
                    if transitive:
                        st.append(s)
        return res

    def bases(self, cls, transitive=True):
        res = []
        st = [cls]
        while st:
            c = st.pop()
            cd = self.classes.get(c)
            if not cd:
                continue
            for b in cd["bases"]:
                if b not in res:
                    res.append(b)
                    if transitive:
                        st.append(b)
        return res

    def overriders(self, fid):
        """All function ids that (transitively) override fid, from class facts."""
        if self._overriders is None:
            direct = {}
            for c in self.classes.values():
                for m in c["methods"]:
                    for o in m["overrides"]:
                        direct.setdefault(o, set()).add(m["id"])
            self._overriders = direct
        res = set()
        st = [fid]
        while st:
            x = st.pop()
            for o in self._overriders.get(x, ()):
                if o not in res:
                    res.add(o)
                    st.append(o)
        return res

    def callees(self, ev):
        """Resolved callee Fn objects for a call event (virtual: the static
        callee and all overriders that have bodies in the analysed facts)."""
        fid = ev.get("fid")
        if not fid:
            return []
        res = list(self.by_id.get(fid, []))
        if ev.get("virt"):
            for o in self.overriders(fid):
                res.extend(self.by_id.get(o, []))
        return res


# ------------------------------------------------------------ sexpr helpers

def sx_find(x, pred):
    """All sub-expressions of s-expression x satisfying pred (pre-order)."""
    out = []

    def rec(y):
        if isinstance(y, list):
            if y and isinstance(y[0], str) and pred(y):
                out.append(y)
            for z in y:
                rec(z)
    rec(x)
    return out


def sx_has(x, pred):
    return bool(sx_find(x, pred))


def sx_calls(x, name=None):
    return sx_find(x, lambda y: y[0] in ("call", "dcall") and (name is None or y[1] == name))


def sx_enums(x):
    return [y[1] for y in sx_find(x, lambda y: y[0] == "enum")]


def sx_str(x):
    """Compact human-readable rendering."""
    if x is None:
        return "null"
    if not isinstance(x, list):
        return str(x)
    if not x:
        return "()"
    h = x[0]
    if h == "var":
        return x[1]
    if h == "gvar":
        return x[1]
    if h == "this":
        return "this"
    if h == "enum":
        return x[1].replace("SimTK::", "")
    if h == "lit":
        return x[1]
    if h == "str":
        return json.dumps(x[1])
    if h == "mem":
        return "%s.%s" % (sx_str(x[1]), x[2].split("::")[-1])
    if h == "dmem":
        return "%s.%s" % (sx_str(x[1]), x[2])
    if h in ("call", "dcall"):
        o = (sx_str(x[2]) + ".") if x[2] is not None else ""
        return "%s%s(%s)" % (o, x[1].split("::")[-1], ", ".join(sx_str(a) for a in x[3]))
    if h == "opc":
        if len(x) == 4:
            return "(%s %s %s)" % (sx_str(x[2]), x[1], sx_str(x[3]))
        return "%s(%s)" % (x[1], ", ".join(sx_str(a) for a in x[2:]))
    if h == "op":
        return "(%s %s %s)" % (sx_str(x[2]), x[1], sx_str(x[3]))
    if h == "un":
        return "%s%s" % (x[1], sx_str(x[2]))
    if h == "ctor":
        return "%s(%s)" % (x[1].replace("SimTK::", ""), ", ".join(sx_str(a) for a in x[2]))
    if h == "cast":
        return "(%s)%s" % (x[1], sx_str(x[2]))
    if h == "idx":
        return "%s[%s]" % (sx_str(x[1]), sx_str(x[2]))
    if h == "cond":
        return "(%s ? %s : %s)" % (sx_str(x[1]), sx_str(x[2]), sx_str(x[3]))
    return "%s(%s)" % (h, ", ".join(sx_str(a) for a in x[1:]))
