"""FRAME -- monogram frame-adjacency lint (DESIGN 2.5).

Works on operator* call events whose left operand has a rotation / transform
type.  Both operands must carry a parseable monogram, otherwise the site is
counted as unchecked."""
import re

from .facts import sx_find, sx_str

ROT_T = re.compile(r"SimTK::(Inverse)?(Rotation|Transform)(_<|\b)")
FRAME = r"[A-Z][a-z0-9]{0,2}"
TWO = re.compile(r"^(?:[A-Za-z]*?)([RXpvwab]|[A-Za-z]+)_(" + FRAME + r")(" + FRAME + r")(?:_(" + FRAME + r"))?$")
RX2 = re.compile(r"^([RX])_(%s)(%s)$" % (FRAME, FRAME))
VEC3 = re.compile(r"^([a-z][A-Za-z0-9]*?)_(%s)(%s)_(%s)$" % (FRAME, FRAME, FRAME))
VEC2 = re.compile(r"^([a-z][A-Za-z0-9]*?)_(%s)(%s)$" % (FRAME, FRAME))
VEC1 = re.compile(r"^([a-z][A-Za-z0-9]*?)_(%s)$" % FRAME)
# station names of the form p_AB are "from A's origin to B('s origin) expressed in A"


def is_rot_type(t):
    return bool(t) and bool(ROT_T.search(t))


def leaf_name(x):
    """identifier carrying the monogram: local/param variable, member, or accessor call name (getX_GB -> X_GB)"""
    if not isinstance(x, list) or not x:
        return None
    h = x[0]
    if h == "var":
        return x[1]
    if h == "gvar":
        return x[1].split("::")[-1]
    if h == "mem":
        return x[2].split("::")[-1]
    if h in ("call", "dcall"):
        # an accessor named getX_GB denotes X_GB only for the object itself (implicit/explicit this);
        # parent->getX_GB() is the PARENT's transform and carries no usable monogram
        if x[2] is not None and x[2] != ["this"]:
            return None
        n = str(x[1]).split("::")[-1]
        m = re.match(r"^(?:get|upd|find|calc)?_?([RXpvw]_[A-Za-z0-9_]+)$", n)
        if m:
            return m.group(1)
        return None
    if h in ("cast",):
        return leaf_name(x[2])
    return None


def rot_monogram(x):
    """(outer, inner) frames of a rotation/transform-valued expression, or None.
    R_AB / X_AB -> (A, B); ~e swaps; e.R() keeps; e1 * e2 composes when adjacent."""
    if not isinstance(x, list) or not x:
        return None
    h = x[0]
    if h == "opc" and x[1] == "~" and len(x) == 3:
        m = rot_monogram(x[2])
        return (m[1], m[0]) if m else None
    if h in ("call", "dcall"):
        n = str(x[1]).split("::")[-1]
        if n in ("R", "updR", "invert", "operator~") and x[2] is not None:
            m = rot_monogram(x[2])
            if m and n in ("invert", "operator~"):
                return (m[1], m[0])
            return m
    if h == "opc" and x[1] == "*" and len(x) == 4:
        a, b = rot_monogram(x[2]), rot_monogram(x[3])
        if a and b and a[1] == b[0]:
            return (a[0], b[1])
        return None
    n = leaf_name(x)
    if n:
        m = RX2.match(n.lstrip("_")) or RX2.match(re.sub(r"^m_|^def", "", n))
        if m:
            return (m.group(2), m.group(3))
    return None


def vec_frame(x):
    """frame a vector-valued expression is expressed in (and, for p_AB, its origin frame), or None"""
    if not isinstance(x, list) or not x:
        return None
    h = x[0]
    if h in ("call", "dcall"):
        n = str(x[1]).split("::")[-1]
        if n in ("p", "updP", "T") and x[2] is not None:
            m = rot_monogram(x[2])
            if m and n != "T":
                return ("pos", m[0], m[0])     # X_AB.p() is p_AB, expressed in A
            return None
        if n in ("x", "y", "z") and x[2] is not None:
            m = rot_monogram(x[2])
            if m:
                return ("axis", m[0], m[0])    # R_AB.x() is B's x axis expressed in A
    if h == "un" and x[1] == "-":
        return vec_frame(x[2])
    if h == "opc" and x[1] == "-" and len(x) == 3:
        return vec_frame(x[2])
    n = leaf_name(x)
    if not n:
        return None
    n = re.sub(r"^m_", "", n)
    m = VEC3.match(n)
    if m:
        return ("vec", m.group(4), m.group(2))
    m = VEC2.match(n)
    if m and m.group(1) not in ("R", "X"):
        return ("vec", m.group(2), m.group(2))
    m = VEC1.match(n)
    if m and m.group(1) not in ("R", "X"):
        return ("vec", m.group(2), None)
    return None


def check_product(e):
    """For an operator* event: returns (status, detail) with status in ok / bad / unchecked / skip"""
    x = e["x"]
    if x[0] != "opc" or x[1] != "*" or len(x) != 4:
        return "skip", ""
    tys = e.get("argtys") or []
    if not tys:
        return "skip", ""
    if not is_rot_type(tys[0]):
        # Rotation * Vec3 resolves to the Mat33 base-class operator: accept it when the left operand is a variable named as a rotation (R_AB)
        ln = leaf_name(x[2]) if isinstance(x[2], list) and x[2][:1] in (["var"], ["mem"]) else None
        if not (str(tys[0]).startswith("SimTK::Mat<3, 3") and ln and re.match(r"^(m_)?R_[A-Z]", ln)):
            return "skip", ""
    L = rot_monogram(x[2])
    if not L:
        return "unchecked", "left operand %s has no monogram" % sx_str(x[2])[:40]
    rt = tys[1] if len(tys) > 1 else ""
    if is_rot_type(rt):
        R = rot_monogram(x[3])
        if not R:
            return "unchecked", "right operand %s has no monogram" % sx_str(x[3])[:40]
        if L[1] == R[0]:
            return "ok", "%s_%s%s * %s_%s%s" % ("X", L[0], L[1], "X", R[0], R[1])
        return "bad", "frames not adjacent: (%s<-%s) * (%s<-%s): inner frames %s and %s differ" % (L[0], L[1], R[0], R[1], L[1], R[0])
    V = vec_frame(x[3])
    if not V:
        return "unchecked", "right operand %s has no frame" % sx_str(x[3])[:40]
    if V[1] == L[1]:
        return "ok", "(%s<-%s) * vector in %s" % (L[0], L[1], V[1])
    return "bad", "vector %s is expressed in %s but is re-expressed with a rotation/transform from %s to %s" % (sx_str(x[3])[:30], V[1], L[1], L[0])


def check_decl(d):
    """declared rotation/transform `X_AD = product`: composed outer frames must equal the declared ones"""
    n = d.get("var") or ""
    m = RX2.match(n)
    if not m or d.get("init") is None or not is_rot_type(d.get("ty", "")):
        return "skip", ""
    init = d["init"]
    if not (isinstance(init, list) and init and init[0] == "opc" and init[1] in ("*", "~")):
        return "skip", ""
    got = rot_monogram(init)
    if not got:
        return "unchecked", "initialiser %s has no composed monogram" % sx_str(init)[:50]
    want = (m.group(2), m.group(3))
    if got == want:
        return "ok", "%s = %s" % (n, sx_str(init)[:50])
    return "bad", "%s is declared as (%s<-%s) but its initialiser composes to (%s<-%s)" % (n, want[0], want[1], got[0], got[1])


def check_vec_decl(d):
    """declared vector `v_.._E = L * something`: the result is expressed in L's outer frame, which must be the frame the name says"""
    n = re.sub(r"^m_", "", d.get("var") or "")
    init = d.get("init")
    if not (isinstance(init, list) and init and init[0] == "opc" and init[1] == "*" and len(init) == 4):
        return "skip", ""
    L = rot_monogram(init[2])
    if not L:
        return "skip", ""
    m3, m2, m1 = VEC3.match(n), VEC2.match(n), VEC1.match(n)
    if m3:
        want = m3.group(4)
    elif m2 and m2.group(1) not in ("R", "X"):
        want = m2.group(2)
    elif m1 and m1.group(1) not in ("R", "X", "p"):
        want = m1.group(2)      # (p_S names a point S, not a frame of expression)
    else:
        return "skip", ""
    if RX2.match(n):
        return "skip", ""
    if want == L[0]:
        return "ok", "%s expressed in %s = (%s<-%s) * ..." % (n, want, L[0], L[1])
    return "bad", "%s is named as expressed in %s but is produced by a rotation/transform into %s" % (n, want, L[0])


def point_of(x):
    """(origin, point) if the expression denotes the position of point `point` measured from `origin`: X_AB.p() -> (A, B); a vector named
    p_AB / p_AB_F -> (A, B); None otherwise"""
    if not isinstance(x, list) or not x:
        return None
    if x[0] in ("call", "dcall"):
        n = str(x[1]).split("::")[-1]
        if n in ("p", "updP") and x[2] is not None:
            m = rot_monogram(x[2])
            if m:
                return (m[0], m[1], m[0])
            return None
    if x[0] in ("cast", "conv") and len(x) > 1:
        return point_of(x[2] if x[0] == "cast" else x[1])
    n = leaf_name(x)
    if not n:
        return None
    n = re.sub(r"^m_", "", n)
    m = VEC3.match(n)
    if m and m.group(1) == "p":
        return (m.group(2), m.group(3), m.group(4))
    m = VEC2.match(n)
    if m and m.group(1) == "p":
        return (m.group(2), m.group(3), m.group(2))
    return None


def check_diff_decl(d):
    """declared vector `p_XY[_F] = a - b`: a vector named 'from X to Y' must be (position of Y) - (position of X), both measured from one
    origin (and, when the names say so, expressed in one frame)"""
    n = re.sub(r"^m_", "", d.get("var") or "")
    init = d.get("init")
    if not (isinstance(init, list) and init and init[0] in ("op", "opc") and init[1] == "-" and len(init) == 4):
        return "skip", ""
    m3, m2 = VEC3.match(n), VEC2.match(n)
    if m3 and m3.group(1) == "p":
        X, Y, F = m3.group(2), m3.group(3), m3.group(4)
    elif m2 and m2.group(1) == "p":
        X, Y, F = m2.group(2), m2.group(3), None
    else:
        return "skip", ""
    a, b = point_of(init[2]), point_of(init[3])
    if not a or not b:
        return "unchecked", "difference %s has an operand without a position monogram" % sx_str(init)[:50]
    if a[0] != b[0]:
        return "unchecked", "operands are measured from different origins (%s, %s)" % (a[0], b[0])
    if (a[1], b[1]) == (Y, X):
        if a[2] != b[2]:
            return "bad", "%s subtracts positions expressed in different frames (%s, %s)" % (n, a[2], b[2])
        return "ok", "%s = p(%s) - p(%s), both from %s" % (n, Y, X, a[0])
    if (a[1], b[1]) == (X, Y):
        return "bad", "%s is named 'from %s to %s' but is computed as p(%s) - p(%s): the vector points the other way" % (n, X, Y, X, Y)
    # other point names (e.g. a contact point C that is instantaneously coincident with a station F) carry no decidable claim
    return "unchecked", "%s ('from %s to %s') is computed from the positions of %s and %s: different point names, not judged" % (n, X, Y, a[1], b[1])


def check_alias_decl(d):
    """declared rotation/transform `R_AB = <expression that is itself a named rotation/transform>` (no product): the name given must carry the frames of what it is
    bound to -- `const Rotation& R_GB = X_GP.R()` names the parent's rotation as the body's"""
    n = d.get("var") or ""
    m = RX2.match(n)
    init = d.get("init")
    if not m or init is None or not is_rot_type(d.get("ty", "")):
        return "skip", ""
    if isinstance(init, list) and init and init[0] == "opc" and init[1] == "*":
        return "skip", ""          # products are judged by check_decl
    got = rot_monogram(init)
    if not got:
        return "skip", ""
    want = (m.group(2), m.group(3))
    if got == want:
        return "ok", "%s = %s" % (n, sx_str(init)[:50])
    if tuple(re.sub(r"0$", "", x) for x in got) == tuple(re.sub(r"0$", "", x) for x in want):
        return "unchecked", "%s vs (%s<-%s): the 0-suffixed frames are the mobilizer's as-defined F and M (equal to F, M unless reversed)" % (n, got[0], got[1])
    return "bad", "%s is named (%s<-%s) but is bound to %s, which is (%s<-%s)" % (n, want[0], want[1], sx_str(init)[:40], got[0], got[1])


def check_assign(e):
    """`X_AD = product` assignments to named rotations/transforms (locals or members)"""
    x = e["x"]
    if x[0] != "opc" or x[1] != "=" or len(x) != 4:
        return "skip", ""
    n = leaf_name(x[2])
    m = RX2.match(n or "")
    if not m:
        return "skip", ""
    rhs = x[3]
    if not (isinstance(rhs, list) and rhs and rhs[0] == "opc" and rhs[1] in ("*", "~")):
        return "skip", ""
    got = rot_monogram(rhs)
    if not got:
        return "unchecked", "assigned expression %s has no composed monogram" % sx_str(rhs)[:50]
    want = (m.group(2), m.group(3))
    if got == want:
        return "ok", "%s = %s" % (n, sx_str(rhs)[:50])
    return "bad", "%s is named (%s<-%s) but is assigned a product that composes to (%s<-%s)" % (n, want[0], want[1], got[0], got[1])


def scan(P, file_pred):
    """yield (fn, event, status, detail) over all products and declarations in functions whose file satisfies file_pred"""
    for fn in sorted(P.all_fns(), key=lambda f: (f.file, f.line)):
        if not file_pred(fn.file):
            continue
        for b, i, e in fn.events():
            if e["k"] == "call" and e.get("op") == "*":
                st, det = check_product(e)
                if st != "skip":
                    yield fn, e, "product", st, det
            elif e["k"] == "call" and e.get("op") == "=":
                st, det = check_assign(e)
                if st != "skip":
                    yield fn, e, "assign", st, det
            elif e["k"] == "decl":
                st, det = check_decl(e)
                if st != "skip":
                    yield fn, e, "decl", st, det
                st, det = check_vec_decl(e)
                if st != "skip":
                    yield fn, e, "vecdecl", st, det
                st, det = check_diff_decl(e)
                if st != "skip":
                    yield fn, e, "diffdecl", st, det
                st, det = check_alias_decl(e)
                if st != "skip":
                    yield fn, e, "aliasdecl", st, det
