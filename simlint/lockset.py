"""Must-hold lockset data-flow over the CFG facts.

Lock operations recognised: construction of a local std::unique_lock /
std::lock_guard / std::scoped_lock on a mutex expression (acquire), its
.unlock() / .lock() member calls, its scope-exit destructor (release) and raw
mutex.lock()/unlock().  condition_variable::wait(lock, pred) keeps the lock
(it is re-acquired before wait returns); the predicate lambda is analysed with
the lock held."""
import re

from .match import is_call, call_args, call_obj, var_of, field_of, lvalue_root
from .facts import sx_find

LOCK_TYPES = re.compile(r"std::(unique_lock|lock_guard|scoped_lock)<")


class LockModel:
    def __init__(self, P):
        self.P = P
        self._acc = {}

    # -- accessor summarisation ---------------------------------------------
    def accessor_field(self, fname):
        """If every body of function `fname` just returns (a reference to / the
        value of / the dereference of) one field of *this, that field."""
        if fname in self._acc:
            return self._acc[fname]
        res = None
        fns = self.P.fns_named(fname)
        fields = set()
        ok = bool(fns)
        for f in fns:
            rets = f.ret_events()
            nontriv = [e for _, _, e in f.events() if e["k"] in ("call", "assign", "decl", "throw", "delete", "new")]
            if len(rets) != 1 or nontriv:
                ok = False
                break
            fld = field_of(rets[0][2]["val"])
            if not fld:
                ok = False
                break
            fields.add(fld)
        if ok and len(fields) == 1:
            res = fields.pop()
        self._acc[fname] = res
        return res

    def resolve_field(self, fn, x, depth=4):
        """Field denoted by expression x inside function fn: direct member,
        accessor call, or a local reference variable bound to one of those."""
        if depth <= 0 or x is None:
            return None
        r = lvalue_root(x)
        if not isinstance(r, list) or not r:
            return None
        if r[0] == "mem":
            return r[2]
        if r[0] == "call":
            return self.accessor_field(r[1])
        if r[0] == "var":
            for _, _, d in fn.events(lambda e: e["k"] == "decl" and e["var"] == r[1]):
                if "&" in d["ty"] and d["init"] is not None:
                    return self.resolve_field(fn, d["init"], depth - 1)
            # lambda captures by reference: look in the parent function
            par = fn.d.get("parent")
            if par:
                for pf in self.P.by_id.get(par, []):
                    got = self.resolve_field(pf, x, depth - 1)
                    if got:
                        return got
        return None

    # -- the data-flow ------------------------------------------------------------
    def lock_vars(self, fn):
        """local lock object -> mutex field"""
        res = {}
        for _, _, d in fn.events(lambda e: e["k"] == "decl" and LOCK_TYPES.search(e["ty"] or "")):
            init = d["init"]
            m = None
            if isinstance(init, list) and init and init[0] == "ctor" and init[2]:
                m = self.resolve_field(fn, init[2][0])
            elif init is not None:
                m = self.resolve_field(fn, init)
            res[d["var"]] = m
        par = fn.d.get("parent")
        if par:
            for pf in self.P.by_id.get(par, []):
                for k, v in self.lock_vars(pf).items():
                    res.setdefault(k, v)
        return res

    def transfer(self, fn, lv, held, e):
        """Held-set after event e."""
        k = e["k"]
        if k == "decl" and e["var"] in lv and LOCK_TYPES.search(e["ty"] or ""):
            init = e["init"]
            deferred = bool(sx_find(init, lambda y: y[0] == "gvar" and y[1].endswith("defer_lock")))
            if lv[e["var"]] and not deferred:
                return held | {lv[e["var"]]}
            return held
        if k == "autodtor" and e["var"] in lv and LOCK_TYPES.search(e["ty"] or ""):
            if lv[e["var"]]:
                return held - {lv[e["var"]]}
            return held
        if k == "call":
            n = e.get("fn", "")
            short = n.split("::")[-1]
            if short in ("lock", "unlock") and ("unique_lock" in n or n.startswith("std::mutex")):
                obj = call_obj(e)
                v = var_of(obj)
                m = lv.get(v) if v in lv else self.resolve_field(fn, obj)
                if m:
                    return (held | {m}) if short == "lock" else (held - {m})
        return held

    def analyse(self, fn, initial=frozenset()):
        """Returns {(block, idx): frozenset(held before the event)} and the
        held set at normal exit."""
        lv = self.lock_vars(fn)
        reach = fn.reachable()
        preds = fn.preds()
        IN = {b: None for b in reach}
        IN[fn.entry] = frozenset(initial)
        OUT = {}
        work = [fn.entry]
        before = {}
        while work:
            b = work.pop()
            held = IN[b]
            if held is None:
                continue
            cur = frozenset(held)
            for i, e in enumerate(fn.blocks[b]["ev"]):
                before[(b, i)] = cur
                cur = frozenset(self.transfer(fn, lv, set(cur), e))
            if OUT.get(b) == cur and b in OUT:
                continue
            OUT[b] = cur
            for s in fn.succs(b):
                if s not in reach:
                    continue
                new = cur if IN[s] is None else (IN[s] & cur)
                if IN[s] is None or new != IN[s]:
                    IN[s] = new
                    work.append(s)
                elif s not in OUT:
                    work.append(s)
        return before, OUT.get(fn.exit, frozenset())

    def wait_sites(self, fn):
        """(block, idx, event, cv field, lock mutex, lambda name) for every
        condition_variable::wait call."""
        lv = self.lock_vars(fn)
        res = []
        for b, i, e in fn.calls():
            n = e.get("fn", "")
            if not (n.startswith("std::condition_variable") and n.split("::")[-1] in ("wait", "wait_for", "wait_until")):
                continue
            cv = self.resolve_field(fn, call_obj(e))
            args = call_args(e)
            m = lv.get(var_of(args[0])) if args else None
            lam = None
            for a in args[1:]:
                ls = sx_find(a, lambda y: y[0] == "lambda")
                if ls:
                    lam = ls[0][1]
            res.append((b, i, e, cv, m, lam))
        return res
