"""Event / s-expression matchers shared by the rule modules."""
import re

ASSIGN_OPS = {"=", "+=", "-=", "*=", "/=", "%=", "|=", "&=", "^=", "<<=", ">>=", "++", "--"}


def lvalue_root(x):
    """Strip element/deref wrappers from an l-value s-expression down to the
    variable or member that owns the storage."""
    while isinstance(x, list) and x:
        h = x[0]
        if h == "idx":
            x = x[1]
        elif h == "opc" and x[1] in ("[]", "*", "()", "->") and len(x) > 2:
            x = x[2]
        elif h == "un" and x[1] in ("*",):
            x = x[2]
        elif h == "cast":
            x = x[2]
        elif h == "conv":
            x = x[1]
        elif h == "ctor" and len(x[2]) == 1 and x[1].endswith("Index"):
            x = x[2][0]
        elif h == "call" and x[1].split("::")[-1] in ("operator[]", "updElt", "upd", "updAs", "operator*", "operator->", "updRef", "getRef", "get", "getElt"):
            x = x[2]
        else:
            break
    return x


def field_of(x):
    """Qualified field name if x (after stripping wrappers) is a member access."""
    r = lvalue_root(x)
    if isinstance(r, list) and r and r[0] == "mem":
        return r[2]
    return None


def var_of(x):
    r = lvalue_root(x)
    if isinstance(r, list) and r and r[0] in ("var", "gvar"):
        return r[1]
    return None


def ev_write(e):
    """(lhs, op, rhs) if the event is an assignment-like write, else None.
    Covers built-in assignments/increments and overloaded assignment or
    increment operators on class types."""
    if e["k"] == "assign":
        return e["lhs"], e["op"], e.get("rhs")
    if e["k"] == "call" and e.get("op") in ASSIGN_OPS:
        x = e["x"]
        if x[0] == "opc" and len(x) >= 3:
            return x[2], x[1], (x[3] if len(x) > 3 else None)
    return None


def writes_field(e, field):
    w = ev_write(e)
    return bool(w) and field_of(w[0]) == field


def is_call(e, fn=None, fn_re=None):
    if e["k"] != "call":
        return False
    n = e.get("fn", "")
    if fn is not None:
        if isinstance(fn, (set, frozenset, list, tuple)):
            return n in fn
        return n == fn
    if fn_re is not None:
        return re.search(fn_re, n) is not None
    return True


def call_args(e):
    x = e.get("x")
    if not x:
        return []
    if x[0] in ("call", "dcall", "icall"):
        return x[3]
    if x[0] == "opc":
        return x[2:]
    if x[0] == "ctor":
        return x[2]
    return []


def call_obj(e):
    x = e.get("x")
    if x and x[0] in ("call", "dcall"):
        return x[2]
    return e.get("obj")


def guard_blocks(fn, cond_pred, branch=0):
    """Blocks entered only through the `branch`-th successor (0 = condition
    true) of a block whose terminator condition satisfies cond_pred."""
    res = set()
    preds = fn.preds()
    for b, blk in fn.blocks.items():
        t = blk.get("term")
        if not t or "cond" not in t or t["k"] not in ("if", "cond", "while", "for", "do", "||", "&&"):
            continue
        if not cond_pred(t["cond"]):
            continue
        succ = blk["succ"]
        if len(succ) <= branch or succ[branch] < 0:
            continue
        s = succ[branch]
        infeas = fn.infeasible_edges()
        if all(p == b or (p, s) in infeas or p not in fn.reachable() for p in preds[s]):
            res.add(s)
    return res


def branch_edges(fn, cond_pred, branch):
    """CFG edges (from, to) that are the `branch`-th successor (0 = true,
    1 = false) of a two-way branch whose condition satisfies cond_pred."""
    res = set()
    for b, blk in fn.blocks.items():
        t = blk.get("term")
        if not t or "cond" not in t or t["k"] not in ("if", "cond", "while", "for", "do", "||", "&&"):
            continue
        if not cond_pred(t["cond"]):
            continue
        succ = blk["succ"]
        if len(succ) > branch and succ[branch] >= 0:
            res.add((b, succ[branch]))
    return res


def switch_default_edges(fn):
    """Edges from a switch block to a successor that carries no case/default
    label: the implicit "no case matched" fall-out of a switch without default."""
    res = set()
    for b, blk in fn.blocks.items():
        t = blk.get("term")
        if t and t["k"] == "switch" and not t.get("default"):
            for s in blk["succ"]:
                if s >= 0 and fn.blocks[s].get("case") is None:
                    res.add((b, s))
    return res


def implies_any(c, preds):
    """Does condition c being TRUE imply that at least one of preds holds?  `a && b` implies what either side implies;
    `a || b` only what both sides imply; anything else must satisfy a predicate itself."""
    if isinstance(c, list) and c and c[0] == "op" and c[1] == "&&":
        return implies_any(c[2], preds) or implies_any(c[3], preds)
    if isinstance(c, list) and c and c[0] == "op" and c[1] == "||":
        return implies_any(c[2], preds) and implies_any(c[3], preds)
    return any(p(c) for p in preds)


def implied_edges(fn, preds):
    """TRUE edges of two-way branches (if / loop conditions / short-circuit operands) whose condition implies one of preds."""
    res = set()
    for b, blk in fn.blocks.items():
        t = blk.get("term")
        if not t or t.get("cond") is None or t["k"] not in ("if", "cond", "while", "for", "do", "||", "&&"):
            continue
        succ = blk["succ"]
        if succ and succ[0] >= 0 and implies_any(t["cond"], preds):
            res.add((b, succ[0]))
    return res


def only_via(fn, block, edges):
    """True iff every feasible CFG path from the function entry to `block` uses one of `edges` (block-level search)."""
    if not edges:
        return False
    infeas = fn.infeasible_edges()
    seen = {fn.entry}
    st = [fn.entry]
    while st:
        b = st.pop()
        if b == block:
            return False
        for s in fn.succs(b):
            if s in seen or (b, s) in edges or (b, s) in infeas:
                continue
            seen.add(s)
            st.append(s)
    return True


def emptied_before(P, fn, ev, cache_var, field):
    """Is the container (member `field` of the local cache object `cache_var`, or the local `cache_var` itself when field is None)
    emptied on every path from the entry of fn to event ev?  Emptying = clear() / resize(..) on it, or a call of a method on the
    cache object whose body (looked up in P) clears this->field on every path to its normal exit.  Returns the offending path or None."""
    def direct(q):
        if q["k"] != "call" or not str(q.get("fn", "")).endswith(("::clear", "::resize")):
            return False
        o = call_obj(q)
        if field is None:
            return o == ["var", cache_var]
        return isinstance(o, list) and o and o[0] == "mem" and o[2] == field and var_of(o[1]) == cache_var

    def via_callee(q):
        if q["k"] != "call" or field is None or call_obj(q) != ["var", cache_var]:
            return False
        for g in P.by_id.get(q.get("fid"), []) or P.fns_named(str(q.get("fn", ""))):
            clears = lambda r: r["k"] == "call" and str(r.get("fn", "")).endswith(("::clear", "::resize")) and isinstance(call_obj(r), list) and \
                call_obj(r)[0] == "mem" and call_obj(r)[2] == field and call_obj(r)[1] == ["this"]
            if g.path_exists(None, "exit", clears) is None:
                return True
        return False
    return fn.path_exists(None, lambda q: q is ev, lambda q: direct(q) or via_callee(q))


def expand_locals(fn, x, depth=2, _cache=None):
    """x with every single-assignment local (declared once with an initialiser, never assigned again) replaced by its initialiser:
    `const int n = (int)v.size(); ... i == n-1` is compared as `i == (int)v.size()-1`.  Loop induction variables (assigned) are kept."""
    if depth <= 0 or not isinstance(x, list):
        return x
    if _cache is None:
        _cache = {}
        assigned = {var_of(e["lhs"]) for _, _, e in fn.events(lambda e: e["k"] == "assign")}
        for _, _, d in fn.events(lambda d: d["k"] == "decl"):
            if d.get("init") is not None and d["var"] not in assigned:
                _cache.setdefault(d["var"], []).append(d["init"])
    if len(x) == 2 and x[0] == "var" and len(_cache.get(x[1], ())) == 1:
        return expand_locals(fn, _cache[x[1]][0], depth - 1, _cache)
    return [expand_locals(fn, y, depth, _cache) if isinstance(y, list) else y for y in x]


def _truth_implies(c, pos, neg, truth):
    """does condition c evaluating to `truth` imply the fact?  pos(x): x states the fact; neg(x): x states its negation"""
    if not isinstance(c, list) or not c:
        return False
    if (pos(c) if truth else neg(c)):
        return True
    if c[0] == "un" and c[1] == "!" and len(c) == 3:
        return _truth_implies(c[2], pos, neg, not truth)
    if c[0] == "op" and len(c) == 4 and c[1] in ("&&", "||"):
        a, b = _truth_implies(c[2], pos, neg, truth), _truth_implies(c[3], pos, neg, truth)
        # (a && b) true implies what either side's truth implies; (a || b) true only what both imply; dually for false
        either = (c[1] == "&&") == truth
        return (a or b) if either else (a and b)
    return False


def known_edges(fn, pos, neg):
    """CFG edges on which a fact F is known: TRUE edges of branch conditions whose truth implies F and FALSE edges of conditions whose
    falsity implies F (pos(c): c states F; neg(c): c states not-F; !, && and || are taken apart) -- `if (x == 0) A`,
    `if (x != 0) B else A` and `if (!(x == 0)) B; else A` all guard A by x == 0."""
    res = set()
    for b, blk in fn.blocks.items():
        t = blk.get("term")
        if not t or t.get("cond") is None or t["k"] not in ("if", "cond", "while", "for", "do", "||", "&&"):
            continue
        succ = blk["succ"]
        c = t["cond"]
        if succ and succ[0] >= 0 and _truth_implies(c, pos, neg, True):
            res.add((b, succ[0]))
        if len(succ) > 1 and succ[1] >= 0 and _truth_implies(c, pos, neg, False):
            res.add((b, succ[1]))
    return res


def fact_edges(fn, pos, neg=None, case=None):
    """CFG edges on which a fact is known, whatever the syntactic form of the test:
       * TRUE edge of a branch whose condition implies the fact            (pos(c))
       * FALSE edge of a branch whose condition's negation states the fact  (neg(c)), incl. the parts of an `a || b`
       * the edge from a `switch (v)` to its `case L:` block                (case(switch_cond, label_sx))
    Together with only_via() this reads `if (v == E) A`, `if (v != E) B else A`, `if (v != E) return; A` and
    `switch (v) { case E: A }` as the same guard of A."""
    res = known_edges(fn, pos, neg or (lambda c: False))
    if case is not None:
        for b, blk in fn.blocks.items():
            t = blk.get("term")
            if not t or t["k"] != "switch":
                continue
            for s in blk["succ"]:
                if s < 0:
                    continue
                lab = fn.blocks[s].get("case")
                if isinstance(lab, list) and case(t.get("cond"), lab):
                    res.add((b, s))
    return res


def guarded_by(fn, block, edges):
    """block can only be reached through one of `edges` (the guard holds whenever it executes)"""
    return only_via(fn, block, edges)


# ---------------------------------------------------------------------------------------------------------------------
# Value sets of one finite-valued expression (an enum variable / member, or a boolean predicate) along the CFG.
# Reads every syntactic form of a test the same way: if / else-if chains, switch, early return or continue, negation,
# swapped branches, && and || -- so that "this statement executes only when v == E" is a semantic fact, not a code shape.

def _const_of(x):
    """constant a subject is compared with: enumerator short name, 'true' / 'false', or an integer literal; None if not constant"""
    if not isinstance(x, list) or not x:
        return None
    if x[0] in ("enum", "gvar") and isinstance(x[1], str):
        return x[1].split("::")[-1]
    if x[0] == "lit":
        return str(x[1])
    if x[0] in ("cast", "conv") and len(x) > 2:
        return _const_of(x[2] if x[0] == "cast" else x[1])
    if x[0] == "ctor" and len(x) > 2 and len(x[2]) == 1:
        return _const_of(x[2][0])
    return None


def refine(c, S, truth, subject, universe):
    """subset of S consistent with condition c evaluating to `truth`"""
    if not isinstance(c, list) or not c:
        return S
    if c[0] == "un" and c[1] == "!":
        return refine(c[2], S, not truth, subject, universe)
    if c[0] in ("op", "opc") and len(c) == 4 and c[1] in ("==", "!="):
        a, b = c[2], c[3]
        if subject(b) and not subject(a):
            a, b = b, a
        k = _const_of(b)
        if subject(a) and k is not None:
            if k == "1" and "true" in universe:
                k = "true"
            if k == "0" and "false" in universe:
                k = "false"
            eq = (c[1] == "==") == truth
            return (S & {k}) if eq else (S - {k})
        return S
    if c[0] == "op" and c[1] == "&&" and len(c) == 4:
        if truth:
            return refine(c[3], refine(c[2], S, True, subject, universe), True, subject, universe)
        return refine(c[2], S, False, subject, universe) | refine(c[3], refine(c[2], S, True, subject, universe), False, subject, universe)
    if c[0] == "op" and c[1] == "||" and len(c) == 4:
        if truth:
            return refine(c[2], S, True, subject, universe) | refine(c[3], refine(c[2], S, False, subject, universe), True, subject, universe)
        return refine(c[3], refine(c[2], S, False, subject, universe), False, subject, universe)
    if subject(c) and "true" in universe:
        return (S & {"true"}) if truth else (S - {"true"})
    return S


def value_sets(fn, subject, universe, kill=None):
    """block id -> set of values of `subject` possible on entry to the block (forward may-analysis over the CFG; infeasible edges are
    skipped).  `kill(event)` tells that an event may change the subject (the set is reset to the universe after it)."""
    universe = set(universe)
    infeas = fn.infeasible_edges()
    IN = {b: set() for b in fn.blocks}
    IN[fn.entry] = set(universe)
    work = [fn.entry]
    while work:
        b = work.pop()
        S = set(IN[b])
        blk = fn.blocks[b]
        if kill is not None and any(kill(e) for e in blk["ev"]):
            S = set(universe)
        t = blk.get("term")
        succ = blk["succ"]
        outs = []
        if t and t["k"] == "switch" and subject(t.get("cond")):
            labelled = set()
            for s in succ:
                if s < 0:
                    continue
                lab = fn.blocks[s].get("case")
                k = _const_of(lab) if isinstance(lab, list) else None
                if k is not None:
                    labelled.add(k)
            for s in succ:
                if s < 0:
                    continue
                lab = fn.blocks[s].get("case")
                k = _const_of(lab) if isinstance(lab, list) else None
                outs.append((s, (S & {k}) if k is not None else (S - labelled)))
        elif t and t.get("cond") is not None and t["k"] in ("if", "cond", "while", "for", "do", "||", "&&") and len(succ) >= 2:
            outs.append((succ[0], refine(t["cond"], S, True, subject, universe)))
            outs.append((succ[1], refine(t["cond"], S, False, subject, universe)))
            for s in succ[2:]:
                outs.append((s, S))
        else:
            outs = [(s, S) for s in succ]
        for s, Sout in outs:
            if s is None or s < 0 or (b, s) in infeas:
                continue
            if not Sout <= IN[s]:
                IN[s] |= Sout
                work.append(s)
    return IN


def inline_predicates(P, fn, x, _memo=None):
    """x with every call `name()` of a local predicate lambda replaced by the expression the lambda returns.  Only where that is exact:
    the lambda is a local of fn declared once (`auto name = [..]{ return E; }`, never reassigned), takes no parameters, its body is the
    single return, and every variable it captures BY COPY is never assigned in fn (so the copy taken at the declaration is the value at the
    call); variables captured by reference have the same name and the same storage inside and outside.  `if (tLow < t && t < tHigh)` and
    `auto inside = [&]{ return tLow < t && t < tHigh; }; if (inside())` are then the same condition for every rule that reads conditions."""
    if not isinstance(x, list):
        return x
    if _memo is None:
        _memo = {}
        assigned = {var_of(e["lhs"]) for _, _, e in fn.events(lambda e: e["k"] == "assign" and e["lhs"] and e["lhs"][0] == "var")}
        caps = {e["name"]: e.get("caps") for _, _, e in fn.events(lambda e: e["k"] == "lambda")}
        decls = {}
        for _, _, d in fn.events(lambda d: d["k"] == "decl"):
            decls.setdefault(d["var"], []).append(d)
        for v, ds in decls.items():
            if len(ds) != 1 or v in assigned:
                continue
            ini = ds[0].get("init")
            if not (isinstance(ini, list) and len(ini) == 2 and ini[0] == "lambda"):
                continue
            gs = [g for g in P.fns.values() if g.id.startswith(ini[1] + "(")] if isinstance(P.fns, dict) else [g for g in P.fns if g.id.startswith(ini[1] + "(")]
            if len(gs) != 1 or gs[0].d.get("params"):
                continue
            g = gs[0]
            rets = [e for _, _, e in g.events(lambda e: e["k"] == "ret")]
            other = [e for _, _, e in g.events(lambda e: e["k"] in ("assign", "decl", "throw"))]
            cp = caps.get(ini[1])
            if len(rets) != 1 or rets[0].get("val") is None or other or cp is None:
                continue
            if any(m == "copy" and n in assigned for n, m in cp):
                continue
            _memo[v] = rets[0]["val"]
    if len(x) == 3 and x[0] == "opc" and x[1] == "()" and isinstance(x[2], list) and len(x[2]) == 2 and x[2][0] == "var" and x[2][1] in _memo:
        return _memo[x[2][1]]
    return [inline_predicates(P, fn, y, _memo) for y in x]


def subst(x, env):
    """s-expression x with every ["var", name] whose name is in env replaced by env[name]"""
    if not isinstance(x, list):
        return x
    if len(x) == 2 and x[0] == "var" and x[1] in env:
        return env[x[1]]
    return [subst(y, env) for y in x]


def effective_calls(P, fn, target, depth=2):
    """call sites of `target` in fn, seen through same-class non-virtual helpers: a call `helper(a, b)` whose body makes exactly one
    call of target counts as a site of target with the helper's parameters replaced by the site's arguments (extract-method refactorings
    leave the rule instances where they were).  Yields (block, index, site_event, effective_event); for a direct call both are the same."""
    out = []
    for b, i, e in fn.calls():
        n = e.get("fn", "")
        if n == target:
            out.append((b, i, e, e))
            continue
        if depth <= 0 or not e.get("fid") or e.get("virt"):
            continue
        gs = [g for g in P.by_id.get(e["fid"], []) if g.blocks]
        g = gs[0] if gs else None
        if g is None or g is fn or g.cls != fn.cls:
            continue
        inner = effective_calls(P, g, target, depth - 1)
        if len(inner) != 1:
            continue
        params = [p[0] for p in g.d.get("params", [])]
        args = call_args(e)
        if len(args) != len(params):
            continue
        env = dict(zip(params, args))
        ee = dict(inner[0][3])
        for k in ("x", "obj"):
            if k in ee:
                ee[k] = subst(ee[k], env)
        ee["line"] = e["line"]
        out.append((b, i, e, ee))
    return out
