"""Event / s-expression matchers shared by the rule modules."""
import re

ASSIGN_OPS = {"=", "+=", "-=", "*=", "/=", "%=", "|=", "&=", "^=", "<<=", ">>=", "++", "--"}


def lvalue_root(x):
    """Strip element/deref wrappers from an l-value s-expression down to the
    variable or member that owns the storage."""
    while isinstance(x, list) and x:
        h = x[0]
        if h == "idx":
            x = x[1]
        elif h == "opc" and x[1] in ("[]", "*", "()", "->") and len(x) > 2:
            x = x[2]
        elif h == "un" and x[1] in ("*",):
            x = x[2]
        elif h == "cast":
            x = x[2]
        elif h == "conv":
            x = x[1]
        elif h == "ctor" and len(x[2]) == 1 and x[1].endswith("Index"):
            x = x[2][0]
        elif h == "call" and x[1].split("::")[-1] in ("operator[]", "updElt", "upd", "updAs", "operator*", "operator->", "updRef", "getRef", "get", "getElt"):
            x = x[2]
        else:
            break
    return x


def field_of(x):
    """Qualified field name if x (after stripping wrappers) is a member access."""
    r = lvalue_root(x)
    if isinstance(r, list) and r and r[0] == "mem":
        return r[2]
    return None


def var_of(x):
    r = lvalue_root(x)
    if isinstance(r, list) and r and r[0] in ("var", "gvar"):
        return r[1]
    return None


def ev_write(e):
    """(lhs, op, rhs) if the event is an assignment-like write, else None.
    Covers built-in assignments/increments and overloaded assignment or
    increment operators on class types."""
    if e["k"] == "assign":
        return e["lhs"], e["op"], e.get("rhs")
    if e["k"] == "call" and e.get("op") in ASSIGN_OPS:
        x = e["x"]
        if x[0] == "opc" and len(x) >= 3:
            return x[2], x[1], (x[3] if len(x) > 3 else None)
    return None


def writes_field(e, field):
    w = ev_write(e)
    return bool(w) and field_of(w[0]) == field


def is_call(e, fn=None, fn_re=None):
    if e["k"] != "call":
        return False
    n = e.get("fn", "")
    if fn is not None:
        if isinstance(fn, (set, frozenset, list, tuple)):
            return n in fn
        return n == fn
    if fn_re is not None:
        return re.search(fn_re, n) is not None
    return True


def call_args(e):
    x = e.get("x")
    if not x:
        return []
    if x[0] in ("call", "dcall", "icall"):
        return x[3]
    if x[0] == "opc":
        return x[2:]
    if x[0] == "ctor":
        return x[2]
    return []


def call_obj(e):
    x = e.get("x")
    if x and x[0] in ("call", "dcall"):
        return x[2]
    return e.get("obj")


def guard_blocks(fn, cond_pred, branch=0):
    """Blocks entered only through the `branch`-th successor (0 = condition
    true) of a block whose terminator condition satisfies cond_pred."""
    res = set()
    preds = fn.preds()
    for b, blk in fn.blocks.items():
        t = blk.get("term")
        if not t or "cond" not in t or t["k"] not in ("if", "cond", "while", "for", "do", "||", "&&"):
            continue
        if not cond_pred(t["cond"]):
            continue
        succ = blk["succ"]
        if len(succ) <= branch or succ[branch] < 0:
            continue
        s = succ[branch]
        infeas = fn.infeasible_edges()
        if all(p == b or (p, s) in infeas or p not in fn.reachable() for p in preds[s]):
            res.add(s)
    return res


def branch_edges(fn, cond_pred, branch):
    """CFG edges (from, to) that are the `branch`-th successor (0 = true,
    1 = false) of a two-way branch whose condition satisfies cond_pred."""
    res = set()
    for b, blk in fn.blocks.items():
        t = blk.get("term")
        if not t or "cond" not in t or t["k"] not in ("if", "cond", "while", "for", "do", "||", "&&"):
            continue
        if not cond_pred(t["cond"]):
            continue
        succ = blk["succ"]
        if len(succ) > branch and succ[branch] >= 0:
            res.add((b, succ[branch]))
    return res


def switch_default_edges(fn):
    """Edges from a switch block to a successor that carries no case/default
    label: the implicit "no case matched" fall-out of a switch without default."""
    res = set()
    for b, blk in fn.blocks.items():
        t = blk.get("term")
        if t and t["k"] == "switch" and not t.get("default"):
            for s in blk["succ"]:
                if s >= 0 and fn.blocks[s].get("case") is None:
                    res.add((b, s))
    return res


def implies_any(c, preds):
    """Does condition c being TRUE imply that at least one of preds holds?  `a && b` implies what either side implies;
    `a || b` only what both sides imply; anything else must satisfy a predicate itself."""
    if isinstance(c, list) and c and c[0] == "op" and c[1] == "&&":
        return implies_any(c[2], preds) or implies_any(c[3], preds)
    if isinstance(c, list) and c and c[0] == "op" and c[1] == "||":
        return implies_any(c[2], preds) and implies_any(c[3], preds)
    return any(p(c) for p in preds)


def implied_edges(fn, preds):
    """TRUE edges of two-way branches (if / loop conditions / short-circuit operands) whose condition implies one of preds."""
    res = set()
    for b, blk in fn.blocks.items():
        t = blk.get("term")
        if not t or t.get("cond") is None or t["k"] not in ("if", "cond", "while", "for", "do", "||", "&&"):
            continue
        succ = blk["succ"]
        if succ and succ[0] >= 0 and implies_any(t["cond"], preds):
            res.add((b, succ[0]))
    return res


def only_via(fn, block, edges):
    """True iff every feasible CFG path from the function entry to `block` uses one of `edges` (block-level search)."""
    if not edges:
        return False
    infeas = fn.infeasible_edges()
    seen = {fn.entry}
    st = [fn.entry]
    while st:
        b = st.pop()
        if b == block:
            return False
        for s in fn.succs(b):
            if s in seen or (b, s) in edges or (b, s) in infeas:
                continue
            seen.add(s)
            st.append(s)
    return True


def emptied_before(P, fn, ev, cache_var, field):
    """Is the container (member `field` of the local cache object `cache_var`, or the local `cache_var` itself when field is None)
    emptied on every path from the entry of fn to event ev?  Emptying = clear() / resize(..) on it, or a call of a method on the
    cache object whose body (looked up in P) clears this->field on every path to its normal exit.  Returns the offending path or None."""
    def direct(q):
        if q["k"] != "call" or not str(q.get("fn", "")).endswith(("::clear", "::resize")):
            return False
        o = call_obj(q)
        if field is None:
            return o == ["var", cache_var]
        return isinstance(o, list) and o and o[0] == "mem" and o[2] == field and var_of(o[1]) == cache_var

    def via_callee(q):
        if q["k"] != "call" or field is None or call_obj(q) != ["var", cache_var]:
            return False
        for g in P.by_id.get(q.get("fid"), []) or P.fns_named(str(q.get("fn", ""))):
            clears = lambda r: r["k"] == "call" and str(r.get("fn", "")).endswith(("::clear", "::resize")) and isinstance(call_obj(r), list) and \
                call_obj(r)[0] == "mem" and call_obj(r)[2] == field and call_obj(r)[1] == ["this"]
            if g.path_exists(None, "exit", clears) is None:
                return True
        return False
    return fn.path_exists(None, lambda q: q is ev, lambda q: direct(q) or via_callee(q))


def expand_locals(fn, x, depth=2, _cache=None):
    """x with every single-assignment local (declared once with an initialiser, never assigned again) replaced by its initialiser:
    `const int n = (int)v.size(); ... i == n-1` is compared as `i == (int)v.size()-1`.  Loop induction variables (assigned) are kept."""
    if depth <= 0 or not isinstance(x, list):
        return x
    if _cache is None:
        _cache = {}
        assigned = {var_of(e["lhs"]) for _, _, e in fn.events(lambda e: e["k"] == "assign")}
        for _, _, d in fn.events(lambda d: d["k"] == "decl"):
            if d.get("init") is not None and d["var"] not in assigned:
                _cache.setdefault(d["var"], []).append(d["init"])
    if len(x) == 2 and x[0] == "var" and len(_cache.get(x[1], ())) == 1:
        return expand_locals(fn, _cache[x[1]][0], depth - 1, _cache)
    return [expand_locals(fn, y, depth, _cache) if isinstance(y, list) else y for y in x]
