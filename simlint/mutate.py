"""Mutation matrix: each mutation is a small compiling edit of one repository
file (given as old/new text).  The edited copy is written under .work/mut/ and
analysed through factdump's --overlay (the variant is never compiled to code
nor executed); the property's rules must then report a violation whose key
contains the expected fragment."""
import importlib
import io
import os
import contextlib

from .facts import REPO, WORK, AnalysisBroken
from .report import Check


class Silent(Check):
    def finish(self):
        pass


def run_mutation(pid, mod, m, idx):
    real = os.path.join(REPO, m["file"])
    src = open(real, encoding="latin-1").read()      # byte-preserving: some repository files are not UTF-8
    cnt = src.count(m["old"])
    if cnt < 1:
        return "stale", "text not found"
    occ = m.get("occurrence", 0)
    pos = -1
    for _ in range(occ + 1):
        pos = src.find(m["old"], pos + 1)
        if pos < 0:
            return "stale", "occurrence %d not found" % occ
    new = src[:pos] + m["new"] + src[pos + len(m["old"]):]
    for o2, n2 in m.get("also", []):        # further edits of the same file (e.g. a declaration and its `override` marker)
        if new.count(o2) < 1:
            return "stale", "text not found: " + o2[:40]
        new = new.replace(o2, n2, 1)
    os.makedirs(os.path.join(WORK, "mut"), exist_ok=True)
    var = os.path.join(WORK, "mut", "%s_%d_%s" % (pid, idx, os.path.basename(real)))
    with open(var, "w", encoding="latin-1") as f:
        f.write(new)
    chk = Silent(pid, "thorough")
    try:
        mod.run(chk, "quick", overlays=[(real, var)])
    except AnalysisBroken as e:
        os.unlink(var)
        return "broken", str(e)[:300]
    os.unlink(var)
    keys = [o["key"] for o in chk.obl if o["status"] == "violation"]
    hit = [k for k in keys if m["expect"] in k]
    if hit:
        return "killed", hit[0]     # a reported violation stands even if another rule could not be applied (see Check.finish)
    if chk.broken:
        # floors / vanished anchors / unrecognised code shape: the mutation was noticed as analysis-broken
        return ("detected-as-broken" if m.get("expect") == "BROKEN" else "broken"), "; ".join(chk.broken)[:300]
    if keys:
        return "other-violation", keys[0]
    return "survived", ""


def matrix(chk, pid, mod, mutations):
    res = []
    from concurrent.futures import ThreadPoolExecutor
    with ThreadPoolExecutor(max_workers=8) as ex:
        outs = list(ex.map(lambda t: run_mutation(pid, mod, t[1], t[0]), enumerate(mutations)))
    for m, (st, det) in zip(mutations, outs):
        res.append(dict(name=m["name"], file=m["file"], expect=m["expect"], status=st, detail=det))
    killed = sum(1 for r in res if r["status"] == "killed")
    stale = sum(1 for r in res if r["status"] == "stale")
    chk.extra["mutation_matrix"] = dict(total=len(res), killed=killed, stale=stale, results=res)
    for r in res:
        if r["status"] in ("survived", "other-violation", "broken"):
            chk.require(False, "mutation '%s' not detected as expected (%s: %s)" % (r["name"], r["status"], r["detail"]))
    return res
