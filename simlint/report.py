"""Obligation bookkeeping, evidence files, known findings, exit codes."""
import json
import os
import sys
import time

from .facts import VERIF, AnalysisBroken

KNOWN_FILE = os.path.join(VERIF, "known_findings.json")


def load_known():
    if not os.path.exists(KNOWN_FILE):
        return {"findings": [], "fixed": []}
    return json.load(open(KNOWN_FILE))


class Check:
    def __init__(self, pid, tier):
        self.pid = pid
        self.tier = tier
        self.t0 = time.time()
        self.obl = []          # dicts: rule, instance, key, site, status, detail
        self.rules = {}        # rule name -> text
        self.notes = []
        self.units = []
        self.nfunctions = 0
        self.assumptions = []
        self.trusted = ["clang 14 front end and CFG builder (libclang-cpp 14.0.6)",
                        "tools/factdump/factdump.cc (fact extractor)",
                        "simlint rule kernel and the hand-confirmed instance tables under simlint/rules/",
                        "repository documentation read as oracle"]
        self.extra = {}
        self.known = load_known()
        self.broken = []

    # -- declaring -----------------------------------------------------------
    def rule(self, name, text):
        self.rules[name] = text

    def ok(self, rule, instance, site="", detail=""):
        self.obl.append(dict(rule=rule, instance=instance, key="%s:%s" % (rule, instance), site=site,
                             status="ok", detail=detail))

    def violation(self, rule, instance, site="", detail="", path=None):
        self.obl.append(dict(rule=rule, instance=instance, key="%s:%s" % (rule, instance), site=site,
                             status="violation", detail=detail, path=path))

    def judge(self, cond, rule, instance, site="", detail="", path=None):
        if cond:
            self.ok(rule, instance, site, detail)
        else:
            self.violation(rule, instance, site, detail, path)
        return cond

    def shape(self, cond, rule, instance, site="", detail=""):
        """A precondition of the RULE (not an obligation of the property): the code still has the shape the rule was written
        for -- one dispatch site, three switches, a resolvable role.  When it holds it is recorded like an obligation; when it
        does not, the rule cannot be applied and the analysis is broken (exit 2): never a violation, never a pass."""
        if cond:
            self.ok(rule, instance, site, detail)
        else:
            self.broken.append("rule %s cannot be applied: expected code shape `%s` not found (%s) %s" % (rule, instance, detail, site))
        return cond

    def note(self, text):
        self.notes.append(text)

    def require(self, cond, what):
        """Arming / floor conditions: failure means the analysis is broken."""
        if not cond:
            self.broken.append(what)

    def floor(self, rule, n):
        have = sum(1 for o in self.obl if o["rule"] == rule)
        viol = sum(1 for o in self.obl if o["rule"] == rule and o["status"] == "violation")
        # a reported violation may legitimately cut dependent obligations short; then the report stands
        self.require(have >= n or viol > 0, "rule %s matched %d instances, floor is %d (anchors vanished or "
                     "extractor regression)" % (rule, have, n))

    # -- finishing -----------------------------------------------------------
    def finish(self):
        wall = time.time() - self.t0
        if self.broken and not any(o["status"] == "violation" for o in self.obl):
            for b in self.broken:
                print("ANALYSIS-BROKEN property=%s %s" % (self.pid, b))
            # no evidence is written for a broken analysis
            sys.exit(2)
        for b in self.broken:   # violations found as well: they are reported (exit 1); the broken parts are listed too
            print("ANALYSIS-BROKEN property=%s %s" % (self.pid, b))
        known_keys = {f["key"]: f for f in self.known.get("findings", []) if f["property"] == self.pid}
        viol = []
        known_hit = []
        for o in self.obl:
            if o["status"] == "violation":
                if o["key"] in known_keys:
                    o["status"] = "known"
                    known_hit.append(o)
                else:
                    viol.append(o)
        os.makedirs(os.path.join(VERIF, "evidence", "replay"), exist_ok=True)
        for o in known_hit:
            print("KNOWN-FINDING: property=%s %s -- %s [%s]" % (self.pid, known_keys[o["key"]]["what"], o["key"], o["site"]))
        rc = 0
        replay_paths = []
        for n, o in enumerate(viol):
            rp = os.path.join(VERIF, "evidence", "replay", "%s_%d.json" % (self.pid, n))
            with open(rp, "w") as f:
                json.dump(dict(property=self.pid, rule=o["rule"], rule_text=self.rules.get(o["rule"], ""),
                               instance=o["instance"], key=o["key"], site=o["site"], detail=o["detail"],
                               path=o.get("path")), f, indent=1)
            replay_paths.append(rp)
            print("%s: %s %s -- %s" % (o["site"], o["rule"], o["instance"], o["detail"]))
            print("VIOLATION property=%s replay=%s" % (self.pid, rp))
            rc = 1
        nontrivial = len(set(o["key"] for o in self.obl))
        per_rule = {}
        for o in self.obl:
            r = per_rule.setdefault(o["rule"], dict(obligations=0, ok=0, violation=0, known=0))
            r["obligations"] += 1
            r[o["status"]] += 1
        samples = []
        seen_rules = {}
        for o in self.obl:
            if seen_rules.get(o["rule"], 0) < 3:
                seen_rules[o["rule"]] = seen_rules.get(o["rule"], 0) + 1
                samples.append({"rule": o["rule"], "instance": o["instance"], "site": o["site"],
                                "status": o["status"], "detail": o["detail"][:300]})
        ev = {
            "property_id": self.pid,
            "tier": self.tier,
            "seed": int(os.environ.get("VERIF_SEED", "0") or 0),
            "level": "other",
            "coverage": {
                "explanation": "Static analysis over clang-14 AST/CFG facts of /repo's current working tree. "
                               "Rules applied: " + " || ".join("%s: %s" % kv for kv in sorted(self.rules.items())),
                "obligations": len(self.obl),
                "discharged": sum(1 for o in self.obl if o["status"] == "ok"),
                "evaluations": len(self.obl),
                "distinct_nontrivial": nontrivial,
                "rule": "one obligation per (rule, instance) found by enumerating the analysed functions/call sites; "
                        "distinct = distinct rule:instance keys; all are non-trivial (each names a real construct)",
                "samples": samples[:40],
                "per_rule": per_rule,
                "units": self.units,
                "functions_analysed": self.nfunctions,
                "known_findings": [o["key"] for o in known_hit],
                "violations": [dict(key=o["key"], site=o["site"], detail=o["detail"]) for o in viol],
                "notes": self.notes,
                "exhaustive": True,
                "checker_cmd": "./check %s --tier %s" % (self.pid, self.tier),
                "trusted_base": self.trusted,
            },
            "assumptions": self.assumptions,
            "wall_s": round(wall, 2),
            "violations": len(viol),
        }
        ev["coverage"].update(self.extra)
        with open(os.path.join(VERIF, "evidence", "%s.json" % self.pid), "w") as f:
            json.dump(ev, f, indent=1)
        print("%s [%s]: %d obligations, %d discharged, %d known findings, %d violations, %d units, %.1fs" % (
            self.pid, self.tier, len(self.obl), ev["coverage"]["discharged"], len(known_hit), len(viol),
            len(self.units), wall))
        for r, c in sorted(per_rule.items()):
            print("   %-28s %s" % (r, c))
        for n in self.notes:
            print("   note: " + n)
        sys.exit(rc)
