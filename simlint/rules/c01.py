"""C01 -- Mass-matrix operators agree and M is symmetric positive definite (agreement-of-routes clauses).

That the O(n) recursions compute M*v and M^-1*v is arithmetic and NOT decided.  Visible in the shape of the code:
 COLUMNS  the explicit matrices calcM / calcMInv are, column by column, the O(n) operators multiplyByM / multiplyByMInv applied to
          unit vectors: work vector zero at the start, entry i set to 1, the operator applied, entry i reset to 0 on every path
          before the next column, result stored in column i, for i = 0 .. nu-1 -- so "explicit matrix" and "operator" are one route.
 SWEEP    each operator is a two-pass tree sweep in the order its recursion needs: multiplyByM Pass1 outward then Pass2 inward,
          multiplyByMInv Pass1 inward then Pass2 outward, articulated-body inertias inward; every level, every node.
 (kinetic energy = sum over every node: shared with C15.)"""
from ..facts import extract, units_matching, Program
from ..columns import index_space, NODE_UNITS, NODE_HDR, columns, node_sweeps

UNITS = r"/Simbody/src/SimbodyMatterSubsystemRep\.cpp$"
R = "SimbodyMatterSubsystemRep::"
COLS = {R + "calcM": "multiplyByM", R + "calcMInv": "multiplyByMInv"}
SWEEPS = {"multiplyByM": ["multiplyByMPass1Outward", "multiplyByMPass2Inward"],
          "multiplyByMInv": ["multiplyByMInvPass1Inward", "multiplyByMInvPass2Outward"],
          "realizeArticulatedBodyInertias": ["realizeArticulatedBodyInertiasInward"]}


def run(chk, tier, overlays=()):
    units = units_matching(UNITS)
    P = Program(extract(units, hdr="^$", overlays=overlays))
    chk.units += units
    chk.nfunctions += len(P.fns)
    chk.rule("COLUMNS", "calcM and calcMInv build their matrix one column at a time as the O(n) operator applied to a unit vector: the work vector starts at zero, entry i is set to 1, "
             "multiplyByM / multiplyByMInv is applied while it is 1, the entry is reset to 0 on every path before the next column, the result goes to column i, i = 0 .. nu-1")
    columns(chk, P, COLS)
    for name, op in sorted(COLS.items()):
        for f in P.fns_named(name):
            ops = {str(e.get("fn", "")).split("::")[-1] for _, _, e in f.calls() if str(e.get("fn", "")).split("::")[-1].startswith("multiplyBy")}
            chk.judge(ops == {op}, "COLUMNS", name.split("::")[-1] + ":uses-" + op, f.loc, "operators applied: %s" % sorted(ops))
    chk.rule("SWEEP", "the O(n) mass-matrix operators sweep the tree in the order their recursions need: an ...Inward pass runs the levels from the outermost to 0 (children before "
             "parents), an ...Outward pass from 0 upwards, every node of every level, pass 1 before pass 2")
    node_sweeps(chk, P, SWEEPS)
    chk.rule("INDEXSPACE", "sibling agreement between the generic node template and the hand-written node classes (lone particle, weld): a pointer parameter that RigidBodyNodeSpec<dof> "
             "reads with fromU/toU is a u-space array and must be subscripted with uIndex in every other implementation of the same virtual, one read with fromQ/toQ with qIndex")
    nunits = units_matching(NODE_UNITS)
    PN = Program(extract(nunits, hdr=NODE_HDR, overlays=overlays))
    chk.units += nunits
    chk.nfunctions += len(PN.fns)
    index_space(chk, PN, methods={"multiplyByMPass1Outward", "multiplyByMPass2Inward", "multiplyByMInvPass1Inward", "multiplyByMInvPass2Outward"})
    chk.floor("COLUMNS", 12)
    chk.floor("SWEEP", 16)
    chk.floor("INDEXSPACE", 6)
    chk.assumptions += ["the per-node recursions (RigidBodyNodeSpec) and therefore the values of M*v, M^-1*v, symmetry and positive definiteness are numerical and not decided"]


_R = "Simbody/src/SimbodyMatterSubsystemRep.cpp"
MUTATIONS = [
    dict(name="calcM forgets to clear the unit entry", arm=True, file=_R,
         old="            M(i) = contig_col;\n        }\n        v[i] = 0;\n", new="            M(i) = contig_col;\n        }\n", expect="COLUMNS:calcM:unit#0:entry-reset-to-0"),
    dict(name="calcMInv builds its columns with multiplyByM", file=_R,
         old="            multiplyByMInv(s, f, MInv(i));\n        } else {\n            multiplyByMInv(s, f, contig_col);", new="            multiplyByM(s, f, MInv(i));\n        } else {\n            multiplyByM(s, f, contig_col);",
         expect="COLUMNS:calcMInv:uses-multiplyByMInv"),
    dict(name="calcM skips column 0", file=_R, old="    Vector v(nu); v.setToZero();\n    for (int i=0; i < nu; ++i) {", new="    Vector v(nu); v.setToZero();\n    for (int i=1; i < nu; ++i) {", expect="COLUMNS:calcM:unit#0:every-column"),
    dict(name="multiplyByM pass 2 swept base to tip", arm=True, file=_R,
         old="    for (int i=rbNodeLevels.size()-1 ; i>=0 ; i--) \n        for (int j=0 ; j<(int)rbNodeLevels[i].size() ; j++) {\n            const RigidBodyNode& node = *rbNodeLevels[i][j];\n            node.multiplyByMPass2Inward(",
         new="    for (int i=0 ; i<(int)rbNodeLevels.size() ; i++) \n        for (int j=0 ; j<(int)rbNodeLevels[i].size() ; j++) {\n            const RigidBodyNode& node = *rbNodeLevels[i][j];\n            node.multiplyByMPass2Inward(",
         expect="SWEEP:multiplyByM:multiplyByMPass2Inward:levels-last..0"),
    dict(name="multiplyByMInv outward pass starts at level 2", file=_R,
         old="            node.multiplyByMInvPass2Outward(", new="            if (i >= 2) node.multiplyByMInvPass2Outward(", expect="SWEEP:"),
]
