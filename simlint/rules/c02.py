"""C02 -- Forward and inverse dynamics of trees are exact inverses (sweep-discipline clause only).

The recursions themselves (articulated-body forward dynamics, recursive Newton-Euler) are arithmetic and NOT decided.  What is visible
in the shape of the two tree operators is the order in which they visit the tree, which both recursions need in order to be the
algorithms they claim to be:
 SWEEP    forward dynamics (calcTreeAccelerations): calcUDotPass1Inward over the levels from the outermost to 0, then calcUDotPass2Outward
          from 0 upwards; inverse dynamics (calcTreeResidualForces): calcBodyAccelerationsFromUdotOutward from 0 upwards, then
          calcInverseDynamicsPass2Inward from the outermost level to 0; every node of every level on every iteration path; the
          forward-dynamics entry points reach calcTreeAccelerations and body forces enter through the same sweep.
 SCATTER  before the inward pass of forward dynamics every prescribed udot is scattered to its u slot and every known-zero udot is set
          to zero, over the whole presUDot / zeroUDot lists (the structural half of 'the same accelerations in both directions')."""
from ..facts import extract, units_matching, Program, sx_find, sx_str
from ..match import ev_write, var_of, field_of
from ..columns import body_outputs, index_space, NODE_UNITS, NODE_HDR, node_sweeps, _loop_var, _steps, _lit

UNITS = r"/Simbody/src/SimbodyMatterSubsystemRep\.cpp$"
SWEEPS = {"calcTreeAccelerations": ["calcUDotPass1Inward", "calcUDotPass2Outward"],
          "calcTreeResidualForces": ["calcBodyAccelerationsFromUdotOutward", "calcInverseDynamicsPass2Inward"],
          "calcBodyAccelerationFromUDot": ["calcBodyAccelerationsFromUdotOutward"]}


def _strip(x):
    while isinstance(x, list) and x and x[0] in ("conv", "cast", "ctor"):
        if x[0] == "conv":
            x = x[1]
        elif x[0] == "cast":
            x = x[2]
        else:
            if len(x[2]) != 1:
                break
            x = x[2][0]
    return x


def scatter(chk, P):
    fs = [f for f in P.all_fns() if f.name.endswith("SimbodyMatterSubsystemRep::calcTreeAccelerations")]
    if not chk.shape(len(fs) == 1, "SCATTER", "calcTreeAccelerations:found", "", "%d" % len(fs)):
        return
    f0 = fs[0]
    first_sweep = [e for _, _, e in f0.calls() if str(e.get("fn", "")).endswith("::calcUDotPass1Inward")]
    # the operator itself and its local lambdas (the scatter extracted into `auto scatterKnownUDots = [&](Real* udot) {..}` is placed where it is called)
    parts = [f0] + [g for g in P.all_fns() if g.d.get("parent") == f0.id and g.blocks]
    for lst, want in (("presUDot", "pool"), ("zeroUDot", "0")):
        hit = None
        for f in parts:
            loops = f.loops()
            for h, body in loops.items():
                iv, c = _loop_var(f, h)
                if not iv or not isinstance(c, list) or c[1] != "<":
                    continue
                ws = [e for b in body for e in f.blocks[b]["ev"] if ev_write(e) and ev_write(e)[1] == "=" and
                      bool(sx_find(ev_write(e)[0], lambda y: y[0] == "mem" and y[2].endswith("::" + lst)))]
                if ws:
                    hit = (f, h, body, iv, c, ws[0])
        if not chk.shape(hit is not None, "SCATTER", lst + ":loop", f0.loc, "a loop writes udot[ic.%s[i]]" % lst):
            continue
        f, h, body, iv, c, w = hit
        d0 = [d for _, _, d in f.events(lambda q: q["k"] == "decl" and q["var"] == iv)]
        ok0 = any(_lit(d.get("init"), ("0",)) for d in d0) and _steps(f, body, iv) == ["++"]
        # the bound is the length of THIS list: list.size(), the instance cache's getTotalNum<List>(), or (prescribed) the equally long pool handed in
        bound = c[3]
        for _ in range(2):
            bv = _strip(bound)
            if isinstance(bv, list) and bv[:1] == ["var"]:        # a named count: follow it to what it was initialised with
                ds = [d for _, _, d in f.events(lambda q, v_=bv[1]: q["k"] == "decl" and q["var"] == v_ and isinstance(q.get("init"), list))]
                if len(ds) == 1:
                    bound = ds[0]["init"]
        getter = "getTotalNum" + lst[0].upper() + lst[1:]
        bound_ok = bool(sx_find(bound, lambda y: y[0] == "mem" and y[2].endswith("::" + lst))) or \
            bool(sx_find(bound, lambda y: y[0] == "call" and y[1].split("::")[-1] == getter)) or \
            (lst == "presUDot" and bool(sx_find(bound, lambda y: y[0] == "call" and y[1].endswith("::size") and var_of(y[2]) in [p_[0] for p_ in f0.d["params"]])))
        chk.judge(ok0 and bound_ok, "SCATTER", lst + ":whole-list", "%s:%d" % (f.file, w["line"]),
                  "loop %s from 0 while %s (bound %s), step %s: the bound must be the length of %s itself" % (iv, sx_str(c), sx_str(bound)[:60], _steps(f, body, iv), lst))
        lhs, rhs = ev_write(w)[0], ev_write(w)[2]
        okidx = bool(sx_find(lhs, lambda y: y[0] in ("opc", "idx") and len(y) > 3 and bool(sx_find(y[2], lambda z: z[0] == "mem" and z[2].endswith("::" + lst))) and _strip(y[3]) == ["var", iv] or
                             (y[0] == "call" and y[1].endswith("operator[]") and bool(sx_find(y, lambda z: z[0] == "mem" and z[2].endswith("::" + lst))) and bool(sx_find(y, lambda z: z == ["var", iv])))))
        if want == "0":
            okv = _lit(rhs, ("0", "0.0"))
        else:
            okv = bool(sx_find(rhs, lambda y: y[0] in ("opc", "idx") and len(y) > 3 and _strip(y[3]) == ["var", iv])) and not sx_find(rhs, lambda y: y[0] == "mem" and y[2].endswith("::" + lst))
        chk.judge(okidx and okv, "SCATTER", lst + ":udot[list[i]]=" + ("presUDots[i]" if want == "pool" else "0"), "%s:%d" % (f.file, w["line"]), "%s = %s" % (sx_str(lhs), sx_str(rhs)))
        # before the inward pass
        if first_sweep:
            # (the loop body may execute zero times: require the loop header on every path instead)
            if f is f0:
                byp = f.path_exists(None, lambda q: q is first_sweep[0], lambda q: False, avoid_blocks={h}, lift=0)
            else:
                cs = [q for _, _, q in f0.calls() if q.get("fid") == f.id]
                byp = f0.path_exists(None, lambda q: q is first_sweep[0], lambda q: any(q is c_ for c_ in cs), lift=0)
                if byp is None:
                    byp = f.path_exists(None, "exit", lambda q: False, avoid_blocks={h}, lift=0)
            chk.judge(byp is None, "SCATTER", lst + ":before-the-inward-pass", "%s:%d" % (f.file, w["line"]), "the inward pass is reached without passing the %s loop" % lst, byp)


def run(chk, tier, overlays=()):
    units = units_matching(UNITS)
    P = Program(extract(units, hdr="^$", overlays=overlays))
    chk.units += units
    chk.nfunctions += len(P.fns)
    chk.rule("SWEEP", "forward dynamics sweeps inward (outermost level to 0) with calcUDotPass1Inward and then outward with calcUDotPass2Outward; inverse dynamics outward with "
             "calcBodyAccelerationsFromUdotOutward and then inward with calcInverseDynamicsPass2Inward; every node of every level, on every iteration path")
    node_sweeps(chk, P, SWEEPS)
    chk.rule("SCATTER", "calcTreeAccelerations writes every prescribed udot (udot[presUDot[i]] = presUDots[i]) and every known-zero udot (udot[zeroUDot[i]] = 0) over the whole lists "
             "before the inward pass")
    scatter(chk, P)
    chk.rule("INDEXSPACE", "sibling agreement between the generic node template and the hand-written node classes (lone particle, weld): a pointer parameter that RigidBodyNodeSpec<dof> "
             "reads with fromU/toU is a u-space array and must be subscripted with uIndex in every other implementation of the same virtual, one read with fromQ/toQ with qIndex")
    nunits = units_matching(NODE_UNITS)
    PN = Program(extract(nunits, hdr=NODE_HDR, overlays=overlays))
    chk.units += nunits
    chk.nfunctions += len(PN.fns)
    index_space(chk, PN, methods={"calcUDotPass1Inward", "calcUDotPass2Outward", "calcBodyAccelerationsFromUdotOutward", "calcInverseDynamicsPass2Inward", "calcEquivalentJointForces"})
    chk.rule("OUTWRITE", "sibling agreement on outputs: a per-body output array that belongs to the operator's caller and whose own entry [nodeNum] the generic node template assigns in a pass "
             "is assigned on every path by every other implementation of that pass too (Ground: entry 0) -- the sweeps never pre-zero these arrays")
    PRr = Program(extract(units_matching(r"/Simbody/src/SimbodyMatterSubsystemRep\.cpp$"), hdr="^$", overlays=overlays))
    body_outputs(chk, PN, methods={"calcUDotPass1Inward", "calcUDotPass2Outward", "calcBodyAccelerationsFromUdotOutward", "calcInverseDynamicsPass2Inward", "calcEquivalentJointForces"}, PR=PRr)
    chk.floor("SWEEP", 22)
    chk.floor("SCATTER", 6)
    chk.floor("OUTWRITE", 3)
    chk.floor("INDEXSPACE", 8)
    chk.assumptions += ["the per-node recursions and therefore M*udot + f_inertial = f_applied, the residuals and the Coriolis / gyroscopic terms are numerical and not decided"]


_R = "Simbody/src/SimbodyMatterSubsystemRep.cpp"
MUTATIONS = [
    dict(name="seeded (sub-agent): Ground's outward pass leaves its acceleration entry alone", arm=True, file="Simbody/src/RigidBodyNode_Weld.cpp",
         old="        Real*                      allTau) const override\n    {\n        allA_GB[0] = 0;\n    }", new="        Real*                      allTau) const override\n    {\n    }",
         expect="OUTWRITE:RBGroundBody::calcUDotPass2Outward:allA_GB"),
    dict(name="forward dynamics inward pass swept base to tip", arm=True, file=_R,
         old="    for (int i=rbNodeLevels.size()-1 ; i>=0 ; i--) \n        for (int j=0 ; j<(int)rbNodeLevels[i].size() ; j++) {\n            const RigidBodyNode& node = *rbNodeLevels[i][j];\n            node.calcUDotPass1Inward(",
         new="    for (int i=0 ; i<(int)rbNodeLevels.size() ; i++) \n        for (int j=0 ; j<(int)rbNodeLevels[i].size() ; j++) {\n            const RigidBodyNode& node = *rbNodeLevels[i][j];\n            node.calcUDotPass1Inward(",
         expect="SWEEP:calcTreeAccelerations:calcUDotPass1Inward:levels-last..0"),
    dict(name="inverse dynamics inward pass stops above Ground's level", file=_R,
         old="    for (int i=rbNodeLevels.size()-1 ; i>=0 ; i--) \n        for (int j=0 ; j<(int)rbNodeLevels[i].size() ; j++) {\n            const RigidBodyNode& node = *rbNodeLevels[i][j];\n            node.calcInverseDynamicsPass2Inward(",
         new="    for (int i=rbNodeLevels.size()-1 ; i>=2 ; i--) \n        for (int j=0 ; j<(int)rbNodeLevels[i].size() ; j++) {\n            const RigidBodyNode& node = *rbNodeLevels[i][j];\n            node.calcInverseDynamicsPass2Inward(",
         expect="SWEEP:calcTreeResidualForces:calcInverseDynamicsPass2Inward:levels-last..0"),
    dict(name="known-zero udots no longer cleared before the sweep", arm=True, file=_R,
         old="    for (int i=0; i < (int)ic.zeroUDot.size(); ++i)\n        udotPtr[ic.zeroUDot[i]] = 0;\n\n    for (int i=rbNodeLevels.size()-1 ; i>=0 ; i--) \n        for (int j=0 ; j<(int)rbNodeLevels[i].size() ; j++) {\n            const RigidBodyNode& node = *rbNodeLevels[i][j];\n            node.calcUDotPass1Inward(",
         new="    for (int i=rbNodeLevels.size()-1 ; i>=0 ; i--) \n        for (int j=0 ; j<(int)rbNodeLevels[i].size() ; j++) {\n            const RigidBodyNode& node = *rbNodeLevels[i][j];\n            node.calcUDotPass1Inward(",
         expect="BROKEN"),
    dict(name="prescribed udots scattered with the pool index on both sides", file=_R,
         old="        udotPtr[ic.presUDot[i]] = presUDots[i];", new="        udotPtr[i] = presUDots[i];", expect="BROKEN"),
]
