"""C04 -- Jacobian operators map speeds to the velocities the state reports (agreement-of-routes and sweep clauses).

That J*u equals the reported velocities is arithmetic of the per-node recursion and NOT decided.  Visible in the shape of the code:
 COLUMNS  every explicit Jacobian (calcSystemJacobian x2, calcStationJacobian x2, calcFrameJacobian x2) is built one column / row at a
          time as the O(n) operator applied to a unit vector or unit spatial force: the work vector starts at zero, one entry is set to
          1, the operator is applied, the entry is reset to 0 on every path, the result is stored at the slot of the same index, for
          all indices -- 'explicit matrices and O(n) operators alike' are one route.
 SWEEP    multiplyBySystemJacobian sweeps the tree outward (level 0 upwards: a body's velocity needs its parent's), its transpose
          inward (outermost level to 0: a body's accumulated force needs its children's) -- the sweep order that makes one the adjoint
          of the other -- and calcBodyAccelerationFromUDot outward; every node of every level on every iteration path."""
from ..facts import extract, units_matching, Program
from ..columns import body_outputs, index_space, NODE_UNITS, NODE_HDR, columns, node_sweeps

UNITS = r"/Simbody/src/(SimbodyMatterSubsystem|SimbodyMatterSubsystemRep)\.cpp$"
S = "SimTK::SimbodyMatterSubsystem::"
COLS = {S + "calcSystemJacobian": "", S + "calcStationJacobian": "", S + "calcFrameJacobian": ""}
SWEEPS = {"multiplyBySystemJacobian": ["multiplyBySystemJacobian"], "multiplyBySystemJacobianTranspose": ["multiplyBySystemJacobianTranspose"],
          "calcBodyAccelerationFromUDot": ["calcBodyAccelerationsFromUdotOutward"]}
DIRECTION = {"multiplyBySystemJacobian": "Outward", "multiplyBySystemJacobianTranspose": "Inward"}


def run(chk, tier, overlays=()):
    units = units_matching(UNITS)
    P = Program(extract(units, hdr="^$", overlays=overlays))
    chk.units += units
    chk.nfunctions += len(P.fns)
    chk.rule("COLUMNS", "the explicit system / station / frame Jacobians are built slot by slot as multiplyBySystemJacobian[Transpose] applied to a unit vector (unit spatial force): "
             "work vector zero at the start, one entry set to 1, operator applied while it is 1, entry reset to 0 on every path, result stored at the same index, every index")
    columns(chk, P, COLS)
    chk.rule("SWEEP", "multiplyBySystemJacobian sweeps the levels from 0 upwards (parents before children), its transpose from the outermost level to 0 (children before parents), "
             "calcBodyAccelerationFromUDot outward; every node of every level on every iteration path")
    node_sweeps(chk, P, SWEEPS, direction=DIRECTION)
    chk.rule("INDEXSPACE", "sibling agreement between the generic node template and the hand-written node classes (lone particle, weld): a pointer parameter that RigidBodyNodeSpec<dof> "
             "reads with fromU/toU is a u-space array and must be subscripted with uIndex in every other implementation of the same virtual, one read with fromQ/toQ with qIndex")
    nunits = units_matching(NODE_UNITS)
    PN = Program(extract(nunits, hdr=NODE_HDR, overlays=overlays))
    chk.units += nunits
    chk.nfunctions += len(PN.fns)
    index_space(chk, PN, methods={"multiplyBySystemJacobian", "multiplyBySystemJacobianTranspose", "calcBodyAccelerationsFromUdotOutward", "calcEquivalentJointForces"})
    chk.rule("OUTWRITE", "sibling agreement on outputs: a per-body output array that belongs to the operator's caller and whose own entry [nodeNum] the generic node template assigns in a pass "
             "is assigned on every path by every other implementation of that pass too (Ground: entry 0) -- the sweeps never pre-zero these arrays")
    PRr = Program(extract(units_matching(r"/Simbody/src/SimbodyMatterSubsystemRep\.cpp$"), hdr="^$", overlays=overlays))
    body_outputs(chk, PN, methods={"multiplyBySystemJacobian", "multiplyBySystemJacobianTranspose", "calcBodyAccelerationsFromUdotOutward", "calcEquivalentJointForces"}, PR=PRr)
    chk.floor("COLUMNS", 40)
    chk.floor("SWEEP", 10)
    chk.floor("OUTWRITE", 3)
    chk.floor("INDEXSPACE", 3)
    chk.assumptions += ["the per-node Jacobian recursions, the bias terms and the adjoint identity <F, J u> = <J' F, u> as an equality of values are numerical and not decided"]


_S = "Simbody/src/SimbodyMatterSubsystem.cpp"
_R = "Simbody/src/SimbodyMatterSubsystemRep.cpp"
MUTATIONS = [
    dict(name="seeded (sub-agent): lone particle reads its speeds at the q index", arm=True, file="Simbody/src/RigidBodyNode_LoneParticle.cpp",
         old="    const Vec3& in = Vec3::getAs(&v[uIndex]);", new="    const Vec3& in = Vec3::getAs(&v[qIndex]);", expect="INDEXSPACE:RBNodeLoneParticle::multiplyBySystemJacobian:v"),
    dict(name="system Jacobian (scalar) keeps the previous unit entry", arm=True, file=_S,
         old="        u[j] = 1; rep.multiplyBySystemJacobian(state,u,Ju); u[j] = 0;\n        VectorView col = J_G(j); // 6*nb long; maybe not contiguous!",
         new="        u[j] = 1; rep.multiplyBySystemJacobian(state,u,Ju);\n        VectorView col = J_G(j); // 6*nb long; maybe not contiguous!", expect="COLUMNS:calcSystemJacobian#1:unit#0:entry-reset-to-0"),
    dict(name="frame Jacobian clears the translational unit force one slot off", file=_S,
         old="            for (int r=0; r < nu; ++r) row[r][1][i] = col[r]; \n            Fb[1][i] = 0;\n            Fb[0] = 0;", new="            for (int r=0; r < nu; ++r) row[r][1][i] = col[r]; \n            Fb[0][i] = 0;\n            Fb[0] = 0;",
         expect="COLUMNS:calcFrameJacobian#0:unit#1:entry-reset-to-0"),
    dict(name="transpose operator swept outward", arm=True, file=_R,
         old="    for (int i=rbNodeLevels.size()-1 ; i>=0 ; i--)\n        for (int j=0 ; j<(int)rbNodeLevels[i].size() ; j++) {\n            const RigidBodyNode& node = *rbNodeLevels[i][j];\n            node.multiplyBySystemJacobianTranspose(tpc, zPtr, xPtr, jtxPtr);",
         new="    for (int i=0 ; i<(int)rbNodeLevels.size() ; i++)\n        for (int j=0 ; j<(int)rbNodeLevels[i].size() ; j++) {\n            const RigidBodyNode& node = *rbNodeLevels[i][j];\n            node.multiplyBySystemJacobianTranspose(tpc, zPtr, xPtr, jtxPtr);",
         expect="SWEEP:multiplyBySystemJacobianTranspose:multiplyBySystemJacobianTranspose:levels-last..0"),
    dict(name="station Jacobian stores the row at a fixed component", file=_S,
         old="            for (int r=0; r < nu; ++r) row[r][i] = col[r]; ", new="            for (int r=0; r < nu; ++r) row[r][0] = col[r]; ", expect="COLUMNS:calcStationJacobian#0:unit#0:result-stored-at-the-same-index"),
]
