"""C07 -- Constraint errors form a derivative hierarchy with adjoint forces (structural clauses).

FRAME adjacency in the constraint equations; COMPLETE: each constraint overrides
the whole virtual set its (mp, mv, ma) requires; AGREE: the constrained bodies /
mobilizers whose kinematics enter the velocity-level error are exactly those that
receive force; LEVEL: each of the seven constraint-matrix builders uses the row
count, the row segment and the per-constraint callee of one and the same level."""
import re

from ..facts import extract_split, units_matching, Program, AnalysisBroken, sx_find, sx_str
from ..match import ev_write, is_call, call_args, call_obj, field_of, var_of
from .. import frame
from .c13 import frames

UNITS = r"/Simbody/src/(Constraint[^/]*|SimbodyMatterSubsystemRep)\.cpp$"
HDR = r"/Simbody/src/(Constraint[^/]*|SimbodyMatterSubsystemRep)\.h$"
FRAME_FILES = re.compile(r"/Simbody/src/(ConstraintImpl\.h|Constraint[^/]*\.(cpp|h))$")
CI = "SimTK::ConstraintImpl"
HOLO = ["calcPositionErrorsVirtual", "calcPositionDotErrorsVirtual", "calcPositionDotDotErrorsVirtual", "addInPositionConstraintForcesVirtual"]
NONHOLO = ["calcVelocityErrorsVirtual", "calcVelocityDotErrorsVirtual", "addInVelocityConstraintForcesVirtual"]
ACC = ["calcAccelerationErrorsVirtual", "addInAccelerationConstraintForcesVirtual"]
FRAME_EXCEPTIONS = {}
LEVELS = {
    "Holonomic": dict(count="totalNHolonomicConstraintEquationsInUse", seg="holoErrSegment", callee=r"calcPositionConstraintMatrix"),
    "Nonholonomic": dict(count="totalNNonholonomicConstraintEquationsInUse", seg="nonholoErrSegment", callee=r"calcVelocityConstraintMatrix"),
    "AccelerationOnly": dict(count="totalNAccelerationOnlyConstraintEquationsInUse", seg="accOnlyErrSegment", callee=r"calcAccelerationConstraintMatrix"),
}


def run(chk, tier, overlays=()):
    units = units_matching(UNITS)
    P = Program(extract_split(units, hdr=HDR, overlays=overlays))
    chk.units += units
    chk.nfunctions += len(P.fns)
    frames(chk, P, FRAME_FILES, FRAME_EXCEPTIONS, floor=50)
    complete(chk, P)
    agree(chk, P)
    level(chk, P)
    operator(chk, P)
    chk.floor("COMPLETE", 20)
    chk.floor("AGREE", 10)
    chk.floor("LEVEL", 14)
    chk.floor("OPERATOR", 20)
    chk.assumptions += ["that verr is the time derivative of perr, Pq = dperr/dq, bias terms, signs and magnitudes are numerical and not decided"]


def _counts(init):
    """(mp, mv, ma) presence flags from the base-class initialiser ConstraintImpl(mp, mv, ma): 0 literal -> False, anything else -> True"""
    if not (isinstance(init, list) and init and init[0] in ("ctor", "initlist")):
        return None
    a = init[2] if init[0] == "ctor" else init[1]
    if len(a) != 3:
        return None
    return tuple(not (isinstance(x, list) and x[0] == "lit" and x[1] == "0") for x in a)


def complete(chk, P):
    chk.rule("COMPLETE", "a constraint whose constructor passes ConstraintImpl(mp, mv, ma) overrides all four holonomic virtuals if mp can be non-zero, all three "
             "nonholonomic ones if mv can be non-zero and both acceleration-only ones if ma can be non-zero (the base versions throw): otherwise one level of the "
             "error hierarchy or the matching force application does not exist")
    subs = sorted(P.subclasses(CI, transitive=False))
    chk.require(len(subs) >= 15, "only %d direct ConstraintImpl subclasses found" % len(subs))
    for c in subs:
        cd = P.classes[c]
        have = {m["name"] for m in cd["methods"]}
        flags = None
        for f in P.methods_of(c):
            if f.kind != "ctor":
                continue
            for i in f.d.get("inits", []):
                if str(i.get("base", "")).endswith("ConstraintImpl"):
                    fl = _counts(i["init"])
                    if fl:
                        flags = tuple(a or b for a, b in zip(flags, fl)) if flags else fl
        short = c.replace("SimTK::", "")
        if flags is None:
            chk.ok("COMPLETE", short + ":no-explicit-counts", "%s:%d" % (cd["file"], cd["line"]), "default (0,0,0) base initialiser only")
            continue
        if short == "Constraint::CustomImpl":
            flags = (True, True, True)
        for on, names, lvl in zip(flags, (HOLO, NONHOLO, ACC), ("holonomic", "nonholonomic", "acceleration-only")):
            if not on:
                continue
            missing = [n for n in names if n not in have]
            chk.judge(not missing, "COMPLETE", "%s:%s" % (short, lvl), "%s:%d" % (cd["file"], cd["line"]),
                      "%s declares %s equations but does not override %s" % (short, lvl, missing))


BODYISH = re.compile(r"Constrained(Body|Mobilizer)Index")


ARRAYISH = re.compile(r"Array_<.*Constrained(Body|Q|U)Index")


def _index_fields(P, cls, f, out_side):
    """index members (ConstrainedBodyIndex / ConstrainedMobilizerIndex) that select into the routine's kinematic input arrays (const Array_<..,Constrained*Index>&
    parameters) or, for out_side, into its force output arrays (non-const ones): the member and the array appear in one call (array[idx], helper(s, array, idx, ..),
    helper(s, idx, .., array))"""
    out = set()
    cd = P.classes.get(cls)
    names = {fl["name"] for fl in cd["fields"] if BODYISH.search(fl["ty"])} if cd else set()
    arrays = {n for n, t in f.d.get("params", []) if ARRAYISH.search(t) and (not t.startswith("const ")) == out_side}
    if not arrays:
        return None
    for _, _, e in f.calls():
        parts = list(call_args(e)) + ([call_obj(e)] if call_obj(e) else [])
        if not any(sx_find(a, lambda y: y[0] == "var" and y[1] in arrays) for a in parts):
            continue
        for a in parts:
            for y in sx_find(a, lambda y: y[0] == "mem" and y[2].startswith(cls + "::") and y[2].split("::")[-1] in names):
                out.add(y[2].split("::")[-1])
    return out


def agree(chk, P):
    chk.rule("AGREE", "per constraint and level: the set of ConstrainedBodyIndex / ConstrainedMobilizerIndex members that select entries of the velocity-level error "
             "routine's kinematic input arrays (allV_AB / constrainedQDot / constrainedU / allA_AB / constrainedUDot) equals the set that select entries of the "
             "matching addIn...ForcesVirtual's output arrays (bodyForcesInA / qForces / mobilityForces): the error is linear in exactly the velocities of the "
             "bodies that receive the multiplier forces (a body missing on one side breaks G' being the transpose of G)")
    subs = sorted(P.subclasses(CI, transitive=False))
    for c in subs:
        short = c.replace("SimTK::", "")
        if short == "Constraint::CustomImpl":
            continue
        ms = {f.name.split("::")[-1]: f for f in P.methods_of(c)}
        for err, frc in (("calcPositionDotErrorsVirtual", "addInPositionConstraintForcesVirtual"), ("calcVelocityErrorsVirtual", "addInVelocityConstraintForcesVirtual"),
                         ("calcAccelerationErrorsVirtual", "addInAccelerationConstraintForcesVirtual")):
            if err in ms and frc in ms:
                a, b = _index_fields(P, c, ms[err], False), _index_fields(P, c, ms[frc], True)
                chk.require(a is not None and b is not None, "no Constrained*Index array parameter on %s::%s / %s" % (short, err, frc))
                if not a and not b:
                    continue
                chk.judge(a == b, "AGREE", "%s:%s~%s" % (short, err.replace("Virtual", ""), frc.replace("Virtual", "")), ms[frc].loc,
                          "error routine selects kinematics of %s; forces are applied to %s" % (sorted(a), sorted(b)))


def level(chk, P):
    chk.rule("LEVEL", "each constraint-matrix builder of SimbodyMatterSubsystemRep (PNInv, P, Pt, V, Vt, A, At) sizes its matrix with the equation count, places rows with the "
             "row segment and calls the per-constraint routine of one and the same level (holonomic / nonholonomic / acceleration-only)")
    n = 0
    for f in sorted(P.all_fns(), key=lambda f: f.id):
        m = re.match(r"^SimbodyMatterSubsystemRep::calc(Holonomic|Nonholonomic|AccelerationOnly)\w*ConstraintMatrix(\w+)$", f.name)
        if not m:
            continue
        lvl = m.group(1)
        spec = LEVELS[lvl]
        counts = {e["field"].split("::")[-1] for _, _, e in f.events(lambda e: e["k"] == "mem" and e["field"].split("::")[-1].startswith("totalN"))}
        segs = {e["field"].split("::")[-1] for _, _, e in f.events(lambda e: e["k"] == "mem" and e["field"].split("::")[-1].endswith("ErrSegment"))}
        callees = {e["fn"].split("::")[-1] for _, _, e in f.calls() if re.search(r"ConstraintMatrix", str(e.get("fn", ""))) and "SimbodyMatterSubsystemRep" not in e["fn"]}
        short = f.name.split("::")[-1]
        n += 1
        chk.judge(counts == {spec["count"]}, "LEVEL", short + ":count", f.loc, "row count fields used: %s (expected %s)" % (sorted(counts), spec["count"]))
        chk.judge(segs == {spec["seg"]}, "LEVEL", short + ":segment", f.loc, "row segment fields used: %s (expected %s)" % (sorted(segs), spec["seg"]))
        chk.judge(bool(callees) and all(re.match(spec["callee"], c) for c in callees), "LEVEL", short + ":callee", f.loc, "per-constraint routines called: %s" % sorted(callees))
        # the callee's suffix matches the builder's suffix (P -> ...MatrixP, Pt -> ...MatrixPt)
        suf = m.group(2)
        chk.judge(all(c.endswith(suf) for c in callees), "LEVEL", short + ":same-matrix", f.loc, "builder %s must call the ...Matrix%s routine, calls %s" % (short, suf, sorted(callees)))
    chk.shape(n == 7, "LEVEL", "seven-builders", "", "constraint matrix builders found: %d" % n)


# G*u operator: error routine of each level -> (segment it fills, the counts that precede that segment in the stacked [P;V;A] vector)
OPERATOR = {
    "calcPositionDotErrors": ("holoErrSegment", []),
    "calcVelocityDotErrors": ("nonholoErrSegment", ["totalNHolonomicConstraintEquationsInUse"]),
    "calcAccelerationErrors": ("accOnlyErrSegment", ["totalNHolonomicConstraintEquationsInUse", "totalNNonholonomicConstraintEquationsInUse"]),
}


def _fields_through_locals(f, x, at_ev, depth=3):
    """short names of the member fields an expression depends on, following single reaching initialisers of locals"""
    out = set()
    if not isinstance(x, list) or depth < 0:
        return out
    for y in sx_find(x, lambda y: y[0] == "mem"):
        out.add(y[2].split("::")[-1])
    for y in sx_find(x, lambda y: y[0] == "var"):
        ds = [(b, i, d) for b, i, d in f.events(lambda q: q["k"] == "decl" and q["var"] == y[1] and q.get("init") is not None)]
        live = [d for b, i, d in ds if f.path_exists((b, i), lambda q: q is at_ev, lambda q: any(q is o[2] for o in ds if o[2] is not d), lift=0) is not None]
        if len(live) == 1:
            out |= _fields_through_locals(f, live[0]["init"], live[0], depth - 1)
    return out


def _blocks_path(f, b0, goals, avoid_blocks):
    """block path from the successors of b0 to any block in `goals` that never enters a block of avoid_blocks, or None"""
    infeas = f.infeasible_edges()
    seen, st = set(), [(s_, (b0, s_)) for s_ in f.succs(b0) if (b0, s_) not in infeas]
    while st:
        b, path = st.pop()
        if b in seen or b in avoid_blocks:
            continue
        seen.add(b)
        if b in goals:
            return list(path)
        if any(e["k"] == "throw" for e in f.blocks[b]["ev"]):
            continue
        for s_ in f.succs(b):
            if (b, s_) not in infeas:
                st.append((s_, path + (s_,)))
    return None


def operator(chk, P):
    chk.rule("OPERATOR", "multiplyByPVA computes G*u as error(u) - error(0): for each of the three levels the per-constraint error routine writes the view OUT(start, m) of the "
             "result, and on every path to the end of the iteration the view BIAS(start, m) with the SAME start and length is subtracted from it element by element; "
             "start and m come from the error segment of that level, offset by the equation counts of the levels stacked before it")
    fs = [f for f in P.all_fns() if f.name.split("::")[-1] == "multiplyByPVA" and "SimbodyMatterSubsystemRep" in f.name]
    if not chk.shape(len(fs) == 1, "OPERATOR", "multiplyByPVA:found", "", "%d definitions" % len(fs)):
        return
    f = fs[0]
    outp = f.d["params"][-1][0]
    biasp = f.d["params"][-3][0]
    decl = {}
    for b, i, d in f.events(lambda q: q["k"] == "decl" and isinstance(q.get("init"), list)):
        decl.setdefault(d["var"], []).append((b, i, d))

    def view_of(v, at_ev):
        """(base view variable, start sx, length sx) if v is declared as BASE(start, len) by the declaration reaching at_ev"""
        ds = decl.get(v, [])
        live = [d for b, i, d in ds if f.path_exists((b, i), lambda q: q is at_ev, lambda q: any(q is o[2] for o in ds if o[2] is not d), lift=0) is not None]
        if len(live) != 1:
            return None
        x = live[0]["init"]
        if x[0] == "opc" and x[1] == "()" and len(x) == 5 and var_of(x[2]):
            return var_of(x[2]), x[3], x[4], live[0]
        return None

    def wraps(v, param):
        """view variable v is built over the data of Vector parameter `param`"""
        return any(bool(sx_find(d["init"], lambda y: y[0] == "var" and y[1] == param)) for _, _, d in decl.get(v, []))
    seen = set()
    loops = f.loops()
    outer = [h for h, body in loops.items() if any(str(e.get("fn", "")).endswith("isConstraintDisabled") for bb in body for e in f.blocks[bb]["ev"])]
    chk.shape(len(outer) >= 1, "OPERATOR", "multiplyByPVA:constraint-loop", f.loc, "loops testing isConstraintDisabled: %d" % len(outer))
    for b, i, e in f.calls():
        nm = str(e.get("fn", "")).split("::")[-1]
        if nm not in OPERATOR or "ConstraintImpl" not in e["fn"]:
            continue
        seen.add(nm)
        seg, before = OPERATOR[nm]
        site = "%s:%d" % (f.file, e["line"])
        ev = var_of(call_args(e)[-1])
        vw = view_of(ev, e) if ev else None
        if not chk.shape(vw is not None and wraps(vw[0], outp), "OPERATOR", nm + ":writes-a-view-of-the-result", site, "output argument %s" % sx_str(call_args(e)[-1])):
            continue
        _base, start, length, _d = vw
        fl_start = _fields_through_locals(f, start, e)
        fl_len = _fields_through_locals(f, length, e)
        chk.judge(seg in fl_start and "offset" in fl_start and set(before) <= fl_start and not (fl_start & {s_ for s_ in ("holoErrSegment", "nonholoErrSegment", "accOnlyErrSegment") if s_ != seg}),
                  "OPERATOR", nm + ":row-offset", site, "rows start at %s (depends on %s); expected %s.offset after %s" % (sx_str(start), sorted(fl_start), seg, before or "nothing"))
        chk.judge(seg in fl_len and "length" in fl_len, "OPERATOR", nm + ":row-count", site, "row count %s (depends on %s); expected %s.length" % (sx_str(length), sorted(fl_len), seg))
        # the subtraction
        subs = []
        for sb, si, se in f.events(lambda q: q["k"] == "assign" and q["op"] == "-=" and var_of(q["lhs"]) == ev and q["lhs"][0] != "var"):
            bv = var_of(se.get("rhs"))
            bw = view_of(bv, se) if bv else None
            if not bw or not wraps(bw[0], biasp):
                continue
            same_idx = isinstance(se["lhs"], list) and isinstance(se["rhs"], list) and len(se["lhs"]) > 3 and len(se["rhs"]) > 3 and se["lhs"][3] == se["rhs"][3] and var_of(se["lhs"][3])
            if f.path_exists((b, i), lambda q: q is se, lambda q: False, lift=0) is None:
                continue
            subs.append((sb, si, se, bw, same_idx))
        chk.judge(len(subs) == 1, "OPERATOR", nm + ":bias-subtracted", site, "element-wise `%s[i] -= bias[i]` after the error routine: %d found" % (ev, len(subs)))
        if len(subs) != 1:
            continue
        sb, si, se, bw, same_idx = subs[0]
        chk.judge(bw[1] == start and bw[2] == length, "OPERATOR", nm + ":bias-view-same-rows", "%s:%d" % (f.file, se["line"]),
                  "bias view (%s, %s) vs result view (%s, %s)" % (sx_str(bw[1]), sx_str(bw[2]), sx_str(start), sx_str(length)))
        chk.judge(bool(same_idx), "OPERATOR", nm + ":same-element", "%s:%d" % (f.file, se["line"]), "%s -= %s" % (sx_str(se["lhs"]), sx_str(se["rhs"])))
        inner = [h for h in f.loops_of(sb) if h not in outer]
        okb = False
        for h in inner:
            t = f.blocks[h].get("term")
            c = t.get("cond") if t else None
            if isinstance(c, list) and c[0] in ("op", "opc") and c[1] == "<" and var_of(c[2]) == var_of(se["lhs"][3]) and c[3] == length:
                i0 = [d for _, _, d in decl.get(var_of(c[2]), []) if d["init"] == ["lit", "0"]]
                okb = bool(i0)
                # every path from the error routine to the next constraint passes this loop
                byp = _blocks_path(f, b, set(outer), {h})
                chk.judge(byp is None, "OPERATOR", nm + ":bias-subtracted-on-every-path", "%s:%d" % (f.file, se["line"]), "the next constraint is reached without passing the subtraction loop", byp)
        chk.judge(okb, "OPERATOR", nm + ":all-rows-of-the-segment", "%s:%d" % (f.file, se["line"]), "the subtraction runs for i = 0 .. %s-1" % sx_str(length))
    chk.judge(seen == set(OPERATOR), "OPERATOR", "multiplyByPVA:three-levels", f.loc, "error routines called: %s" % sorted(seen))


_C = "Simbody/src/Constraint.cpp"
_R = "Simbody/src/SimbodyMatterSubsystemRep.cpp"
_I = "Simbody/src/ConstraintImpl.h"
MUTATIONS = [
    dict(name="G*u keeps the bias of the holonomic rows", arm=True, file=_R,
         old="            crep.calcPositionDotErrors(s, V_AB, qdot, pverr);\n            for (int i=0; i < mp; ++i)\n                pverr[i] -= bias[i];", new="            crep.calcPositionDotErrors(s, V_AB, qdot, pverr);",
         expect="OPERATOR:calcPositionDotErrors:bias-subtracted"),
    dict(name="bias of the nonholonomic rows removed only when there are several", file=_R,
         old="            for (int i=0; i < mv; ++i)\n                vaerr[i] -= bias[i];", new="            if (mv > 1) for (int i=0; i < mv; ++i)\n                vaerr[i] -= bias[i];", expect="OPERATOR:calcVelocityDotErrors:bias-subtracted-on-every-path"),
    dict(name="acceleration-only bias view starts at the nonholonomic offset", file=_R,
         old="            const ArrayViewConst_<Real> bias = biasArray(start, ma);", new="            const ArrayViewConst_<Real> bias = biasArray(mHolo+accOnlySeg.offset, ma);", expect="OPERATOR:calcAccelerationErrors:bias-view-same-rows"),
    dict(name="nonholonomic rows of G*u not offset by the holonomic count", file=_R,
         old="            const int start = mHolo + nonholoSeg.offset;\n            const ArrayViewConst_<Real> bias  = biasArray(start, mv);\n            ArrayView_<Real>            vaerr = PVAuArray(start, mv);\n            crep.calcVelocityDotErrors(s, A_AB, udot, vaerr);",
         new="            const int start = nonholoSeg.offset;\n            const ArrayViewConst_<Real> bias  = biasArray(start, mv);\n            ArrayView_<Real>            vaerr = PVAuArray(start, mv);\n            crep.calcVelocityDotErrors(s, A_AB, udot, vaerr);",
         expect="OPERATOR:calcVelocityDotErrors:row-offset"),
    dict(name="nonholonomic matrix rows placed with the holonomic segment", arm=True, file=_R,
         old="        const Segment& nonholoSeg = cInfo.nonholoErrSegment; // after holo derivs, offset into uerr\n\n        V(", new="        const Segment& nonholoSeg = cInfo.holoErrSegment; // after holo derivs, offset into uerr\n\n        V(", expect="LEVEL:calcNonholonomicConstraintMatrixV:segment"),
    dict(name="PointInPlane reaction applied to the follower body twice", arm=True, file=_I,
         old="    addInStationForce(s, followerBody, p_FS,  force_A, bodyForcesInA);\n    addInStationForce(s, planeBody,    p_BC, -force_A, bodyForcesInA);\n}\n\nSimTK_DOWNCAST(PointInPlaneImpl, ConstraintImpl);",
         new="    addInStationForce(s, followerBody, p_FS,  force_A, bodyForcesInA);\n    addInStationForce(s, followerBody, p_BC, -force_A, bodyForcesInA);\n}\n\nSimTK_DOWNCAST(PointInPlaneImpl, ConstraintImpl);",
         expect="AGREE:Constraint::PointInPlaneImpl"),
    dict(name="PointInPlane force direction re-expressed with the inverse rotation", file=_I,
         old="    const Vec3       force_A = X_AB.R()*(lambda*defaultPlaneNormal);\n\n    addInStationForce(s, followerBody, p_FS,  force_A, bodyForcesInA);\n    addInStationForce(s, planeBody,    p_BC, -force_A, bodyForcesInA);\n}\n\nSimTK_DOWNCAST(PointInPlaneImpl",
         new="    const Vec3       force_A = ~X_AB.R()*(lambda*defaultPlaneNormal);\n\n    addInStationForce(s, followerBody, p_FS,  force_A, bodyForcesInA);\n    addInStationForce(s, planeBody,    p_BC, -force_A, bodyForcesInA);\n}\n\nSimTK_DOWNCAST(PointInPlaneImpl",
         expect="FRAME:"),
    dict(name="PointInPlane coincident point computed without the inverse transform", file=_I,
         old="    const Transform& X_AB    = getBodyTransformFromState(s, planeBody);\n    const Vec3       p_BC    = ~X_AB * p_AS;         // measured & expressed in B",
         new="    const Transform& X_AB    = getBodyTransformFromState(s, planeBody);\n    const Vec3       p_BC    = X_AB * p_AS;         // measured & expressed in B", expect="FRAME:"),
]
