"""C07 -- Constraint errors form a derivative hierarchy with adjoint forces (structural clauses).

FRAME adjacency in the constraint equations; COMPLETE: each constraint overrides
the whole virtual set its (mp, mv, ma) requires; AGREE: the constrained bodies /
mobilizers whose kinematics enter the velocity-level error are exactly those that
receive force; LEVEL: each of the seven constraint-matrix builders uses the row
count, the row segment and the per-constraint callee of one and the same level."""
import re

from ..facts import extract_split, units_matching, Program, AnalysisBroken, sx_find, sx_str
from ..match import ev_write, is_call, call_args, call_obj, field_of, var_of
from .. import frame
from .c13 import frames

UNITS = r"/Simbody/src/(Constraint[^/]*|SimbodyMatterSubsystemRep)\.cpp$"
HDR = r"/Simbody/src/(Constraint[^/]*|SimbodyMatterSubsystemRep)\.h$"
FRAME_FILES = re.compile(r"/Simbody/src/(ConstraintImpl\.h|Constraint[^/]*\.(cpp|h))$")
CI = "SimTK::ConstraintImpl"
HOLO = ["calcPositionErrorsVirtual", "calcPositionDotErrorsVirtual", "calcPositionDotDotErrorsVirtual", "addInPositionConstraintForcesVirtual"]
NONHOLO = ["calcVelocityErrorsVirtual", "calcVelocityDotErrorsVirtual", "addInVelocityConstraintForcesVirtual"]
ACC = ["calcAccelerationErrorsVirtual", "addInAccelerationConstraintForcesVirtual"]
FRAME_EXCEPTIONS = {}
LEVELS = {
    "Holonomic": dict(count="totalNHolonomicConstraintEquationsInUse", seg="holoErrSegment", callee=r"calcPositionConstraintMatrix"),
    "Nonholonomic": dict(count="totalNNonholonomicConstraintEquationsInUse", seg="nonholoErrSegment", callee=r"calcVelocityConstraintMatrix"),
    "AccelerationOnly": dict(count="totalNAccelerationOnlyConstraintEquationsInUse", seg="accOnlyErrSegment", callee=r"calcAccelerationConstraintMatrix"),
}


def run(chk, tier, overlays=()):
    units = units_matching(UNITS)
    P = Program(extract_split(units, hdr=HDR, overlays=overlays))
    chk.units += units
    chk.nfunctions += len(P.fns)
    frames(chk, P, FRAME_FILES, FRAME_EXCEPTIONS, floor=50)
    complete(chk, P)
    agree(chk, P)
    level(chk, P)
    chk.floor("COMPLETE", 20)
    chk.floor("AGREE", 10)
    chk.floor("LEVEL", 14)
    chk.assumptions += ["that verr is the time derivative of perr, Pq = dperr/dq, bias terms, signs and magnitudes are numerical and not decided"]


def _counts(init):
    """(mp, mv, ma) presence flags from the base-class initialiser ConstraintImpl(mp, mv, ma): 0 literal -> False, anything else -> True"""
    if not (isinstance(init, list) and init and init[0] in ("ctor", "initlist")):
        return None
    a = init[2] if init[0] == "ctor" else init[1]
    if len(a) != 3:
        return None
    return tuple(not (isinstance(x, list) and x[0] == "lit" and x[1] == "0") for x in a)


def complete(chk, P):
    chk.rule("COMPLETE", "a constraint whose constructor passes ConstraintImpl(mp, mv, ma) overrides all four holonomic virtuals if mp can be non-zero, all three "
             "nonholonomic ones if mv can be non-zero and both acceleration-only ones if ma can be non-zero (the base versions throw): otherwise one level of the "
             "error hierarchy or the matching force application does not exist")
    subs = sorted(P.subclasses(CI, transitive=False))
    chk.require(len(subs) >= 15, "only %d direct ConstraintImpl subclasses found" % len(subs))
    for c in subs:
        cd = P.classes[c]
        have = {m["name"] for m in cd["methods"]}
        flags = None
        for f in P.methods_of(c):
            if f.kind != "ctor":
                continue
            for i in f.d.get("inits", []):
                if str(i.get("base", "")).endswith("ConstraintImpl"):
                    fl = _counts(i["init"])
                    if fl:
                        flags = tuple(a or b for a, b in zip(flags, fl)) if flags else fl
        short = c.replace("SimTK::", "")
        if flags is None:
            chk.ok("COMPLETE", short + ":no-explicit-counts", "%s:%d" % (cd["file"], cd["line"]), "default (0,0,0) base initialiser only")
            continue
        if short == "Constraint::CustomImpl":
            flags = (True, True, True)
        for on, names, lvl in zip(flags, (HOLO, NONHOLO, ACC), ("holonomic", "nonholonomic", "acceleration-only")):
            if not on:
                continue
            missing = [n for n in names if n not in have]
            chk.judge(not missing, "COMPLETE", "%s:%s" % (short, lvl), "%s:%d" % (cd["file"], cd["line"]),
                      "%s declares %s equations but does not override %s" % (short, lvl, missing))


BODYISH = re.compile(r"Constrained(Body|Mobilizer)Index")


ARRAYISH = re.compile(r"Array_<.*Constrained(Body|Q|U)Index")


def _index_fields(P, cls, f, out_side):
    """index members (ConstrainedBodyIndex / ConstrainedMobilizerIndex) that select into the routine's kinematic input arrays (const Array_<..,Constrained*Index>&
    parameters) or, for out_side, into its force output arrays (non-const ones): the member and the array appear in one call (array[idx], helper(s, array, idx, ..),
    helper(s, idx, .., array))"""
    out = set()
    cd = P.classes.get(cls)
    names = {fl["name"] for fl in cd["fields"] if BODYISH.search(fl["ty"])} if cd else set()
    arrays = {n for n, t in f.d.get("params", []) if ARRAYISH.search(t) and (not t.startswith("const ")) == out_side}
    if not arrays:
        return None
    for _, _, e in f.calls():
        parts = list(call_args(e)) + ([call_obj(e)] if call_obj(e) else [])
        if not any(sx_find(a, lambda y: y[0] == "var" and y[1] in arrays) for a in parts):
            continue
        for a in parts:
            for y in sx_find(a, lambda y: y[0] == "mem" and y[2].startswith(cls + "::") and y[2].split("::")[-1] in names):
                out.add(y[2].split("::")[-1])
    return out


def agree(chk, P):
    chk.rule("AGREE", "per constraint and level: the set of ConstrainedBodyIndex / ConstrainedMobilizerIndex members that select entries of the velocity-level error "
             "routine's kinematic input arrays (allV_AB / constrainedQDot / constrainedU / allA_AB / constrainedUDot) equals the set that select entries of the "
             "matching addIn...ForcesVirtual's output arrays (bodyForcesInA / qForces / mobilityForces): the error is linear in exactly the velocities of the "
             "bodies that receive the multiplier forces (a body missing on one side breaks G' being the transpose of G)")
    subs = sorted(P.subclasses(CI, transitive=False))
    for c in subs:
        short = c.replace("SimTK::", "")
        if short == "Constraint::CustomImpl":
            continue
        ms = {f.name.split("::")[-1]: f for f in P.methods_of(c)}
        for err, frc in (("calcPositionDotErrorsVirtual", "addInPositionConstraintForcesVirtual"), ("calcVelocityErrorsVirtual", "addInVelocityConstraintForcesVirtual"),
                         ("calcAccelerationErrorsVirtual", "addInAccelerationConstraintForcesVirtual")):
            if err in ms and frc in ms:
                a, b = _index_fields(P, c, ms[err], False), _index_fields(P, c, ms[frc], True)
                chk.require(a is not None and b is not None, "no Constrained*Index array parameter on %s::%s / %s" % (short, err, frc))
                if not a and not b:
                    continue
                chk.judge(a == b, "AGREE", "%s:%s~%s" % (short, err.replace("Virtual", ""), frc.replace("Virtual", "")), ms[frc].loc,
                          "error routine selects kinematics of %s; forces are applied to %s" % (sorted(a), sorted(b)))


def level(chk, P):
    chk.rule("LEVEL", "each constraint-matrix builder of SimbodyMatterSubsystemRep (PNInv, P, Pt, V, Vt, A, At) sizes its matrix with the equation count, places rows with the "
             "row segment and calls the per-constraint routine of one and the same level (holonomic / nonholonomic / acceleration-only)")
    n = 0
    for f in sorted(P.all_fns(), key=lambda f: f.id):
        m = re.match(r"^SimbodyMatterSubsystemRep::calc(Holonomic|Nonholonomic|AccelerationOnly)\w*ConstraintMatrix(\w+)$", f.name)
        if not m:
            continue
        lvl = m.group(1)
        spec = LEVELS[lvl]
        counts = {e["field"].split("::")[-1] for _, _, e in f.events(lambda e: e["k"] == "mem" and e["field"].split("::")[-1].startswith("totalN"))}
        segs = {e["field"].split("::")[-1] for _, _, e in f.events(lambda e: e["k"] == "mem" and e["field"].split("::")[-1].endswith("ErrSegment"))}
        callees = {e["fn"].split("::")[-1] for _, _, e in f.calls() if re.search(r"ConstraintMatrix", str(e.get("fn", ""))) and "SimbodyMatterSubsystemRep" not in e["fn"]}
        short = f.name.split("::")[-1]
        n += 1
        chk.judge(counts == {spec["count"]}, "LEVEL", short + ":count", f.loc, "row count fields used: %s (expected %s)" % (sorted(counts), spec["count"]))
        chk.judge(segs == {spec["seg"]}, "LEVEL", short + ":segment", f.loc, "row segment fields used: %s (expected %s)" % (sorted(segs), spec["seg"]))
        chk.judge(bool(callees) and all(re.match(spec["callee"], c) for c in callees), "LEVEL", short + ":callee", f.loc, "per-constraint routines called: %s" % sorted(callees))
        # the callee's suffix matches the builder's suffix (P -> ...MatrixP, Pt -> ...MatrixPt)
        suf = m.group(2)
        chk.judge(all(c.endswith(suf) for c in callees), "LEVEL", short + ":same-matrix", f.loc, "builder %s must call the ...Matrix%s routine, calls %s" % (short, suf, sorted(callees)))
    chk.shape(n == 7, "LEVEL", "seven-builders", "", "constraint matrix builders found: %d" % n)


_C = "Simbody/src/Constraint.cpp"
_R = "Simbody/src/SimbodyMatterSubsystemRep.cpp"
_I = "Simbody/src/ConstraintImpl.h"
MUTATIONS = [
    dict(name="nonholonomic matrix rows placed with the holonomic segment", arm=True, file=_R,
         old="        const Segment& nonholoSeg = cInfo.nonholoErrSegment; // after holo derivs, offset into uerr\n\n        V(", new="        const Segment& nonholoSeg = cInfo.holoErrSegment; // after holo derivs, offset into uerr\n\n        V(", expect="LEVEL:calcNonholonomicConstraintMatrixV:segment"),
    dict(name="PointInPlane reaction applied to the follower body twice", arm=True, file=_I,
         old="    addInStationForce(s, followerBody, p_FS,  force_A, bodyForcesInA);\n    addInStationForce(s, planeBody,    p_BC, -force_A, bodyForcesInA);\n}\n\nSimTK_DOWNCAST(PointInPlaneImpl, ConstraintImpl);",
         new="    addInStationForce(s, followerBody, p_FS,  force_A, bodyForcesInA);\n    addInStationForce(s, followerBody, p_BC, -force_A, bodyForcesInA);\n}\n\nSimTK_DOWNCAST(PointInPlaneImpl, ConstraintImpl);",
         expect="AGREE:Constraint::PointInPlaneImpl"),
    dict(name="PointInPlane force direction re-expressed with the inverse rotation", file=_I,
         old="    const Vec3       force_A = X_AB.R()*(lambda*defaultPlaneNormal);\n\n    addInStationForce(s, followerBody, p_FS,  force_A, bodyForcesInA);\n    addInStationForce(s, planeBody,    p_BC, -force_A, bodyForcesInA);\n}\n\nSimTK_DOWNCAST(PointInPlaneImpl",
         new="    const Vec3       force_A = ~X_AB.R()*(lambda*defaultPlaneNormal);\n\n    addInStationForce(s, followerBody, p_FS,  force_A, bodyForcesInA);\n    addInStationForce(s, planeBody,    p_BC, -force_A, bodyForcesInA);\n}\n\nSimTK_DOWNCAST(PointInPlaneImpl",
         expect="FRAME:"),
    dict(name="PointInPlane coincident point computed without the inverse transform", file=_I,
         old="    const Transform& X_AB    = getBodyTransformFromState(s, planeBody);\n    const Vec3       p_BC    = ~X_AB * p_AS;         // measured & expressed in B",
         new="    const Transform& X_AB    = getBodyTransformFromState(s, planeBody);\n    const Vec3       p_BC    = X_AB * p_AS;         // measured & expressed in B", expect="FRAME:"),
]
