"""C08 -- Constrained forward dynamics (clause: disabled constraints have no effect).

GUARD: every loop of the matter subsystem that walks the constraint set and
calls into a constraint with State information either skips disabled
constraints itself (isConstraintDisabled on the loop variable before any such
call) or delegates only to callees that return immediately when disabled
(verified on the callees); the remaining loops are tabled with the reason."""
import re

from ..facts import extract, extract_split, units_matching, Program, AnalysisBroken, sx_find, sx_str
from ..match import value_sets, ev_write, is_call, call_args, call_obj, field_of, var_of, guard_blocks, branch_edges

REP = "SimbodyMatterSubsystemRep"
CI = "SimTK::ConstraintImpl"
UNITS = r"/Simbody/src/(SimbodyMatterSubsystemRep|SimbodyMatterSubsystem|Constraint)\.cpp$"
HDR = r"/Simbody/src/(ConstraintImpl|SimbodyMatterSubsystemRep|SimbodyTreeState)\.h$"
SELF_GUARDING = ["realizeTime", "realizePosition", "realizeVelocity", "realizeDynamics", "realizeAcceleration", "realizeReport",
                 "calcConstrainedBodyTransformInAncestor", "calcConstrainedBodyVelocityInAncestor"]
# loops that legitimately visit every declared constraint
TABLED = {
    "clearTopologyState": "destruction of the constraint objects",
    "endConstruction": "realizeTopology of every declared constraint",
    "realizeSubsystemModelImpl": "realizeModel for every declared constraint (state allocation does not depend on the enabled flag)",
    "realizeSubsystemInstanceImpl": "builds per-constraint instance info for every declared constraint, whether enabled or not (documented); realizeInstance tests the flag itself",
    "setDefaultInstanceValues": "initialises the disabled flags from isDisabledByDefault()",
    "calcDecorativeGeometryAndAppendImpl": "decorative geometry only; no dynamics result",
}


def run(chk, tier, overlays=()):
    units = units_matching(UNITS)
    P = Program(extract_split(units, hdr=HDR, overlays=overlays))
    chk.units += units
    chk.nfunctions += len(P.fns)
    chk.rule("GUARD", "every loop over the constraint set in SimbodyMatterSubsystemRep either (A) tests isConstraintDisabled(s, cx) on its loop variable and every use of "
             "constraint cx lies on the not-disabled side, or (B) only calls ConstraintImpl methods that themselves return at once when the constraint is disabled "
             "(entry guard verified on each such callee), or (C) is tabled as visiting every declared constraint on purpose")
    self_guard(chk, P)
    loops(chk, P)
    power(chk, P)
    chk.floor("GUARD", 38)
    chk.floor("POWER", 8)
    chk.assumptions += ["constraint satisfaction, the multiplier solve, Newton's law and power are numerical and not decided (DESIGN section 3, C08)"]


# accessors by the frame their result is expressed in (from their documentation: "measured and expressed in the Ancestor (A) frame" in
# ConstraintImpl.h; V_GB in SimbodyMatterSubsystem / MobilizedBody)
GROUND_VELOCITY = re.compile(r"^(SimTK::)?(SimbodyMatterSubsystemRep|SimbodyMatterSubsystem|MobilizedBody|MobilizedBodyImpl)::getBodyVelocity$")
ANCESTOR_VELOCITY = re.compile(r"^(SimTK::)?ConstraintImpl::(getBody\w*Velocity\w*|get\w*VelocityFromState)$")


def power(chk, P):
    chk.rule("POWER", "Constraint::calcPower is -(sum F_G[b] . V_G[b] + sum f[c] * u[c]): each body term pairs entry b of the constraint's Ground-frame body forces "
             "(getConstrainedBodyForcesInGFromState) with the Ground-frame spatial velocity of the mobilized body of that same constrained body (a matter-subsystem / MobilizedBody "
             "getBodyVelocity of getMobilizedBodyIndexOfConstrainedBody(b) -- never an Ancestor-frame ConstraintImpl accessor), each mobility term pairs entry c of the mobility "
             "forces with u[getUIndexOfConstrainedU(state, c)] of the same c; both loops run over the whole force array; terms are subtracted; calcConstraintPower adds "
             "calcPower of each (enabled) constraint")
    f = (P.fns_named("SimTK::Constraint::calcPower") or [None])[0]
    chk.require(f is not None, "anchor vanished: Constraint::calcPower")
    decls = {d["var"]: d for _, _, d in f.events(lambda d: d["k"] == "decl")}

    def src(v, depth=3):
        """call names in the (transitive) initialiser of local v"""
        out, todo, seen = [], [v], set()
        while todo and depth > 0:
            x = todo.pop()
            if x in seen or x not in decls or decls[x].get("init") is None:
                continue
            seen.add(x)
            out += [c for c in sx_find(decls[x]["init"], lambda y: y[0] == "call")]
            todo += [y[1] for y in sx_find(decls[x]["init"], lambda y: y[0] == "var")]
        return out
    terms = [e for _, _, e in f.events(lambda e: e["k"] == "assign" and var_of(e["lhs"]) is not None and e["op"] in ("-=", "+=") and e.get("rhs") is not None and
                                       isinstance(e["rhs"], list) and e["rhs"][0] in ("op", "opc") and e["rhs"][1] == "*")]
    chk.shape(len(terms) == 2, "POWER", "two-terms", f.loc, "a body-force term and a mobility-force term (found %d)" % len(terms))
    for e in terms:
        site = "%s:%d" % (f.file, e["line"])
        lhs, rhs = e["rhs"][2], e["rhs"][3]
        farr = sx_find(lhs, lambda y: y[0] == "opc" and y[1] == "[]")
        if not farr:
            continue
        fv, fi = var_of(farr[0][2]), var_of(farr[0][3])
        fsrc = [c[1].split("::")[-1] for c in src(fv)]
        kind = "body" if any("BodyForces" in n for n in fsrc) else "mobility" if any("MobilityForces" in n for n in fsrc) else "?"
        chk.judge(e["op"] == "-=", "POWER", kind + ":subtracted", site, "power delivered BY the constraint is minus force dot velocity")
        if kind == "body":
            chk.judge(any(n == "getConstrainedBodyForcesInGFromState" for n in fsrc), "POWER", "body:forces-in-Ground", site, "body forces come from %s" % fsrc)
            vv = var_of(rhs)
            vs = src(vv) if vv else sx_find(rhs, lambda y: y[0] == "call")
            names = [c[1] for c in vs]
            anc = [n for n in names if ANCESTOR_VELOCITY.match(n)]
            grd = [c for c in vs if GROUND_VELOCITY.match(c[1])]
            if anc:
                chk.violation("POWER", "body:velocity-in-Ground", site, "Ground-frame forces are dotted with %s, which is measured and expressed in the constraint's Ancestor frame" % anc[0])
            else:
                chk.shape(bool(grd), "POWER", "body:velocity-in-Ground", site, "velocity taken from %s" % ([n.split("::")[-1] for n in names] or sx_str(rhs)))
            # same constrained body: the mobilized-body index is looked up from the loop index used for the force
            ok = False
            for c in grd:
                for a in c[3]:
                    for d in src(var_of(a)) if var_of(a) else []:
                        if d[1].endswith("::getMobilizedBodyIndexOfConstrainedBody") and any(var_of(x) == fi for x in d[3]):
                            ok = True
            if grd:
                chk.judge(ok, "POWER", "body:same-constrained-body", site, "the velocity is that of getMobilizedBodyIndexOfConstrainedBody(%s), the index of the force" % fi)
        elif kind == "mobility":
            uarr = sx_find(rhs, lambda y: y[0] == "opc" and y[1] == "[]")
            uv, ui = (var_of(uarr[0][2]), var_of(uarr[0][3])) if uarr else (None, None)
            if ui is None and uarr:
                c = sx_find(uarr[0][3], lambda y: y[0] == "var")
                ui = c[0][1] if c else None
            chk.judge(bool(uv) and any(c[1].endswith("::getU") for c in src(uv)), "POWER", "mobility:speeds-from-getU", site, "generalized speeds come from getU(state)")
            chk.judge(bool(ui) and any(c[1].endswith("::getUIndexOfConstrainedU") and any(var_of(x) == fi for x in c[3]) for c in src(ui)), "POWER", "mobility:same-constrained-u", site,
                      "u is indexed by getUIndexOfConstrainedU(state, %s), the index of the force" % fi)
        # loop bound: size of the force array
        hs = [h for h, body in f.loops().items() if any(ev is e for bb in body for ev in f.blocks[bb]["ev"])]
        okb = any(f.blocks[h].get("term") and f.blocks[h]["term"].get("cond") is not None and
                  sx_find(f.blocks[h]["term"]["cond"], lambda y: y[0] == "call" and y[1].endswith("::size") and var_of(y[2]) == fv) for h in hs)
        chk.judge(okb, "POWER", kind + ":all-entries", site, "the loop runs over every entry of %s" % fv)
    rets = [e for _, _, e in f.events(lambda e: e["k"] == "ret")]
    acc = {var_of(e["lhs"]) for e in terms}
    chk.judge(len(rets) == 1 and len(acc) == 1 and var_of(rets[0].get("val")) in acc, "POWER", "returns-the-sum", f.loc, "the accumulated sum is returned")
    g = [x for x in P.all_fns() if x.name.endswith("SimbodyMatterSubsystemRep::calcConstraintPower")]
    chk.require(bool(g), "anchor vanished: SimbodyMatterSubsystemRep::calcConstraintPower")
    for x in g:
        cs = [e for _, _, e in x.calls() if str(e.get("fn", "")).endswith("Constraint::calcPower")]
        adds = [e for _, _, e in x.events(lambda e: e["k"] == "assign" and e["op"] == "+=" and e.get("rhs") is not None and
                                          bool(sx_find(e["rhs"], lambda y: y[0] == "call" and y[1].endswith("Constraint::calcPower"))))]
        chk.judge(len(cs) == 1 and len(adds) == 1, "POWER", "calcConstraintPower:sums-calcPower", x.loc, "total power adds Constraint::calcPower of each constraint visited")


def self_guard(chk, P):
    for m in SELF_GUARDING:
        fs = P.fns_named(CI + "::" + m)
        chk.require(bool(fs), "ConstraintImpl::%s not found" % m)
        for f in fs:
            # the first branch of the function is the disabled test and its true side returns
            def dis(c):
                return bool(sx_find(c, lambda y: (y[0] == "mem" and y[2].endswith("::constraintIsDisabled")) or (y[0] == "call" and y[1].endswith("::isDisabled"))))
            edges = branch_edges(f, dis, 0)
            ok = False
            for b, t in edges:
                # the guard block is reached on every path before any other call that uses the constraint's equations
                tb = f.blocks[t]
                returns = any(e["k"] == "ret" for e in tb["ev"]) or f.succs(t) == [f.exit]
                # no *Virtual call precedes the guard
                pre = f.path_exists(None, lambda q: q["k"] == "call" and str(q.get("fn", "")).endswith("Virtual"), lambda q: False, avoid_blocks={b})
                ok = ok or (returns and pre is None)
            chk.judge(ok, "GUARD", "callee:ConstraintImpl::%s:returns-if-disabled" % m, f.loc,
                      "must return before doing anything (in particular before its ...Virtual hook) when the constraint is disabled")


def loops(chk, P):
    n = 0
    for fn in sorted(P.all_fns(), key=lambda f: (f.file, f.line)):
        if not fn.name.startswith(REP + "::"):
            continue
        short = fn.name.split("::")[-1]
        for h, body in sorted(fn.loops().items()):
            t = fn.blocks[h].get("term")
            if not t or "cond" not in t or t["cond"] is None:
                continue
            c = t["cond"]
            if not sx_find(c, lambda y: (y[0] == "mem" and y[2].endswith("::constraints")) or (y[0] == "call" and y[1].endswith("::getNumConstraints"))):
                continue
            lv = var_of(c[2]) if isinstance(c, list) and len(c) > 2 else None
            n += 1
            inst = "%s@loop(%s)#%d" % (short, lv, sum(1 for hh in fn.loops() if hh >= h and fn.blocks[hh].get("term") and "cond" in fn.blocks[hh]["term"] and fn.blocks[hh]["term"]["cond"] is not None and
                                                   sx_find(fn.blocks[hh]["term"]["cond"], lambda y: y[0] == "mem" and y[2].endswith("::constraints"))))
            site = "%s:%d" % (fn.file, t["line"])
            if short in TABLED:
                chk.ok("GUARD", inst + ":tabled", site, TABLED[short])
                continue
            # uses of constraint cx in the body: calls whose object/args involve constraints[cx] / getConstraint(cx) or a local bound to it
            locals_ = set()
            for b in body:
                for e in fn.blocks[b]["ev"]:
                    if e["k"] == "decl" and e["init"] is not None and sx_find(e["init"], lambda y: y[0] == "var" and y[1] == lv) and \
                            sx_find(e["init"], lambda y: (y[0] == "mem" and y[2].endswith("::constraints")) or (y[0] == "call" and re.search(r"::(getConstraint|getImpl|getConstraintInstanceInfo)$", y[1]))):
                        locals_.add(e["var"])
            uses = []
            for b in body:
                for i, e in enumerate(fn.blocks[b]["ev"]):
                    if e["k"] != "call" or e.get("ctor"):
                        continue
                    nm = str(e.get("fn", ""))
                    if not re.search(r"Constraint", nm) or re.search(r"::(operator|size|getConstraint$|getImpl$|isConstraintDisabled|getNumConstraints)", nm):
                        continue
                    o = call_obj(e)
                    involved = (o is not None and (var_of(o) in locals_ or sx_find(o, lambda y: y[0] == "var" and y[1] in (locals_ | {lv})))) or \
                        any(sx_find(a, lambda y: y[0] == "var" and y[1] in (locals_ | {lv})) for a in call_args(e))
                    if involved:
                        uses.append((b, i, e))
            def is_dis(x):
                return isinstance(x, list) and bool(x) and x[0] == "call" and x[1].endswith("::isConstraintDisabled") and any(var_of(a) == lv for a in x[3])
            tested = any(fn.blocks[bb].get("term") and fn.blocks[bb]["term"].get("cond") is not None and sx_find(fn.blocks[bb]["term"]["cond"], is_dis) for bb in body)
            if tested:
                # (A) value set of isConstraintDisabled(s, cx): whatever the form of the test (early continue, nested if, negation), every use of the
                # constraint must sit where the predicate can only be false
                vs = value_sets(fn, is_dis, {"true", "false"})
                bad = None
                for b, i, e in uses:
                    if vs[b] != {"false"}:
                        bad = e
                chk.judge(bad is None, "GUARD", inst + ":guarded", site,
                          "constraint %s is used (%s) where isConstraintDisabled(s, %s) may be true" % (lv, bad["fn"].split("::")[-1] if bad else "", lv))
            else:
                # (B) only self-guarding callees
                names = sorted(set(e["fn"].split("::")[-1] for _, _, e in uses))
                chk.judge(bool(names) and all(x in SELF_GUARDING for x in names), "GUARD", inst + ":delegates-to-self-guarding", site,
                          "loop has no isConstraintDisabled test and calls %s; only %s return at once for a disabled constraint" % (names, SELF_GUARDING))
    chk.shape(n >= 30, "GUARD", "loops-found>=30", "", "constraint loops found in SimbodyMatterSubsystemRep: %d" % n)


_R = "Simbody/src/SimbodyMatterSubsystemRep.cpp"
_C = "Simbody/src/Constraint.cpp"
MUTATIONS = [
    dict(name="seeded (sub-agent): calcPower dots Ground-frame forces with the Ancestor-frame velocity accessor", arm=True, file=_C,
         old="        const MobilizedBodyIndex mbx = \n            impl.getMobilizedBodyIndexOfConstrainedBody(cbx);\n        const SpatialVec& V_GB = matter.getBodyVelocity(state, mbx);\n        power -= ~bodyF_G[cbx] * V_GB;",
         new="        const SpatialVec& V_B = impl.getBodyVelocityFromState(state, cbx);\n        power -= ~bodyF_G[cbx] * V_B;", expect="POWER:body:velocity-in-Ground"),
    dict(name="mobility power uses the constrained-u index as a global u index", file=_C,
         old="        const UIndex ux = impl.getUIndexOfConstrainedU(state, cux);\n        power -= mobilityF[cux] * u[ux];", new="        power -= mobilityF[cux] * u[cux];", expect="POWER:mobility:same-constrained-u"),
    dict(name="calcConstraintPower sums disabled constraints too", arm=True, file=_R,
         old="        if (isConstraintDisabled(s,cx))\n            continue;\n\n        const Constraint& constraint = getConstraint(cx);\n        power += constraint.calcPower(s);", new="        const Constraint& constraint = getConstraint(cx);\n        power += constraint.calcPower(s);", expect="GUARD:calcConstraintPower"),
    dict(name="ConstraintImpl::realizePosition runs its hook for disabled constraints", arm=True, file=_C,
         old="void ConstraintImpl::realizePosition(const SBStateDigest& sbs) const {\n    const SBInstanceVars& instanceVars  = sbs.getInstanceVars();\n    if (instanceVars.constraintIsDisabled[myConstraintIndex]) return;\n",
         new="void ConstraintImpl::realizePosition(const SBStateDigest& sbs) const {\n", expect="callee:ConstraintImpl::realizePosition"),
    dict(name="multiplyByPVATranspose applies forces of disabled constraints", file=_R,
         old="        if (isConstraintDisabled(s,cx))\n            continue;\n\n        const ConstraintImpl& crep = constraints[cx]->getImpl();\n        const SBInstancePerConstraintInfo& \n                              cInfo = ic.getConstraintInstanceInfo(cx);\n        const int ncb = crep.getNumConstrainedBodies();\n        const int ncu = cInfo.getNumConstrainedU();\n\n        // These have to be zeroed",
         new="        const ConstraintImpl& crep = constraints[cx]->getImpl();\n        const SBInstancePerConstraintInfo& \n                              cInfo = ic.getConstraintInstanceInfo(cx);\n        const int ncb = crep.getNumConstrainedBodies();\n        const int ncu = cInfo.getNumConstrainedU();\n\n        // These have to be zeroed", expect="GUARD:multiplyByPVATranspose"),
]
