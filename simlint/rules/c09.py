"""C09 -- Successful projection lands on the constraint manifold minimally (structural clauses).

What is visible in the shape of projectQ / projectU and is a necessary part of
the property:

ACCURACY   `Succeeded` is reported only on paths where, after the last change to
           the state, the achieved error norm was recomputed and found not greater
           than opts.getRequiredAccuracy(); the norm of the physical constraint
           errors is the weighted one (errors row-scaled by the State's error
           weights), RMS or infinity as selected by the UseInfinityNorm option.
QUATS      after q was changed, success is reached only through
           normalizeQuaternions (unless the model has no quaternions in use).
PRESCRIBED prescribed coordinates are not touched: the update applied to q / u is
           built from the reduced (free-variable) solution through unpackFreeQ/U
           into a zero-initialised full-length vector whenever some variable is
           not free; pack / unpack / zeroKnown use the free, resp. prescribed+zero
           index lists of their level; quaternion normalisation skips mobilizers
           whose q is not Free.
DISPATCH   System::project / projectQ / projectU pass the caller's accuracy as
           the required accuracy, run prescribe -> realize -> project in order, and
           the Guts / MultibodySystem layers hand (state, errEst, options, results)
           through unchanged to the matter subsystem.

Whether the Newton iteration converges, the minimum-norm property of the
least-squares step and the "not changed unless forced" early return (a value
comparison on entry) are numerical and are not decided."""
import re

from ..facts import extract_split, units_matching, Program, AnalysisBroken, sx_find, sx_str, sx_enums
from ..match import ev_write, is_call, call_args, call_obj, field_of, var_of, branch_edges, implied_edges, only_via, implies_any

UNITS = r"/(Simbody/src/(SimbodyMatterSubsystemRep|MultibodySystem)|SimTKcommon/Simulation/src/System)\.cpp$"
HDR = r"/(Simbody/src/(SimbodyMatterSubsystemRep|SimbodyTreeState|MultibodySystemRep)\.h|SimTKcommon/Simulation/include/SimTKcommon/internal/System(Guts)?\.h)$"
REP = "SimbodyMatterSubsystemRep"
LEVEL = {
    "projectQ": dict(X="Q", upd="updQ", get="getQ", err="getQErr", w="getQErrWeights", unpack="unpackFreeQ", nfree="getTotalNumFreeQ", n="getNQ", realize="realizeSubsystemPosition"),
    "projectU": dict(X="U", upd="updU", get="getU", err="getUErr", w="getUErrWeights", unpack="unpackFreeU", nfree="getTotalNumFreeU", n="getNU", realize="realizeSubsystemVelocity"),
}


def run(chk, tier, overlays=()):
    units = units_matching(UNITS)
    P = Program(extract_split(units, hdr=HDR, overlays=overlays))
    chk.units += units
    chk.nfunctions += len(P.fns)
    for fname in sorted(LEVEL):
        f = _one(chk, P, REP + "::" + fname)
        if f:
            accuracy(chk, P, f, fname)
            prescribed_update(chk, P, f, fname)
    quats(chk, P)
    lists(chk, P)
    dispatch(chk, P)
    chk.floor("ACCURACY", 14)
    chk.floor("QUATS", 4)
    chk.floor("PRESCRIBED", 20)
    chk.floor("DISPATCH", 10)
    chk.assumptions += ["convergence of the iteration, the minimum-norm property of the weighted least-squares step, the block-diagonal structure of N (a zero in a prescribed slot stays zero through N*Wu^-1*N^+) "
                        "and the entry test 'already satisfied' are numerical / value comparisons and not decided"]


def _one(chk, P, name):
    fs = P.fns_named(name)
    chk.require(len(fs) >= 1, "anchor vanished: " + name)
    return fs[0] if fs else None


def _last(n):
    return n.split("::")[-1]


def _decls(f):
    return {d["var"]: d for _, _, d in f.events(lambda d: d["k"] == "decl")}


def _norm_of(x):
    """vector variable whose normInf/normRMS the expression computes (both arms of cond(useNormInf, normInf(v), normRMS(v))), else None"""
    cs = sx_find(x, lambda y: y[0] == "call" and re.search(r"::norm(Inf|RMS)$", y[1]))
    vs = {var_of(c[2]) for c in cs}
    kinds = {re.search(r"::norm(Inf|RMS)$", c[1]).group(1) for c in cs}
    if len(vs) == 1 and None not in vs and kinds:
        return next(iter(vs)), kinds
    return None, set()


def _writes(f, spec):
    """events that change the state's q (u): an operator call on updQ(s) / updU(s), or a call of normalizeQuaternions"""
    out = []
    for b, i, e in f.calls():
        if e.get("op") in ("=", "-=", "+=", "*=") and isinstance(e.get("x"), list) and len(e["x"]) > 3 and \
                isinstance(e["x"][2], list) and e["x"][2][0] == "call" and e["x"][2][1].endswith("::" + spec["upd"]):
            out.append((b, i, e, "op"))
        elif str(e.get("fn", "")).endswith("::normalizeQuaternions"):
            out.append((b, i, e, "norm"))
    return out


def _ord(events, e):
    """1-based position of event e among `events` in source order (stable instance key; never a line number)"""
    ls = sorted({(x["line"], x.get("col", 0)) for x in events})
    return ls.index((e["line"], e.get("col", 0))) + 1


def _succeeded(f):
    return [(b, i, e) for b, i, e in f.calls() if str(e.get("fn", "")).endswith("ProjectResults::setExitStatus") and "SimTK::ProjectResults::Succeeded" in sx_enums(e["x"])]


def accuracy(chk, P, f, fname):
    spec = LEVEL[fname]
    chk.rule("ACCURACY", "projectQ / projectU: ProjectResults::Succeeded is set only where every path from the function entry, and every path from the last change of q / u "
             "(an assignment through updQ/updU, or normalizeQuaternions), passes a test `norm <= consAccuracy` (the false side of `norm > consAccuracy`, or `norm == 0`) "
             "on a norm variable that was (re)computed after that change; consAccuracy is opts.getRequiredAccuracy(); the constraint-error norm is normInf / normRMS "
             "(selected by the UseInfinityNorm option) of the errors row-scaled by the State's error weights")
    decls = _decls(f)
    acc = [v for v, d in decls.items() if d.get("init") is not None and sx_find(d["init"], lambda y: y[0] == "call" and y[1].endswith("ProjectOptions::getRequiredAccuracy"))]
    chk.judge(len(acc) == 1, "ACCURACY", fname + ":required-accuracy-from-options", f.loc, "accuracy variable(s) %s come from opts.getRequiredAccuracy()" % acc)
    if len(acc) != 1:
        return
    A = acc[0]
    # nobody reassigns it
    chk.judge(not [e for _, _, e in f.events(lambda e: e["k"] == "assign" and var_of(e["lhs"]) == A)], "ACCURACY", fname + ":accuracy-not-reassigned", f.loc, "%s is never reassigned" % A)

    def le(c):   # X <= A
        return isinstance(c, list) and c[0] == "op" and c[1] == "<=" and var_of(c[3]) == A and var_of(c[2]) is not None
    def zero(c):
        return isinstance(c, list) and c[0] == "op" and c[1] == "==" and isinstance(c[3], list) and c[3][0] == "lit" and c[3][1] in ("0", "0.0") and var_of(c[2]) is not None
    def gt(c):
        return isinstance(c, list) and c[0] == "op" and c[1] == ">" and var_of(c[3]) == A and var_of(c[2]) is not None
    # edges on which "some norm <= A" is known, with the norm variable
    E = {}
    for bb, tt in implied_edges(f, [le, zero]):
        c = f.blocks[bb]["term"]["cond"]
        vs = {var_of(y[2]) for y in sx_find(c, lambda y: le(y) or zero(y))}
        E[(bb, tt)] = vs
    for bb, blk in f.blocks.items():
        t = blk.get("term")
        if t and t.get("cond") is not None and t["k"] in ("if", "while", "for", "do") and gt(t["cond"]) and len(blk["succ"]) > 1 and blk["succ"][1] >= 0:
            E[(bb, blk["succ"][1])] = {var_of(t["cond"][2])}
    S = _succeeded(f)
    chk.shape(len(S) >= 1, "ACCURACY", fname + ":success-sites", f.loc, "%d sites set Succeeded" % len(S))
    W = _writes(f, spec)
    # norm variable definitions
    def norm_defs(v):
        out = []
        for b, i, e in f.events(lambda e: (e["k"] == "assign" and var_of(e["lhs"]) == v) or (e["k"] == "decl" and e["var"] == v)):
            out.append((b, i, e))
        return out

    def lambda_norm_defs(v):
        """calls of a local lambda of this function that, on every path through its body, assigns v from a norm (by-reference capture):
        the recomputation extracted into a local helper is still a recomputation"""
        out = []
        for b, i, e in f.calls():
            if not str(e.get("fn", "")).startswith("lambda@"):
                continue
            for g in P.by_id.get(e.get("fid"), []):
                if g.d.get("parent") != f.id or not g.blocks:
                    continue
                isdef = lambda q: q["k"] == "assign" and var_of(q["lhs"]) == v and _norm_of(q.get("rhs"))[0]
                if any(True for _ in g.events(isdef)) and g.path_exists(None, "exit", isdef) is None:
                    out.append(e)
        return out
    for n, (sb, si, se) in enumerate(S):
        site = "%s:%d" % (f.file, se["line"])
        chk.judge(only_via(f, sb, set(E)), "ACCURACY", "%s:success#%d:tested-against-accuracy" % (fname, n), site,
                  "every path to this success report passes a `norm <= %s` test" % A)
        for wb, wi, we, kind in W:
            if f.path_exists((wb, wi), lambda q: q is se, lambda q: False) is None:
                continue
            # fresh edges: the tested variable is recomputed (from a norm) on every path from the write to the test
            fresh = set()
            for (bb, tt), vs in E.items():
                okv = False
                for v in vs:
                    defs = [e for _, _, e in norm_defs(v) if _norm_of(e.get("rhs") if e["k"] == "assign" else e.get("init"))[0]] + lambda_norm_defs(v)
                    tb = f.blocks[bb]
                    goal_ev = tb["ev"][0] if tb["ev"] else None
                    # path from the write to the test block avoiding every norm definition of v
                    p = _block_path(f, (wb, wi), bb, lambda q: any(q is d for d in defs))
                    if defs and p is None:
                        okv = True
                if okv:
                    fresh.add((bb, tt))
            p = f.path_exists((wb, wi), lambda q: q is se, lambda q: False, avoid_edges=fresh)
            chk.judge(p is None, "ACCURACY", "%s:success#%d:retested-after-%s#%d" % (fname, n, "normalizeQuaternions" if kind == "norm" else "state-change", _ord([x[2] for x in W if x[3] == kind], we)), site,
                      "after the state change at line %d success is reported without re-evaluating the error norm against %s" % (we["line"], A), p)
    # weighted norm: every norm definition of a variable tested against A is a norm of a vector that is errors.rowScale(weights) (or of the unweighted quaternion errors)
    tested = set()
    for vs in E.values():
        tested |= vs
    for v in sorted(tested):
        nd = [x[2] for x in norm_defs(v)]
        for b, i, e in norm_defs(v):
            x = e.get("rhs") if e["k"] == "assign" else e.get("init")
            vec, kinds = _norm_of(x)
            dn = _ord(nd, e)
            if vec is None:
                if isinstance(x, list) and x[0] == "var" and x[1] in decls:   # copy of another tested / entry norm
                    continue
                continue
            site = "%s:%d" % (f.file, e["line"])
            # selection by the option
            sel = sx_find(x, lambda y: y[0] == "cond" and var_of(y[1]) is not None)
            okopt = kinds == {"Inf", "RMS"} and bool(sel) and bool(sx_find(decls.get(var_of(sel[0][1]), {}).get("init") or [], lambda y: y[0] == "enum" and y[1].endswith("ProjectOptions::UseInfinityNorm")))
            chk.judge(okopt, "ACCURACY", "%s:%s#%d:norm-kind-by-option" % (fname, v, dn), site, "normInf when UseInfinityNorm is set, normRMS otherwise (found %s)" % sorted(kinds))
            vdefs = [d for _, _, d in f.events(lambda d: (d["k"] == "decl" and d["var"] == vec) or (d["k"] == "assign" and var_of(d["lhs"]) == vec))]
            vinit = [(d.get("init") if d["k"] == "decl" else d.get("rhs")) for d in vdefs]
            # class-type vectors are (re)assigned through operator= calls
            vinit += [c["x"][3] for _, _, c in f.calls() if c.get("op") == "=" and isinstance(c.get("x"), list) and len(c["x"]) > 3 and var_of(c["x"][2]) == vec]
            scaled = [bool(sx_find(x2, lambda y: y[0] == "call" and y[1].endswith("::rowScale"))) for x2 in vinit if x2 is not None]
            if scaled and all(scaled):
                wv = set()
                ev_ = set()
                for x2 in vinit:
                    for c in sx_find(x2, lambda y: y[0] == "call" and y[1].endswith("::rowScale")):
                        ev_.add(var_of(c[2]))
                        wv |= {var_of(a) for a in c[3]}
                okw = all(w in decls and sx_find(decls[w].get("init") or [], lambda y: y[0] == "call" and y[1].endswith("::" + spec["w"])) for w in wv) and \
                    all(x3 in decls and sx_find(decls[x3].get("init") or [], lambda y: y[0] == "call" and y[1].endswith("::" + spec["err"])) for x3 in ev_)
                chk.judge(okw, "ACCURACY", "%s:%s#%d:weighted-errors" % (fname, v, dn), site, "norm of %s = %s.rowScale(%s): errors from %s, weights from %s" % (vec, sorted(ev_), sorted(wv), spec["err"], spec["w"]))
            else:
                # unweighted: allowed only for the quaternion errors (documented: "We don't weight the quaternion errors")
                okq = fname == "projectQ" and vec in decls and bool(sx_find(decls[vec].get("init") or [], lambda y: y[0] == "call" and y[1].endswith("::" + spec["err"]))) and \
                    bool(sx_find(decls[vec]["init"], lambda y: y[0] == "var" and y[1] in decls and
                                 bool(sx_find(decls[y[1]].get("init") or [], lambda z: z[0] == "call" and z[1].endswith("::getNumQuaternionsInUse")))))
                chk.judge(okq, "ACCURACY", "%s:%s#%d:unweighted-only-quaternion-errors" % (fname, v, dn), site,
                          "an unweighted norm is taken only of the quaternion segment of qerr (vector %s)" % vec)


def _block_path(f, start, goal_block, avoid):
    """block path from just after event `start` to the start of goal_block avoiding events satisfying avoid, or None"""
    b0, i0 = start
    infeas = f.infeasible_edges()
    evs = f.blocks[b0]["ev"]
    for j in range(i0 + 1, len(evs)):
        if avoid(evs[j]):
            return None
    if b0 == goal_block:
        return [b0]
    seen = set()
    st = [s for s in f.succs(b0) if (b0, s) not in infeas]
    while st:
        b = st.pop()
        if b in seen:
            continue
        seen.add(b)
        if any(avoid(e) for e in f.blocks[b]["ev"]):
            continue
        if b == goal_block:
            return [b]
        for s in f.succs(b):
            if (b, s) not in infeas:
                st.append(s)
    return None


def quats(chk, P):
    chk.rule("QUATS", "projectQ: from every change of q made by the iteration, success is reached only through normalizeQuaternions, except on the branch taken when "
             "getNumQuaternionsInUse() is 0; normalizeQuaternions visits every mobilizer of every level, calls enforceQuaternionConstraints on the State's q and re-realizes positions")
    f = _one(chk, P, REP + "::projectQ")
    if not f:
        return
    decls = _decls(f)
    S = _succeeded(f)
    W = [(b, i, e) for b, i, e, k in _writes(f, LEVEL["projectQ"]) if k == "op"]
    noq = set()
    for bb, blk in f.blocks.items():
        t = blk.get("term")
        if t and t.get("cond") is not None and t["k"] == "if" and var_of(t["cond"]) in decls and len(blk["succ"]) > 1 and \
                sx_find(decls[var_of(t["cond"])].get("init") or [], lambda y: y[0] == "call" and y[1].endswith("::getNumQuaternionsInUse")):
            noq.add((bb, blk["succ"][1]))
    chk.judge(bool(noq), "QUATS", "no-quaternion-branch", f.loc, "the only way round normalisation is the `if (mQuats)` test on getNumQuaternionsInUse()")
    n = 0
    for wb, wi, we in W:
        for sb, si, se in S:
            if f.path_exists((wb, wi), lambda q: q is se, lambda q: False) is None:
                continue
            n += 1
            p = f.path_exists((wb, wi), lambda q: q is se, lambda q: q["k"] == "call" and str(q.get("fn", "")).endswith("::normalizeQuaternions"), avoid_edges=noq)
            chk.judge(p is None, "QUATS", "projectQ:q-change#%d->success#%d:normalized" % (_ord([x[2] for x in W], we), _ord([x[2] for x in S], se)), "%s:%d" % (f.file, we["line"]),
                      "q is changed at line %d and success reported at line %d without normalizing the quaternions" % (we["line"], se["line"]), p)
    chk.shape(n >= 1, "QUATS", "projectQ:change-to-success-paths", f.loc, "%d (change, success) pairs examined" % n)
    g = _one(chk, P, REP + "::normalizeQuaternions")
    if g:
        gd = _decls(g)
        calls = [(b, i, e) for b, i, e in g.calls() if str(e.get("fn", "")).endswith("::enforceQuaternionConstraints")]
        okc = len(calls) == 1
        if okc:
            b, i, e = calls[0]
            qv = [var_of(a) for a in call_args(e)]
            okc = any(v in gd and sx_find(gd[v].get("init") or [], lambda y: y[0] == "call" and y[1].endswith("::updQ")) for v in qv if v)
            lp = [h for h, body in g.loops().items() if b in body]
            okc = okc and len(lp) >= 2
        chk.judge(okc, "QUATS", "normalizeQuaternions:every-node-on-state-q", g.loc, "enforceQuaternionConstraints is applied to updQ(s) inside the level/node double loop")
        rp = [e for _, _, e in g.calls() if str(e.get("fn", "")).endswith("::realizeSubsystemPosition")]
        chk.judge(len(rp) == 1 and g.path_exists(None, "exit", lambda q: q is rp[0]) is None, "QUATS", "normalizeQuaternions:re-realizes-position", g.loc,
                  "qerr / qnorm are recomputed before returning (the caller then tests the new quaternion error norm)")


def prescribed_update(chk, P, f, fname):
    spec = LEVEL[fname]
    X = spec["X"]
    chk.rule("PRESCRIBED", "prescribed (non-free) coordinates keep their values: in projectQ / projectU every vector subtracted from or added to the state derives from the reduced "
             "solution only through unpackFreeQ/U into a vector that was zero-initialised when hasPrescribedMotion, the reduced solution being used at full length only on the "
             "!hasPrescribedMotion branch, with hasPrescribedMotion = (number of free variables != number of variables); a plain assignment restores a saved copy of the state vector; "
             "unpackFree / packFree address the full-length vector through the free index list of their level and zeroKnown through the prescribed and zero lists; "
             "normalizeQuaternions skips mobilizers whose qMethod is not Free")
    decls = _decls(f)
    hp = [v for v, d in decls.items() if isinstance(d.get("init"), list) and d["init"][0] == "op" and d["init"][1] == "!=" and
          {var_of(d["init"][2]), var_of(d["init"][3])} <= set(decls) and var_of(d["init"][2]) and var_of(d["init"][3])]
    okhp = False
    H = None
    for v in hp:
        a, b = var_of(decls[v]["init"][2]), var_of(decls[v]["init"][3])
        ia, ib = sx_str(decls[a].get("init")), sx_str(decls[b].get("init"))
        if (spec["nfree"] in ia and spec["n"] in ib) or (spec["nfree"] in ib and spec["n"] in ia):
            okhp, H = True, v
    chk.judge(okhp, "PRESCRIBED", fname + ":hasPrescribedMotion=(nfree!=n)", f.loc, "the flag compares %s() with %s()" % (spec["nfree"], spec["n"]))
    if not H:
        return
    t_edges = implied_edges(f, [lambda c: var_of(c) == H and isinstance(c, list) and c[0] == "var"])
    f_edges = {(bb, blk["succ"][1]) for bb, blk in f.blocks.items() if blk.get("term") and blk["term"].get("cond") is not None and blk["term"]["k"] in ("if", "cond") and
               isinstance(blk["term"]["cond"], list) and blk["term"]["cond"][0] == "var" and blk["term"]["cond"][1] == H and len(blk["succ"]) > 1 and blk["succ"][1] >= 0}
    # the reduced solution: the vector sized by the free count that receives FactorQTZ::solve
    sol = set()
    for b, i, e in f.calls():
        if str(e.get("fn", "")).endswith("::solve") and len(call_args(e)) >= 2:
            v = var_of(call_args(e)[1])
            if v in decls and sx_find(decls[v].get("init") or [], lambda y: y[0] == "var" and y[1] in decls and spec["nfree"] in sx_str(decls[y[1]].get("init"))):
                sol.add(v)
    chk.shape(len(sol) == 1, "PRESCRIBED", fname + ":reduced-solution", f.loc, "reduced (free-variable) solution vector(s): %s" % sorted(sol))
    if len(sol) != 1:
        return
    R = next(iter(sol))
    # every use of R as a call argument / operand other than solve-output, norm and unpack is on the !H side
    uses = []
    for b, i, e in f.calls():
        fn = str(e.get("fn", ""))
        parts = list(call_args(e)) + ([call_obj(e)] if call_obj(e) is not None else [])
        if not any(var_of(a) == R or sx_find(a, lambda y: y[0] == "var" and y[1] == R) for a in parts):
            continue
        if re.search(r"::(solve|norm(RMS|Inf)|size|" + spec["unpack"] + r")$", fn):
            continue
        uses.append((b, i, e))
    for n, (b, i, e) in enumerate(uses):
        chk.judge(only_via(f, b, f_edges), "PRESCRIBED", "%s:full-length-use-of-%s@%s#%d" % (fname, R, _last(e["fn"]), n), "%s:%d" % (f.file, e["line"]),
                  "the reduced solution %s is used as a full-length vector (%s) only when nothing is prescribed" % (R, _last(e["fn"])))
    ups = [(b, i, e) for b, i, e in f.calls() if str(e.get("fn", "")).endswith("::" + spec["unpack"])]
    chk.shape(len(ups) >= 1, "PRESCRIBED", fname + ":unpack-sites", f.loc, "%d calls of %s" % (len(ups), spec["unpack"]))
    targets = set()
    for n, (b, i, e) in enumerate(ups):
        a = call_args(e)
        targets.add(var_of(a[2]))
        chk.judge(var_of(a[1]) == R and only_via(f, b, t_edges), "PRESCRIBED", "%s:%s#%d:(reduced)->full,under-hasPrescribedMotion" % (fname, spec["unpack"], n), "%s:%d" % (f.file, e["line"]),
                  "%s(s, %s, %s)" % (spec["unpack"], sx_str(a[1]), sx_str(a[2])))
    # zero-initialised target when hasPrescribedMotion: setToZero() on the target dominates the unpack and is not itself under !H
    for tv in sorted(t for t in targets if t):
        z = [(b, i, e) for b, i, e in f.calls() if str(e.get("fn", "")).endswith("::setToZero") and var_of(call_obj(e)) == tv]
        okz = bool(z) and all(f.path_exists(None, lambda q, e=e: q is e, lambda q: any(q is zz[2] for zz in z), avoid_edges=f_edges) is None for _, _, e in ups if var_of(call_args(e)[2]) == tv)
        chk.judge(okz, "PRESCRIBED", "%s:%s-zeroed-before-unpack" % (fname, tv), f.loc,
                  "%s does not touch prescribed slots, so %s must be set to zero before it is used when something is prescribed" % (spec["unpack"], tv))
    # provenance of the vector applied to the state
    for b, i, e, kind in _writes(f, spec):
        if kind != "op":
            continue
        rhs = e["x"][3]
        v = var_of(rhs)
        site = "%s:%d" % (f.file, e["line"])
        if e["op"] == "=":
            d = decls.get(v)
            chk.judge(bool(d) and bool(sx_find(d.get("init") or [], lambda y: y[0] == "call" and y[1].endswith("::" + spec["get"]))) and str(d.get("ty", "")).startswith("const"), "PRESCRIBED",
                      "%s:restore#%d<-saved-copy" % (fname, _ord([x[2] for x in _writes(f, spec) if x[3] == "op"], e)), site, "plain assignment to the state restores a const copy taken from %s" % spec["get"])
            continue
        chain = _provenance(f, v, targets | {R})
        chk.judge(chain is not None and chain[-1] in targets | {R}, "PRESCRIBED", "%s:update#%d:derives-from-unpacked-solution" % (fname, _ord([x[2] for x in _writes(f, spec) if x[3] == "op"], e)), site,
                  "the update vector %s derives from %s" % (v, " <- ".join(chain) if chain else "an unknown source"))


def _provenance(f, v, sources, depth=6):
    """chain v <- a <- b ... of out-parameter style definitions (last argument written from the one before) ending in a source vector"""
    chain = [v]
    cur = v
    for _ in range(depth):
        if cur in sources:
            return chain
        nxt = set()
        for b, i, e in f.calls():
            a = call_args(e)
            if len(a) >= 2 and var_of(a[-1]) == cur and re.search(r"::(multiplyByN|multiplyByNInv|" + "unpackFreeQ|unpackFreeU" + r")$", str(e.get("fn", ""))):
                nxt.add(var_of(a[-2]))
            if e.get("op") == "=" and isinstance(e.get("x"), list) and var_of(e["x"][2]) == cur:
                for y in sx_find(e["x"][3], lambda y: y[0] == "var"):
                    nxt.add(y[1])
        nxt.discard(None)
        if not nxt:
            return None
        # every definition must lead to a source; follow each
        if all(n in sources for n in nxt):
            return chain + sorted(nxt)
        cand = [n for n in nxt if n not in sources]
        if len(cand) != 1:
            return None
        cur = cand[0]
        chain.append(cur)
    return None


def lists(chk, P):
    table = {
        "packFreeQ": ("getFreeQIndex",), "unpackFreeQ": ("getFreeQIndex",), "packFreeU": ("getFreeUIndex",), "unpackFreeU": ("getFreeUIndex",),
        "zeroKnownQ": ("getPresQIndex", "getZeroQIndex"), "zeroKnownU": ("getPresUIndex", "getZeroUIndex"),
    }
    getters = {"getFreeQIndex": "freeQ", "getFreeUIndex": "freeU", "getPresQIndex": "presQ", "getZeroQIndex": "zeroQ", "getPresUIndex": "presU", "getZeroUIndex": "zeroU"}
    for name, lists_ in sorted(table.items()):
        f = _one(chk, P, REP + "::" + name)
        if not f:
            continue
        decls = _decls(f)
        lv = {v: _last(c[1]) for v, d in decls.items() for c in sx_find(d.get("init") or [], lambda y: y[0] == "call" and _last(y[1]) in getters)}
        chk.judge(sorted(lv.values()) == sorted(lists_), "PRESCRIBED", "%s:lists=%s" % (name, "+".join(lists_)), f.loc, "index lists consulted: %s" % sorted(lv.values()))
        # every subscripted write to a full-length vector goes through one of the lists; each list is used by a write
        used = set()
        full = {p[0] for p in f.d.get("params", [])} - {"s"}
        bad = []
        for b, i, e in f.events(lambda e: e["k"] == "assign" and isinstance(e["lhs"], list) and e["lhs"][0] in ("opc", "idx")):
            idx = e["lhs"][3] if e["lhs"][0] == "opc" else e["lhs"][2]
            vs = [y[1] for y in sx_find(idx, lambda y: y[0] == "var")]
            through = [v for v in vs if v in lv]
            is_packed_side = name.startswith("pack")
            if through:
                used |= {lv[v] for v in through}
                if is_packed_side:
                    bad.append(e)       # packing must index the *source* through the list, not the destination
            elif name.startswith(("unpack", "zeroKnown")):
                bad.append(e)
            if name.startswith("zeroKnown") and not (isinstance(e["rhs"], list) and e["rhs"][0] == "lit" and e["rhs"][1] == "0"):
                bad.append(e)
            if is_packed_side:
                r = sx_find(e["rhs"], lambda y: y[0] == "var" and y[1] in lv)
                if r:
                    used |= {lv[y[1]] for y in r}
                else:
                    bad.append(e)
        chk.judge(not bad and used == set(lists_), "PRESCRIBED", "%s:addresses-through-%s" % (name, "+".join(getters[l] for l in lists_)), f.loc,
                  "%d writes do not follow the list discipline; lists used by writes: %s" % (len(bad), sorted(used)))
        # loop bounds are the sizes of the same lists
        for h, body in sorted(f.loops().items()):
            t = f.blocks[h].get("term")
            if not t or t.get("cond") is None:
                continue
            bv = var_of(t["cond"][3]) if isinstance(t["cond"], list) and len(t["cond"]) > 3 else None
            d = decls.get(bv)
            szof = [var_of(c[2]) for c in sx_find(d.get("init") or [], lambda y: y[0] == "call" and y[1].endswith("::size"))] if d else []
            lists_in_body = set()
            for bb in body:
                for e in f.blocks[bb]["ev"]:
                    if e["k"] == "assign":
                        for y in sx_find(e["lhs"], lambda y: y[0] == "var" and y[1] in lv) + sx_find(e.get("rhs") or [], lambda y: y[0] == "var" and y[1] in lv):
                            lists_in_body.add(y[1])
            chk.judge(len(lists_in_body) == 1 and szof == sorted(lists_in_body), "PRESCRIBED", "%s:loop#%d:bound=size-of-its-list" % (name, sorted(f.blocks[hh]["term"]["line"] for hh in f.loops() if f.blocks[hh].get("term")).index(t["line"]) + 1), "%s:%d" % (f.file, t["line"]),
                      "loop over %s is bounded by the size of %s" % (sorted(lists_in_body), szof))
    for g, lst in sorted(getters.items()):
        fs = P.fns_named(REP + "::" + g)
        chk.require(bool(fs), "anchor vanished: " + g)
        for f in fs:
            r = [e for _, _, e in f.events(lambda e: e["k"] == "ret")]
            chk.judge(len(r) == 1 and bool(sx_find(r[0].get("val"), lambda y: y[0] == "mem" and _last(y[2]) == lst)), "PRESCRIBED", "%s->%s" % (g, lst), f.loc, "returns %s" % (sx_str(r[0].get("val")) if r else None))
    f = _one(chk, P, REP + "::normalizeQuaternions")
    if f:
        calls = [(b, i, e) for b, i, e in f.calls() if str(e.get("fn", "")).endswith("::enforceQuaternionConstraints")]
        skip = set()
        for bb, blk in f.blocks.items():
            t = blk.get("term")
            if t and t.get("cond") is not None and t["k"] == "if" and isinstance(t["cond"], list) and t["cond"][0] == "op" and t["cond"][1] == "!=" and \
                    sx_find(t["cond"][2], lambda y: y[0] == "mem" and _last(y[2]) == "qMethod") and "SimTK::Motion::Free" in sx_enums(t["cond"][3]) and len(blk["succ"]) > 1:
                skip.add((bb, blk["succ"][1]))
        free_true = implied_edges(f, [lambda c: isinstance(c, list) and c[0] == "op" and c[1] == "==" and bool(sx_find(c[2], lambda y: y[0] == "mem" and _last(y[2]) == "qMethod")) and
                                      "SimTK::Motion::Free" in sx_enums(c[3])])
        ok = bool(calls) and all(only_via(f, b, skip | free_true) for b, _, _ in calls)
        # and the info consulted is the node's own
        chk.judge(ok, "PRESCRIBED", "normalizeQuaternions:only-Free-q", f.loc, "enforceQuaternionConstraints is reached only for mobilizers whose qMethod is Motion::Free")
        d = _decls(f)
        mi = [v for v, dd in d.items() if sx_find(dd.get("init") or [], lambda y: y[0] == "mem" and _last(y[2]) == "mobodInstanceInfo")]
        oki = len(mi) == 1 and bool(sx_find(d[mi[0]]["init"], lambda y: y[0] == "call" and y[1].endswith("::getNodeNum") and var_of(y[2]) == (var_of(call_obj(calls[0][2])) if calls else None)))
        chk.judge(oki, "PRESCRIBED", "normalizeQuaternions:info-of-the-same-node", f.loc, "the qMethod consulted belongs to the node being normalised")


def dispatch(chk, P):
    chk.rule("DISPATCH", "System::project / projectQ / projectU(state, accuracy) build ProjectOptions from the caller's accuracy (the constructor stores it as the required accuracy), "
             "run prescribeQ after realize(Time), projectQ after realize(Position), prescribeU before realize(Velocity) and projectU after it; System, System::Guts and "
             "MultibodySystemRep pass (state, errEst, options, results) through unchanged, and the system is re-realized after the matter subsystem projected")
    S = "SimTK::System"
    order = {
        "project": ["realize:Time", "prescribeQ", "realize:Position", "projectQ", "prescribeU", "realize:Velocity", "projectU"],
        "projectQ": ["realize:Time", "prescribeQ", "realize:Position", "projectQ"],
        "projectU": ["realize:Position", "prescribeU", "realize:Velocity", "projectU"],
    }
    for name, seq in sorted(order.items()):
        fs = [f for f in P.fns_named(S + "::" + name) if len(f.d.get("params", [])) == 2]
        chk.shape(len(fs) == 1, "DISPATCH", "System::%s(state,accuracy):found" % name, "", "convenience overload found: %d" % len(fs))
        for f in fs:
            decls = _decls(f)
            accp = f.d["params"][1][0]
            po = [v for v, d in decls.items() if "ProjectOptions" in str(d.get("ty", "")) and sx_find(d.get("init") or [], lambda y: y[0] == "var" and y[1] == accp)]
            chk.judge(len(po) == 1, "DISPATCH", "System::%s:options(accuracy)" % name, f.loc, "ProjectOptions constructed from the accuracy argument")
            got = []
            for b in _linear_blocks(f):
                for e in f.blocks[b]["ev"]:
                    if e["k"] != "call":
                        continue
                    n = _last(str(e.get("fn", "")))
                    if n == "realize":
                        got.append("realize:" + ",".join(_last(x) for x in sx_enums(e["x"])))
                    elif n in ("prescribeQ", "prescribeU", "projectQ", "projectU"):
                        got.append(n)
                        if n.startswith("project"):
                            a = call_args(e)
                            chk.judge(len(a) == 4 and var_of(a[2]) in po, "DISPATCH", "System::%s:%s-gets-the-options" % (name, n), "%s:%d" % (f.file, e["line"]), "options argument is %s" % (sx_str(a[2]) if len(a) > 2 else None))
            chk.judge(got == seq, "DISPATCH", "System::%s:order" % name, f.loc, "sequence %s (required %s)" % (got, seq))
    g = P.fns_named("SimTK::ProjectOptions::ProjectOptions")
    okc = False
    for f in g:
        ps = f.d.get("params", [])
        if len(ps) == 1 and ps[0][1] in ("SimTK::Real", "double"):
            okc = any(str(e.get("fn", "")).endswith("::setRequiredAccuracy") and var_of(call_args(e)[0]) == ps[0][0] for _, _, e in f.calls())
    chk.judge(okc, "DISPATCH", "ProjectOptions(accuracy)->setRequiredAccuracy", g[0].loc if g else "", "the constructor stores its argument as the required accuracy")
    for cls, name, callee in (("SimTK::System", "projectQ", "projectQ"), ("SimTK::System", "projectU", "projectU"),
                              ("SimTK::System::Guts", "projectQ", "projectQImpl"), ("SimTK::System::Guts", "projectU", "projectUImpl"),
                              ("MultibodySystemRep", "projectQImpl", "projectQ"), ("MultibodySystemRep", "projectUImpl", "projectU")):
        fs = [f for f in P.fns_named(cls + "::" + name) if len(f.d.get("params", [])) == 4]
        if not fs:
            fs = [f for f in P.all_fns() if f.name.endswith(cls + "::" + name) and len(f.d.get("params", [])) == 4]
        chk.require(bool(fs), "anchor vanished: %s::%s(4 args)" % (cls, name))
        for f in fs:
            ps = [p[0] for p in f.d["params"]]
            cs = [e for _, _, e in f.calls() if _last(str(e.get("fn", ""))) == callee and len(call_args(e)) == 4]
            ok = len(cs) == 1 and [var_of(a) for a in call_args(cs[0])] == ps and f.path_exists(None, "exit", lambda q: q is cs[0]) is None
            chk.judge(ok, "DISPATCH", "%s::%s->%s(pass-through)" % (_last(cls), name, callee), f.loc, "calls %s with %s" % (callee, [sx_str(a) for c in cs for a in call_args(c)]))
            if cls == "MultibodySystemRep" and cs:
                st = "Position" if name == "projectQImpl" else "Velocity"
                rz = [e for _, _, e in f.calls() if _last(str(e.get("fn", ""))) == "realize" and [_last(x) for x in sx_enums(e["x"])] == [st]]
                ok2 = len(rz) == 1 and f.path_exists(None, lambda q: q is rz[0], lambda q: q is cs[0]) is None and f.path_exists(None, "exit", lambda q: q is rz[0]) is None
                chk.judge(ok2, "DISPATCH", "MultibodySystemRep::%s:realize(%s)-after-projection" % (name, st), f.loc, "the whole system is realized to %s after the matter subsystem projected" % st)


def _linear_blocks(f):
    """blocks in execution order for a straight-line function (entry to exit following the only feasible successor)"""
    out, b, seen = [], f.entry, set()
    infeas = f.infeasible_edges()
    while b is not None and b not in seen:
        seen.add(b)
        out.append(b)
        ss = [s for s in f.succs(b) if (b, s) not in infeas]
        b = ss[0] if len(ss) == 1 else None
    return out


_R = "Simbody/src/SimbodyMatterSubsystemRep.cpp"
_S = "SimTKcommon/Simulation/src/System.cpp"
MUTATIONS = [
    dict(name="quaternion norm after the final normalisation compared with the projection limit", arm=True, file=_R,
         old="        if (quatNormAchieved > consAccuracy) {\n            results.setNormOnExit(quatNormAchieved);", new="        if (quatNormAchieved > opts.getProjectionLimit()) {\n            results.setNormOnExit(quatNormAchieved);",
         expect="ACCURACY:projectQ:success#1:retested-after-normalizeQuaternions"),
    dict(name="projectU fails only when the iteration diverged", file=_R,
         old="    if (pverrNormAchieved > consAccuracy) {\n        if (pverrNormAchieved >= pverrNormOnEntry) { // made it worse", new="    if (diverged) {\n        if (pverrNormAchieved >= pverrNormOnEntry) { // made it worse",
         expect="ACCURACY:projectU:success#1"),
    dict(name="position error norm taken of the unweighted errors inside the iteration", file=_R,
         old="        scaledPerrs = pErrs.rowScale(perrWeights); // Tp * pErrs\n        perrNormAchieved = useNormInf ? scaledPerrs.normInf()\n                                      : scaledPerrs.normRMS();\n        ++nItsUsed;",
         new="        scaledPerrs = pErrs; // Tp * pErrs\n        perrNormAchieved = useNormInf ? scaledPerrs.normInf()\n                                      : scaledPerrs.normRMS();\n        ++nItsUsed;",
         expect="ACCURACY:projectQ:perrNormAchieved#"),
    dict(name="final quaternion normalisation dropped", file=_R,
         old="        const bool anyQuatChange = normalizeQuaternions(s,qErrest);\n        if (anyQuatChange) results.setAnyChangeMade(true);", new="        const bool anyQuatChange = false;\n        if (anyQuatChange) results.setAnyChangeMade(true);",
         expect="QUATS:projectQ:q-change#"),
    dict(name="normalizeQuaternions also renormalises prescribed quaternions", arm=True, file=_R,
         old="            if (mobodInfo.qMethod != Motion::Free)\n                continue;\n\n            if (node.enforceQuaternionConstraints(sbs,q,qErrest))", new="            if (node.enforceQuaternionConstraints(sbs,q,qErrest))",
         expect="PRESCRIBED:normalizeQuaternions:only-Free-q"),
    dict(name="projectU update vector no longer zeroed in the prescribed slots", file=_R,
         old="    if (hasPrescribedMotion)\n        du.setToZero(); // must initialize unwritten elements\n", new="", expect="PRESCRIBED:projectU:du-zeroed-before-unpack"),
    dict(name="projectQ feeds the reduced solution to N^-1 although coordinates are prescribed", file=_R,
         old="            unpackFreeQ(s, dfq_WLS, udfq_WLS); // zeroes in q_p slots\n            multiplyByNInv(s,false,udfq_WLS,du);\n        } else {\n            multiplyByNInv(s,false,dfq_WLS,du);\n        }\n        // Here du = du_WLS = N^+ * dq_WLS\n        du.rowScaleInPlace(uAbsScale); // Now du",
         new="            unpackFreeQ(s, dfq_WLS, udfq_WLS); // zeroes in q_p slots\n            multiplyByNInv(s,false,dfq_WLS,du);\n        } else {\n            multiplyByNInv(s,false,dfq_WLS,du);\n        }\n        // Here du = du_WLS = N^+ * dq_WLS\n        du.rowScaleInPlace(uAbsScale); // Now du",
         expect="PRESCRIBED:projectQ:full-length-use-of-dfq_WLS"),
    dict(name="unpackFreeU writes the packed order into the full vector", file=_R,
         old="            unpackedFreeUp[freeUX[i]] = packedFreeUp[i];", new="            unpackedFreeUp[i] = packedFreeUp[i];", expect="PRESCRIBED:unpackFreeU:addresses-through-freeU"),
    dict(name="System::project prescribes u after realizing velocities", file=_S,
         old="    prescribeU(state);\n    realize(state, Stage::Velocity);\n    projectU(state, noErrEst, projOptions, projResults);\n}\n\nvoid System::projectQ(State& state, Real accuracy) const {",
         new="    realize(state, Stage::Velocity);\n    prescribeU(state);\n    projectU(state, noErrEst, projOptions, projResults);\n}\n\nvoid System::projectQ(State& state, Real accuracy) const {",
         expect="DISPATCH:System::project:order"),
    dict(name="System::projectU ignores the caller's accuracy", arm=True, file=_S,
         old="void System::projectU(State& state, Real accuracy) const {\n    const ProjectOptions projOptions(accuracy);", new="void System::projectU(State& state, Real accuracy) const {\n    const ProjectOptions projOptions;",
         expect="DISPATCH:System::projectU:options(accuracy)"),
]
