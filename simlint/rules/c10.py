"""C10 -- Prescribed motion and locks are honoured exactly (structural clauses).

The prescribed / zero / free bookkeeping is a chain of tables that writers and
readers must agree on, level by level (q, u, udot):

  lock()/lockAt()/unlock(), Motion::disable()/enable()   (Instance-stage variable)
    -> realizeSubsystemInstanceImpl: lock level / Motion -> (qMethod,uMethod,udotMethod)
       -> index lists presX / zeroX / freeX and pool offsets firstPresX      (PARTITION, LOCKMAP)
    -> MobilizedBodyImpl::realizeTime / realizePosition / realizeDynamics
       fill presQPool / presUPool / presUDotPool from the lock values or the
       Motion's calcPrescribed* routine of that level                          (FILL)
    -> prescribeQ / prescribeU copy pool -> state, zero lists -> 0             (APPLY)
    -> Motion::Custom forwards each calcPrescribedX to the user's routine X    (FORWARD)

A slip in any of these tables (a case pushing onto the wrong list, a pool read
with the wrong offset, the velocity-level lock values copied from lockedQs, a
forwarder calling its neighbour) makes some prescribed coordinate take a value
other than the prescribed one for every model that uses that combination."""
import re

from ..facts import extract_split, units_matching, Program, AnalysisBroken, sx_find, sx_str, sx_enums
from ..match import value_sets, known_edges, emptied_before, ev_write, is_call, call_args, call_obj, field_of, var_of, guard_blocks, branch_edges, implied_edges, only_via

UNITS = r"/Simbody/src/(SimbodyMatterSubsystemRep|MobilizedBody|Motion)\.cpp$"
HDR = r"/Simbody/(src/(SimbodyMatterSubsystemRep|SimbodyTreeState|MobilizedBodyImpl|MotionImpl)\.h|include/simbody/internal/Motion\.h)$"
REP = "SimbodyMatterSubsystemRep"
IC = "SBInstanceCache"
PMI = "SBInstancePerMobodInfo"
LEVELS = ("q", "u", "udot")
LIST = {  # (level, method) -> list
    ("q", "Prescribed"): "presQ", ("q", "Zero"): "zeroQ", ("q", "Free"): "freeQ",
    ("u", "Prescribed"): "presU", ("u", "Zero"): "zeroU", ("u", "Free"): "freeU",
    ("udot", "Prescribed"): "presUDot", ("udot", "Zero"): "zeroUDot", ("udot", "Free"): "freeUDot",
}
NO_LIST = ("Discrete", "Fast")          # documented: nothing to do for these at Instance stage
FIRST = {"q": "firstPresQ", "u": "firstPresU", "udot": "firstPresUDot"}
IDXTY = {"q": "QIndex", "u": "UIndex", "udot": "UIndex"}
BASE = {"q": "firstQIndex", "u": "firstUIndex", "udot": "firstUIndex"}
COUNT = {"q": "nQInUse", "u": "nUInUse", "udot": "nUInUse"}
LOCKMAP = {  # lock level -> {method field: allowed enumerators}
    "Position": {"qMethod": {"Prescribed"}, "uMethod": {"Zero"}, "udotMethod": {"Zero"}},
    "Velocity": {"uMethod": {"Zero", "Prescribed"}, "udotMethod": {"Zero"}},
    "Acceleration": {"udotMethod": {"Zero", "Prescribed"}},
}
FILL = {  # realize function -> (level, pool field, locked array)
    "realizeTime": ("q", "SBTimeCache::presQPool", "lockedQs"),
    "realizePosition": ("u", "SBConstrainedPositionCache::presUPool", "lockedUs"),
    "realizeDynamics": ("udot", "SBDynamicsCache::presUDotPool", "lockedUs"),
}
# Motion routine called at a level, by which higher level is itself prescribed by the Motion
MOTION_CALL = {
    "q": {(): "calcPrescribedPosition"},
    "u": {("q",): "calcPrescribedPositionDot", (): "calcPrescribedVelocity"},
    "udot": {("q",): "calcPrescribedPositionDotDot", ("u",): "calcPrescribedVelocityDot", (): "calcPrescribedAcceleration"},
}
APPLY = {"prescribeQ": ("q", "updQ", "SBTimeCache::presQPool"), "prescribeU": ("u", "updU", "SBConstrainedPositionCache::presUPool")}
LOCK_WRITES = {  # lock(): level -> (array, source)
    "Position": ("lockedQs", "q"), "Velocity": ("lockedUs", "u"), "Acceleration": ("lockedUs", "0"),
}
PRESCRIBED_NAMES = ["Position", "PositionDot", "PositionDotDot", "Velocity", "VelocityDot", "Acceleration"]


def run(chk, tier, overlays=()):
    units = units_matching(UNITS)
    P = Program(extract_split(units, hdr=HDR, overlays=overlays))
    chk.units += units
    chk.nfunctions += len(P.fns)
    partition(chk, P)
    lockmap(chk, P)
    fill(chk, P)
    apply_(chk, P)
    lockers(chk, P)
    forward(chk, P)
    varstage(chk, P)
    chk.floor("PARTITION", 40)
    chk.floor("LOCKMAP", 8)
    chk.floor("FILL", 20)
    chk.floor("APPLY", 12)
    chk.floor("LOCK", 10)
    chk.floor("FORWARD", 12)
    chk.floor("VARSTAGE", 8)
    chk.assumptions += ["the values computed by Motion objects, the known/unknown udot partition inside the O(n) forward dynamics and the reported motion multipliers are numerical and not decided"]


def _one(chk, P, name):
    fs = P.fns_named(name)
    chk.require(len(fs) >= 1, "anchor vanished: " + name)
    return fs[0] if fs else None


def _last(n):
    return n.split("::")[-1]


def _memname(y):
    return _last(y[2]) if isinstance(y, list) and y and y[0] == "mem" else None


def _case_blocks(f, swb):
    """case label (enumerator short name) -> block, for the switch terminating block swb"""
    out = {}
    for s in f.blocks[swb]["succ"]:
        if s < 0:
            continue
        c = f.blocks[s].get("case")
        if isinstance(c, list) and c[0] == "enum":
            out[_last(c[1])] = s
    # fall-through labels (case A: case B:) -- A's block flows straight into B's
    for b, blk in f.blocks.items():
        c = blk.get("case")
        if isinstance(c, list) and c[0] == "enum":
            out.setdefault(_last(c[1]), b)
    return out


def _full_cond(f, b):
    """the whole branch condition that the short-circuit operand evaluated in block b belongs to"""
    t = f.blocks[b]["term"]
    if t["k"] in ("||", "&&"):
        for bb, blk in f.blocks.items():
            tt = blk.get("term")
            if tt and tt.get("cond") is not None and tt["k"] not in ("||", "&&") and tt.get("line") == t.get("line") and sx_find(tt["cond"], lambda y: y == t["cond"]):
                return tt["cond"]
    return t["cond"]


def partition(chk, P):
    chk.rule("PARTITION", "realizeSubsystemInstanceImpl: the switches over qMethod / uMethod / udotMethod have a case for every Motion::Method; case Prescribed / Zero / Free "
             "pushes the mobilizer's indices (QIndex(firstQIndex+i), i<nQInUse for q; UIndex(firstUIndex+i), i<nUInUse for u and udot) onto exactly the list of that level and kind "
             "(presX / zeroX / freeX), Discrete and Fast push nothing; firstPresX is the list's size before the pushes; a force slot is reserved iff udotMethod != Free; "
             "all lists are cleared before the loop over mobilizers and nothing else in the library appends to them")
    f = _one(chk, P, REP + "::realizeSubsystemInstanceImpl")
    if not f:
        return
    en = P.enums.get("SimTK::Motion::Method")
    chk.require(en is not None, "enum SimTK::Motion::Method not found")
    want = sorted(_last(n) for n, v in en["enumerators"] if _last(n) != "NoMethod")
    dom = f.dominators()
    sw = {}
    for b, blk in f.blocks.items():
        t = blk.get("term")
        if t and t["k"] == "switch" and _memname(t["cond"]) in ("qMethod", "uMethod", "udotMethod"):
            sw[_memname(t["cond"])[:-len("Method")]] = b
    chk.shape(sorted(sw) == sorted(LEVELS), "PARTITION", "three-switches", f.loc, "switches found over %s" % sorted(sw))
    pushes = [(b, i, e) for b, i, e in f.calls() if str(e.get("fn", "")).endswith("::push_back") and _memname(call_obj(e)) and
              re.match(r"(pres|zero|free)(Q|U|UDot)$|presForce$", _memname(call_obj(e)))]
    accounted = set()
    decls = {d["var"]: d for _, _, d in f.events(lambda d: d["k"] == "decl")}

    def from_field(var, field):
        d = decls.get(var)
        return bool(d and d.get("init") is not None and sx_find(d["init"], lambda y: y[0] == "mem" and _last(y[2]) == field))

    for lvl in LEVELS:
        if lvl not in sw:
            continue
        swb = sw[lvl]
        t = f.blocks[swb]["term"]
        have = sorted(_last(c[1]) for c in t["cases"] if isinstance(c, list) and c[0] == "enum")
        chk.judge(have == want, "PARTITION", "%s:exhaustive" % lvl, "%s:%d" % (f.file, t["line"]), "cases %s vs Motion::Method enumerators %s" % (have, want))
        cb = _case_blocks(f, swb)
        # the region of this switch: blocks dominated by the switch block and not by a later switch
        later = [sw[l] for l in LEVELS if l in sw and sw[l] != swb and swb in dom.get(sw[l], ())]
        for method in want:
            blk = cb.get(method)
            if blk is None:
                continue
            mine = [(b, i, e) for b, i, e in pushes if blk in dom.get(b, ()) and not any(x in dom.get(b, ()) for x in later)]
            site = "%s:%d" % (f.file, (f.blocks[blk]["ev"][0]["line"] if f.blocks[blk]["ev"] else t["line"]))
            lst = LIST.get((lvl, method))
            if lst is None:
                chk.judge(not mine, "PARTITION", "%s:%s:no-list" % (lvl, method), site, "case %s must not append to any list (appends to %s)" % (method, [_memname(call_obj(e)) for _, _, e in mine]))
                continue
            got = sorted(set(_memname(call_obj(e)) for _, _, e in mine))
            chk.judge(got == [lst], "PARTITION", "%s:%s->%s" % (lvl, method, lst), site, "case %s of the %sMethod switch appends to %s" % (method, lvl, got))
            for b, i, e in mine:
                accounted.add(id(e))
                a = call_args(e)[0] if call_args(e) else None
                # QIndex(qx + i): ctor of the level's index type over base var + loop var
                ok_ty = bool(a is not None and sx_find(a, lambda y: y[0] in ("ctor", "cast") and IDXTY[lvl] in str(y[1])))
                vars_ = [y[1] for y in sx_find(a, lambda y: y[0] == "var")] if a is not None else []
                base_ok = any(from_field(v, BASE[lvl]) for v in vars_)
                # loop bound
                loops = [h for h, body in f.loops().items() if b in body]
                h = max(loops, key=lambda hh: f.loop_depth(hh) if hasattr(f, "loop_depth") else 0) if loops else None
                bound_ok = False
                for hh in loops:
                    tt = f.blocks[hh].get("term")
                    if tt and tt.get("cond") is not None and any(from_field(y[1], COUNT[lvl]) for y in sx_find(tt["cond"], lambda y: y[0] == "var")) and \
                            any(v in vars_ for v in [y[1] for y in sx_find(tt["cond"], lambda y: y[0] == "var")]):
                        bound_ok = True
                chk.judge(ok_ty and base_ok and bound_ok, "PARTITION", "%s:%s:index=%s(%s+i),i<%s" % (lvl, method, IDXTY[lvl], BASE[lvl], COUNT[lvl]), "%s:%d" % (f.file, e["line"]),
                          "pushed value %s (index type ok=%s, base from %s=%s, loop bounded by %s=%s)" % (sx_str(a) if a is not None else None, ok_ty, BASE[lvl], base_ok, COUNT[lvl], bound_ok))
            if method == "Prescribed":
                # firstPresX = PresXPoolIndex(ic.presX.size()) in the case block before the pushes
                asg = [(b, i, e) for b, i, e in f.calls() if e.get("op") == "=" and isinstance(e.get("x"), list) and _memname(e["x"][2]) == FIRST[lvl] and (b == blk or blk in dom.get(b, ()))]
                ok = len(asg) == 1 and bool(sx_find(asg[0][2]["x"][3], lambda y: y[0] == "call" and y[1].endswith("::size") and _memname(y[2]) == lst))
                before = ok and all(asg[0][0] in dom.get(pb, ()) and asg[0][0] != pb and
                                    any(pb in body and asg[0][0] not in body for body in f.loops().values()) for pb, _, _ in mine)
                chk.judge(ok and before, "PARTITION", "%s:%s=%s.size()-before-pushes" % (lvl, FIRST[lvl], lst), site,
                          "pool offset of a prescribed mobilizer is the size of %s before its own indices are appended" % lst)
    # force slots
    pf = [(b, i, e) for b, i, e in pushes if _memname(call_obj(e)) == "presForce"]
    gb = guard_blocks(f, lambda c: isinstance(c, list) and c[0] == "op" and c[1] == "!=" and _memname(c[2]) == "udotMethod" and "SimTK::Motion::Free" in sx_enums(c[3]), 0)
    chk.judge(len(pf) == 1 and any(g in dom.get(pf[0][0], ()) for g in gb), "PARTITION", "presForce-iff-udotMethod!=Free", f.loc,
              "a prescribed-force slot is reserved exactly for mobilizers whose udot is not Free")
    for _, _, e in pf:
        accounted.add(id(e))
    for b, i, e in pushes:
        if id(e) not in accounted:
            chk.violation("PARTITION", "stray-push:%s#%d" % (_memname(call_obj(e)), sorted(x[2]["line"] for x in pushes if _memname(call_obj(x[2])) == _memname(call_obj(e))).index(e["line"]) + 1), "%s:%d" % (f.file, e["line"]), "append to %s outside the case that owns it" % _memname(call_obj(e)))
    # cleared before the mobilizer loop
    mob_loops = [h for h, body in f.loops().items() if any(swb in body for swb in sw.values())]
    outer = min(mob_loops, key=lambda h: len(dom.get(h, ()))) if mob_loops else None
    icv = {var_of(call_obj(e)[1]) for _, _, e in pushes if isinstance(call_obj(e), list) and call_obj(e)[0] == "mem"}
    for lst in sorted(set(LIST.values()) | {"presForce"}):
        mine = [(b, i, e) for b, i, e in pushes if _memname(call_obj(e)) == lst]
        bad = None
        for b, i, e in mine:
            o = call_obj(e)
            bad = bad or emptied_before(P, f, e, var_of(o[1]), o[2])
        chk.judge(bool(mine) and bad is None, "PARTITION", "cleared-before-loop:" + lst, f.loc,
                  "%s is emptied (directly or by a method of the cache object) before indices are appended: a re-realized Instance stage must not keep old entries" % lst, bad)
    # nobody else appends
    for g in P.all_fns():
        if g is f:
            continue
        for b, i, e in g.calls():
            if str(e.get("fn", "")).endswith(("::push_back", "::insert", "::emplace_back")) and _memname(call_obj(e)) and call_obj(e)[2].startswith(IC + "::") and \
                    re.match(r"(pres|zero|free)(Q|U|UDot)$|presForce$", _memname(call_obj(e))):
                chk.violation("PARTITION", "foreign-push:%s:%s" % (g.name, _memname(call_obj(e))), "%s:%d" % (g.file, e["line"]), "only realizeSubsystemInstanceImpl builds the index lists")


def lockmap(chk, P):
    chk.rule("LOCKMAP", "realizeSubsystemInstanceImpl: a locked mobilizer's methods follow the lock level -- Position: q Prescribed, u Zero, udot Zero; Velocity: u Zero or "
             "(if some locked value is non-zero) Prescribed, udot Zero; Acceleration: udot Zero or Prescribed likewise; the lock takes precedence over a Motion, which is consulted "
             "only when present and not disabled and receives (qMethod, uMethod, udotMethod) in that order; Ground and welds are Zero at all three levels")
    f = _one(chk, P, REP + "::realizeSubsystemInstanceImpl")
    if not f:
        return
    dom = f.dominators()
    ldecls = {d["var"]: d for _, _, d in f.events(lambda d: d["k"] == "decl")}
    LL = {v for v, d in ldecls.items() if sx_find(d.get("init") or [], lambda y: y[0] == "mem" and _last(y[2]) == "mobilizerLockLevel")}
    NQ = {v for v, d in ldecls.items() if sx_find(d.get("init") or [], lambda y: y[0] == "mem" and _last(y[2]) == "nQInUse")}
    chk.shape(len(LL) == 1 and len(NQ) >= 1, "LOCKMAP", "lock-level-and-q-count-variables", f.loc, "lock level read from mobilizerLockLevel into %s; q count from nQInUse into %s" % (sorted(LL), sorted(NQ)))
    asg = [(b, i, e) for b, i, e in f.events(lambda e: e["k"] == "assign" and _memname(e["lhs"]) in ("qMethod", "uMethod", "udotMethod"))]
    # chained assignment a = b = c = Zero shows as nested assigns; collect every (field, enumerator)
    def pairs(e):
        out = []
        en = [_last(x) for x in sx_enums(e["rhs"])] if e.get("rhs") is not None else []
        fields = [_memname(e["lhs"])] + [_memname(y) for y in sx_find(e["rhs"], lambda y: y[0] == "mem" and _last(y[2]).endswith("Method"))] if e.get("rhs") is not None else [_memname(e["lhs"])]
        for fl in fields:
            for x in en:
                out.append((fl, x))
        return out
    LEVELS_ALL = {"NoLevel", "Acceleration", "Velocity", "Position"}
    # value sets of the lock-level local: every form of the test (if-chain, switch, nested / early-continue) is read alike;
    # the loop re-declares the local each iteration, which resets the set
    vs = value_sets(f, lambda x: isinstance(x, list) and len(x) == 2 and x[0] == "var" and x[1] in LL, LEVELS_ALL,
                    kill=lambda e: e["k"] == "decl" and e["var"] in LL)
    for level, table in sorted(LOCKMAP.items()):
        got = {}
        sites = []
        for b, i, e in asg:
            if level in vs[b] and vs[b] != LEVELS_ALL and "NoLevel" not in vs[b]:
                sites.append((b, i, e))
                for fl, x in pairs(e):
                    got.setdefault(fl, set()).add(x)
        chk.judge(bool(sites), "LOCKMAP", "%s:branch" % level, f.loc, "method assignments executed when the lock level is %s: %d" % (level, len(sites)))
        if not sites:
            continue
        chk.judge(got == table, "LOCKMAP", "%s:methods" % level, "%s:%d" % (f.file, sites[0][2]["line"]),
                  "lock at %s level sets %s (documented: %s)" % (level, {k: sorted(v) for k, v in got.items()}, {k: sorted(v) for k, v in table.items()}))
        # Prescribed only under a non-zero locked value (directly, or in a local predicate / lambda that scans lockedUs for a non-zero entry)
        for b, i, e in sites:
            if ("Prescribed" in [x for _, x in pairs(e)]) and level != "Position":
                def nonzero(c):
                    return isinstance(c, list) and c[0] in ("op", "opc") and c[1] == "!=" and bool(sx_find(c, lambda y: y[0] == "mem" and _last(y[2]) == "lockedUs"))
                direct = only_via(f, b, implied_edges(f, [nonzero]))
                # through a helper: the branch tests the result of a local callable whose body returns true only under the non-zero test
                via = False
                for bb, blk in f.blocks.items():
                    t = blk.get("term")
                    c = t.get("cond") if t else None
                    if c is None:
                        continue
                    for y in sx_find(c, lambda y: y[0] in ("opc", "call") and True):
                        fid = None
                        for _b, _i, ce in f.calls():
                            if ce.get("x") == y and ce.get("fid"):
                                fid = ce["fid"]
                        for g in P.by_id.get(fid, []) if fid else []:
                            rt = [r for _, _, r in g.events(lambda r: r["k"] == "ret" and isinstance(r.get("val"), list) and r["val"] == ["lit", "true"])]
                            if rt and all(only_via(g, rb, implied_edges(g, [nonzero])) for rb, _, r in g.events(lambda r: r in rt)):
                                if only_via(f, b, implied_edges(f, [lambda cc, y=y: cc == y])):
                                    via = True
                chk.judge(direct or via, "LOCKMAP", "%s:Prescribed-iff-nonzero-lockedUs" % level, "%s:%d" % (f.file, e["line"]),
                          "Prescribed is chosen only when a locked value in lockedUs is non-zero")
    # precedence: calcAllMethods only on the not-locked side, under hasMotion && !disabled, args in order
    cam = [(b, i, e) for b, i, e in f.calls() if str(e.get("fn", "")).endswith("Motion::calcAllMethods")]
    chk.shape(len(cam) == 1, "LOCKMAP", "one-calcAllMethods", f.loc, "found %d" % len(cam))
    if len(cam) == 1:
        b, i, e = cam[0]
        chk.judge(vs[b] == {"NoLevel"}, "LOCKMAP", "lock-overrides-Motion", "%s:%d" % (f.file, e["line"]),
                  "the Motion is consulted only when the mobilizer is not locked (lock levels possible at the call: %s)" % sorted(vs[b]))
        e1 = implied_edges(f, [lambda c: isinstance(c, list) and c[0] == "call" and c[1].endswith("::hasMotion")])
        e2 = implied_edges(f, [lambda c: isinstance(c, list) and c[0] == "un" and c[1] == "!" and bool(sx_find(c, lambda y: y[0] == "mem" and _last(y[2]) == "prescribedMotionIsDisabled"))])
        chk.judge(only_via(f, b, e1) and only_via(f, b, e2), "LOCKMAP", "Motion-only-if-present-and-enabled", "%s:%d" % (f.file, e["line"]),
                  "calcAllMethods is guarded by hasMotion() && !prescribedMotionIsDisabled[mbx]")
        a = [_memname(x) for x in call_args(e)[1:4]]
        chk.judge(a == ["qMethod", "uMethod", "udotMethod"], "LOCKMAP", "calcAllMethods(q,u,udot)", "%s:%d" % (f.file, e["line"]), "arguments are %s" % a)
    # the callee assigns its three reference parameters from method[Position], method[Velocity], method[Acceleration]
    g = _one(chk, P, "SimTK::Motion::calcAllMethods")
    if g:
        # the three Method& parameters by position (q, u, udot), never by name
        mp = [p_[0] for p_ in g.d.get("params", []) if "Method" in p_[1]]
        want = dict(zip(mp, ("Position", "Velocity", "Acceleration"))) if len(mp) == 3 else {}
        got = {}
        for _, _, e in g.events(lambda e: e["k"] == "assign" and var_of(e["lhs"]) in want and e.get("rhs") is not None):
            got[var_of(e["lhs"])] = [_last(x) for x in sx_enums(e["rhs"])]
        chk.judge(bool(want) and all(got.get(k) == [v] for k, v in want.items()), "LOCKMAP", "calcAllMethods:outputs", g.loc,
                  "the (q, u, udot) output parameters receive method[%s]" % ", ".join(got.get(k, ["?"])[0] for k in mp))
    # Ground / weld
    gw = implied_edges(f, [lambda c: isinstance(c, list) and c[0] in ("op", "opc") and c[1] == "==" and bool(sx_find(c, lambda y: y[0] == "gvar" and _last(y[1]) == "GroundIndex")),
                           lambda c: isinstance(c, list) and c[0] == "op" and c[1] == "==" and var_of(c[2]) in NQ and isinstance(c[3], list) and c[3][0] == "lit" and c[3][1] == "0"])
    got = set()
    for b, i, e in asg:
        if only_via(f, b, gw):
            got |= set(pairs(e))
    chk.judge(got == {("qMethod", "Zero"), ("uMethod", "Zero"), ("udotMethod", "Zero")}, "LOCKMAP", "ground-and-weld-are-Zero", f.loc, "Ground / zero-q mobilizers get %s" % sorted(got))


def fill(chk, P):
    chk.rule("FILL", "MobilizedBodyImpl::realizeTime / realizePosition / realizeDynamics fill the prescribed-value pool of their level (presQPool / presUPool / presUDotPool): only "
             "under <level>Method == Prescribed, at the offset firstPres<level>; a locked mobilizer copies lockedQs (q) or lockedUs (u, udot) entry firstQ/UIndex+i for i < "
             "nQ/UInUse; otherwise the Motion routine of that level is called (Position; PositionDot if q is prescribed else Velocity; PositionDotDot if q, VelocityDot if u, "
             "else Acceleration) and its result lands in the pool, through N^-1 when qdot != u")
    for fname, (lvl, pool, locked) in sorted(FILL.items()):
        f = _one(chk, P, "SimTK::MobilizedBodyImpl::" + fname)
        if not f:
            continue
        dom = f.dominators()
        decls = {d["var"]: d for _, _, d in f.events(lambda d: d["k"] == "decl")}

        def derives(var, pred, seen=()):
            d = decls.get(var)
            if not d or d.get("init") is None or var in seen:
                return False
            if sx_find(d["init"], pred):
                return True
            return any(derives(y[1], pred, seen + (var,)) for y in sx_find(d["init"], lambda y: y[0] == "var"))
        is_pool = lambda y: y[0] == "mem" and y[2] == pool
        touches_pool = lambda x: bool(x is not None and (sx_find(x, is_pool) or any(derives(y[1], is_pool) for y in sx_find(x, lambda y: y[0] == "var"))))
        mfield = lvl + "Method"
        # value sets of the three method fields and of the lock level (every form of the tests is read alike)
        METHODS = {"NoMethod", "Zero", "Discrete", "Prescribed", "Free", "Fast"}
        vm = {m: value_sets(f, lambda x, m=m: _memname(x) == m, METHODS) for m in ("qMethod", "uMethod", "udotMethod")}
        def is_locklevel(x):
            return isinstance(x, list) and bool(x) and x[0] in ("opc", "idx") and bool(sx_find(x, lambda y: y[0] == "mem" and _last(y[2]) == "mobilizerLockLevel"))
        vl = value_sets(f, is_locklevel, {"NoLevel", "Acceleration", "Velocity", "Position"})
        presc = {b for b in f.blocks if vm[mfield][b] == {"Prescribed"}}
        chk.judge(bool(presc), "FILL", "%s:guard:%s==Prescribed" % (fname, mfield), f.loc, "the pool is filled under %s == Prescribed" % mfield)
        # every pool reference is inside the guard
        refs = [(b, i, e) for b, i, e in f.events(lambda e: e["k"] == "mem" and e["field"] == pool)]
        chk.judge(bool(refs) and all(b in presc for b, _, _ in refs), "FILL", "%s:pool-only-under-guard" % fname, f.loc,
                  "%s is touched %d times, all under the guard" % (_last(pool), len(refs)))
        # offset
        offs = set()
        for b, i, e in f.events(lambda e: e["k"] in ("call",) and e.get("op") == "[]" and isinstance(e.get("x"), list) and bool(sx_find(e["x"][2], is_pool))):
            for y in sx_find(e["x"][3], lambda y: y[0] == "var"):
                offs.add(y[1])
        base_vars = {v for v in offs if derives(v, lambda y: y[0] == "mem" and _last(y[2]) == FIRST[lvl])}
        others = {v for v in offs if v not in base_vars and not (v in decls and isinstance(decls[v].get("init"), list) and decls[v]["init"] == ["lit", "0"])}
        chk.judge(bool(base_vars) and not others, "FILL", "%s:offset=%s" % (fname, FIRST[lvl]), f.loc,
                  "pool subscripts use %s; the offset must come from %s" % (sorted(offs), FIRST[lvl]))
        # lock branch
        lk = {b for b in presc if vl[b] and "NoLevel" not in vl[b]}          # blocks that execute only for a locked mobilizer
        unlocked = {b for b in presc if vl[b] == {"NoLevel"}}
        chk.judge(bool(lk) and bool(unlocked), "FILL", "%s:lock-branch" % fname, f.loc, "a branch for a locked mobilizer and one for a Motion inside the guard")
        copies = []
        for b, i, e in f.events(lambda e: e["k"] == "assign" and e.get("rhs") is not None and touches_pool(e["lhs"])):
            if b in lk:
                copies.append(e)
        ok = len(copies) == 1
        det = "no copy found"
        if ok:
            e = copies[0]
            src = sx_find(e["rhs"], lambda y: y[0] == "mem" and _last(y[2]).startswith("locked"))
            idx_base = [y[1] for y in sx_find(e["rhs"], lambda y: y[0] == "var")]
            base_ok = any(derives(v, lambda y: y[0] == "mem" and _last(y[2]) == BASE[lvl]) for v in idx_base)
            ty_ok = bool(sx_find(e["rhs"], lambda y: y[0] in ("ctor", "cast") and IDXTY[lvl] in str(y[1])))
            # loop bound
            hs = [h for h, body in f.loops().items() if any(ee is e for bb in body for ee in f.blocks[bb]["ev"])]
            bound_ok = any(f.blocks[h].get("term") and f.blocks[h]["term"].get("cond") is not None and
                           any(derives(y[1], lambda z: z[0] == "mem" and _last(z[2]) == COUNT[lvl]) for y in sx_find(f.blocks[h]["term"]["cond"], lambda y: y[0] == "var")) for h in hs)
            ok = bool(src) and _last(src[0][2]) == locked and base_ok and ty_ok and bound_ok
            det = "copies %s[%s] (expected %s[%s(%s+i)], i<%s): source ok=%s base ok=%s type ok=%s bound ok=%s" % (
                _last(src[0][2]) if src else None, sx_str(e["rhs"])[:60], locked, IDXTY[lvl], BASE[lvl], COUNT[lvl], bool(src) and _last(src[0][2]) == locked, base_ok, ty_ok, bound_ok)
        chk.judge(ok, "FILL", "%s:locked-values<-%s" % (fname, locked), f.loc, det)
        # Motion branch: tabled routine under tabled guards, destination the pool
        calls = [(b, i, e) for b, i, e in f.calls() if re.search(r"MotionImpl::calcPrescribed\w+$", str(e.get("fn", "")))]
        seen = set()
        for b, i, e in calls:
            nth = sum(1 for _b, _i, _e in calls if _e["line"] <= e["line"] and _e["fn"] == e["fn"])
            chk.judge(b in unlocked, "FILL", "%s:%s:on-Motion-branch@%d" % (fname, _last(e["fn"]), nth), "%s:%d" % (f.file, e["line"]),
                      "Motion routines are called only for a prescribed, not locked mobilizer")
            higher = [l for l in ("q", "u") if LEVELS.index(l) < LEVELS.index(lvl)]
            under = tuple(l for l in higher if vm[l + "Method"][b] == {"Prescribed"})
            # the routine of the HIGHEST prescribed level is required: (q,) beats (u,)
            if len(under) > 1:
                under = under[:1]
            # and the lower-priority case must really exclude the higher one
            chosen = LEVELS.index(under[0]) if under else LEVELS.index(lvl)
            amb = [l for l in higher if LEVELS.index(l) < chosen and "Prescribed" in vm[l + "Method"][b]]
            want = MOTION_CALL[lvl].get(under)
            seen.add(under)
            chk.judge(_last(e["fn"]) == want and not amb, "FILL", "%s:prescribed-by-%s->%s@%d" % (fname, "+".join(under) or "own-level", want, nth), "%s:%d" % (f.file, e["line"]),
                      "calls %s where %s is required%s" % (_last(e["fn"]), want, ("; the case does not exclude a prescribed %s level" % amb[0]) if amb else ""))
            # destination: last argument is the pool, or a local that later feeds multiplyByNInv(.., local-derived, pool)
            dst = call_args(e)[-1]
            if touches_pool(dst):
                okd = True
            else:
                lv = [y[1] for y in sx_find(dst, lambda y: y[0] == "var")]
                okd = False
                for bb, ii, ee in f.calls():
                    if str(ee.get("fn", "")).endswith("::multiplyByNInv") and f.path_exists((b, i), lambda q: q is ee, lambda q: False) is not None:
                        aa = call_args(ee)
                        if touches_pool(aa[-1]) and any(v in [y[1] for y in sx_find(aa[-2], lambda y: y[0] == "var")] for v in lv):
                            okd = True
            chk.judge(okd, "FILL", "%s:%s:result-lands-in-pool@%d" % (fname, _last(e["fn"]), sum(1 for _b, _i, _e in calls if _e["line"] <= e["line"] and _e["fn"] == e["fn"])), "%s:%d" % (f.file, e["line"]),
                      "the routine's output %s reaches %s" % (sx_str(dst), _last(pool)))
        chk.judge(seen == set(MOTION_CALL[lvl]), "FILL", "%s:all-Motion-cases" % fname, f.loc, "cases handled %s, required %s" % (sorted(seen), sorted(MOTION_CALL[lvl])))


def apply_(chk, P):
    chk.rule("APPLY", "prescribeQ / prescribeU: state entry presX[i] receives pool entry i of the same level for every i < number of prescribed entries, every zeroX[i] entry "
             "receives 0, the vector written is the one obtained from updQ / updU, and the function returns without writing only when both counts are zero; the count getters "
             "return the sizes of the lists they are named after")
    for fname, (lvl, upd, pool) in sorted(APPLY.items()):
        f = _one(chk, P, REP + "::" + fname)
        if not f:
            continue
        X = {"q": "Q", "u": "U"}[lvl]
        decls = {d["var"]: d for _, _, d in f.events(lambda d: d["k"] == "decl")}
        tgt = [v for v, d in decls.items() if d.get("init") is not None and sx_find(d["init"], lambda y: y[0] == "call" and y[1].endswith("::" + upd))]
        chk.judge(len(tgt) == 1, "APPLY", "%s:target<-%s" % (fname, upd), f.loc, "the written vector comes from %s (found %s)" % (upd, tgt))
        asg = [(b, i, e) for b, i, e in f.events(lambda e: e["k"] == "assign" and isinstance(e["lhs"], list) and e["lhs"][0] == "opc" and e["lhs"][1] == "[]")]
        seen = {}
        for b, i, e in asg:
            lst = sx_find(e["lhs"][3], lambda y: y[0] == "mem" and y[2].startswith(IC + "::"))
            if var_of(e["lhs"][2]) not in tgt or not lst:
                chk.violation("APPLY", "%s:foreign-write:%s" % (fname, sx_str(e["lhs"])[:50]), "%s:%d" % (f.file, e["line"]), "unexpected indexed write %s" % sx_str(e["lhs"]))
                continue
            ln = _last(lst[0][2])
            iv = [y[1] for y in sx_find(e["lhs"][3], lambda y: y[0] == "var" and not (y[1] in decls and "SBInstanceCache" in str(decls[y[1]].get("ty", ""))))]
            site = "%s:%d" % (f.file, e["line"])
            if ln == "pres" + X:
                ok = isinstance(e["rhs"], list) and e["rhs"][0] == "opc" and e["rhs"][1] == "[]" and bool(sx_find(e["rhs"][2], lambda y: y[0] == "mem" and y[2] == pool)) and \
                    [y[1] for y in sx_find(e["rhs"][3], lambda y: y[0] == "var")] == iv
                chk.judge(ok, "APPLY", "%s:pres%s[i]<-%s[i]" % (fname, X, _last(pool)), site, "assigned %s" % sx_str(e["rhs"]))
            elif ln == "zero" + X:
                chk.judge(isinstance(e["rhs"], list) and e["rhs"][0] == "lit" and e["rhs"][1] in ("0", "0.0", "0."), "APPLY", "%s:zero%s[i]<-0" % (fname, X), site, "assigned %s" % sx_str(e["rhs"]))
            else:
                chk.violation("APPLY", "%s:wrong-list:%s" % (fname, ln), site, "%s writes through list %s" % (fname, ln))
                continue
            seen[ln] = e
            # loop bound: count getter of the same list
            hs = [h for h, body in f.loops().items() if b in body]
            okb = False
            for h in hs:
                t = f.blocks[h].get("term")
                if not t or t.get("cond") is None:
                    continue
                c = t["cond"]
                if not (isinstance(c, list) and c[0] == "op" and c[1] == "<" and var_of(c[2]) in iv):
                    continue
                d = decls.get(var_of(c[3]))
                if d and d.get("init") is not None and sx_find(d["init"], lambda y: y[0] == "call" and y[1].endswith("::getTotalNum" + ln[0].upper() + ln[1:])):
                    okb = True
            chk.judge(okb, "APPLY", "%s:%s:all-entries" % (fname, ln), site, "the loop runs i = 0 .. getTotalNum%s()-1" % (ln[0].upper() + ln[1:]))
        chk.judge(sorted(seen) == ["pres" + X, "zero" + X], "APPLY", "%s:both-lists" % fname, f.loc, "lists applied: %s" % sorted(seen))
        # early return
        rets = [(b, i, e) for b, i, e in f.events(lambda e: e["k"] == "ret" and isinstance(e.get("val"), list) and e["val"][0] == "lit" and e["val"][1] == "false")]
        okr = len(rets) == 1
        if okr:
            for k in ("Pres", "Zero"):
                def cnt(c, k=k):
                    return isinstance(c, list) and c[0] == "op" and isinstance(c[3], list) and c[3][0] == "lit" and c[3][1] == "0" and var_of(c[2]) in decls and \
                        decls[var_of(c[2])].get("init") is not None and bool(sx_find(decls[var_of(c[2])]["init"], lambda y: y[0] == "call" and y[1].endswith("::getTotalNum" + k + X)))
                iszero = lambda c: cnt(c) and c[1] == "=="
                nonzero = lambda c: cnt(c) and c[1] in ("!=", ">")
                okr = okr and only_via(f, rets[0][0], known_edges(f, iszero, nonzero))
        chk.judge(okr, "APPLY", "%s:skip-only-if-nothing-to-apply" % fname, f.loc, "`return false` (no write) is reached only when both the prescribed and the zero count are 0")
    # count getters
    for lst in sorted(LIST.values()):
        nm = "getTotalNum" + lst[0].upper() + lst[1:]
        fs = P.fns_named(IC + "::" + nm)
        chk.require(bool(fs), "anchor vanished: %s::%s" % (IC, nm))
        for g in fs:
            r = [e for _, _, e in g.events(lambda e: e["k"] == "ret")]
            ok = len(r) == 1 and bool(sx_find(r[0].get("val"), lambda y: y[0] == "call" and y[1].endswith("::size") and _memname(y[2]) == lst))
            chk.judge(ok, "APPLY", "%s=%s.size()" % (nm, lst), g.loc, "returns %s" % (sx_str(r[0].get("val")) if r else None))


def lockers(chk, P):
    chk.rule("LOCK", "MobilizedBodyImpl::lock / lockAt / unlock and MotionImpl::disable / enable change the Instance-stage variable obtained from updInstanceVars (whose "
             "allocation invalidates Stage::Instance, so the partition is rebuilt): lock records level and, per level, lockedQs<-q / lockedUs<-u / lockedUs<-0 over the mobilizer's "
             "own index range; lockAt records the given values (and sets q at Position level); unlock stores NoLevel; disable stores true and enable false in prescribedMotionIsDisabled")
    MB = "SimTK::MobilizedBodyImpl"
    for fname in ("lock", "lockAt", "unlock"):
        f = _one(chk, P, MB + "::" + fname)
        if not f:
            continue
        decls = {d["var"]: d for _, _, d in f.events(lambda d: d["k"] == "decl")}
        ivs = [v for v, d in decls.items() if d.get("init") is not None and sx_find(d["init"], lambda y: y[0] == "call" and y[1].endswith("::updInstanceVars"))]
        chk.judge(len(ivs) == 1, "LOCK", "%s:via-updInstanceVars" % fname, f.loc, "instance variables obtained for writing through updInstanceVars (%s)" % ivs)
        lv = [(b, i, e) for b, i, e in f.events(lambda e: e["k"] == "assign" and bool(sx_find(e["lhs"], lambda y: y[0] == "mem" and _last(y[2]) == "mobilizerLockLevel")))]
        okl = len(lv) == 1 and bool(sx_find(lv[0][2]["lhs"], lambda y: y[0] == "call" and y[1].endswith("::getMyMobilizedBodyIndex")))
        if fname == "unlock":
            okl = okl and [_last(x) for x in sx_enums(lv[0][2]["rhs"])] == ["NoLevel"]
            chk.judge(okl, "LOCK", "unlock:level<-NoLevel", f.loc, "unlock stores Motion::NoLevel for this mobilizer")
            continue
        LV = {p_[0] for p_ in f.d.get("params", []) if "Motion::Level" in p_[1]}
        okl = okl and var_of(lv[0][2]["rhs"]) in LV and f.path_exists(None, "exit", lambda q: q is lv[0][2]) is None
        chk.judge(okl, "LOCK", "%s:level-recorded" % fname, f.loc, "stores the requested level for this mobilizer on every path")
        dom = f.dominators()
        # which levels can hold when a block executes: value sets of the level parameter (if-chain, switch, early return ... all read alike)
        LEVELS_ALL = {"NoLevel", "Acceleration", "Velocity", "Position"}
        vs = value_sets(f, lambda x: isinstance(x, list) and len(x) == 2 and x[0] == "var" and x[1] in LV, LEVELS_ALL)
        for level, (arr, src) in sorted(LOCK_WRITES.items()):
            def haslocked(x):
                return bool(x is not None and sx_find(x, lambda y: y[0] == "mem" and _last(y[2]).startswith("locked")))
            ws = [(b, i, e) for b, i, e in f.events(lambda e: e["k"] == "assign" and (haslocked(e["lhs"]) or haslocked(e.get("rhs")))) if level in vs[b] and vs[b] != LEVELS_ALL]
            # a chained assignment q[qx] = iv.lockedQs[qx] = v shows up twice; keep the one whose left side is the locked array when there is one
            if any(haslocked(e["lhs"]) for _, _, e in ws):
                ws = [(b, i, e) for b, i, e in ws if haslocked(e["lhs"])]
            arrs = set()
            for b, i, e in ws:
                for y in sx_find(e["lhs"], lambda y: y[0] == "mem" and _last(y[2]).startswith("locked")) + sx_find(e.get("rhs") or [], lambda y: y[0] == "mem" and _last(y[2]).startswith("locked")):
                    arrs.add(_last(y[2]))
            site = "%s:%d" % (f.file, ws[0][2]["line"]) if ws else f.loc
            chk.judge(arrs == {arr}, "LOCK", "%s:%s->%s" % (fname, level, arr), site, "at %s level the values are remembered in %s (expected %s)" % (level, sorted(arrs), arr))
            if fname == "lock" and ws:
                e = ws[0][2]
                if src == "0":
                    oks = isinstance(e["rhs"], list) and e["rhs"][0] == "lit" and e["rhs"][1] == "0"
                else:
                    rv = [y[1] for y in sx_find(e["rhs"], lambda y: y[0] == "var")]
                    oks = any(decls.get(v) and decls[v].get("init") is not None and sx_find(decls[v]["init"], lambda y: y[0] == "call" and y[1].endswith("::get" + src.upper())) for v in rv)
                    # same index on both sides
                    li = [y[1] for y in sx_find(e["lhs"], lambda y: y[0] == "var") if y[1] not in ivs]
                    ri = [y[1] for y in sx_find(e["rhs"], lambda y: y[0] == "var") if not (decls.get(y[1]) and str(decls[y[1]].get("ty", "")).startswith("const SimTK::Vector"))]
                    oks = oks and li == ri
                chk.judge(oks, "LOCK", "lock:%s:value<-%s" % (level, src), site, "remembered value is %s" % sx_str(e["rhs"]))
    MI = "SimTK::MotionImpl"
    for fname, val in (("disable", "true"), ("enable", "false")):
        f = _one(chk, P, MI + "::" + fname)
        if not f:
            continue
        def flag_writes(g):
            decls = {d["var"]: d for _, _, d in g.events(lambda d: d["k"] == "decl")}
            ivs = [v for v, d in decls.items() if d.get("init") is not None and sx_find(d["init"], lambda y: y[0] == "call" and y[1].endswith("::updInstanceVars"))]
            w = [e for _, _, e in g.events(lambda e: e["k"] == "assign" and bool(sx_find(e["lhs"], lambda y: y[0] == "mem" and _last(y[2]) == "prescribedMotionIsDisabled")))]
            return ivs, w
        ivs, w = flag_writes(f)
        value = w[0]["rhs"] if len(w) == 1 else None
        if not w:
            # the store may live in a helper of the same class that is handed the value (disable/enable sharing one implementation)
            for _, _, ce in f.calls():
                for g in P.by_id.get(ce.get("fid"), []) if ce.get("fid") else []:
                    if g.cls != f.cls or g is f:
                        continue
                    ivs2, w2 = flag_writes(g)
                    if len(w2) == 1:
                        ivs, w = ivs2, w2
                        ps = [p_[0] for p_ in g.d.get("params", [])]
                        r_ = w2[0]["rhs"]
                        value = call_args(ce)[ps.index(r_[1])] if isinstance(r_, list) and r_[:1] == ["var"] and r_[1] in ps and len(call_args(ce)) == len(ps) else r_
        ok = len(ivs) == 1 and len(w) == 1 and isinstance(value, list) and value[0] == "lit" and value[1] == val and \
            bool(sx_find(w[0]["lhs"], lambda y: y[0] == "call" and y[1].endswith("::getMyMobilizedBodyIndex")))
        chk.judge(ok, "LOCK", "Motion::%s:flag<-%s" % (fname, val), f.loc, "stores %s for its own mobilizer through updInstanceVars" % val)
    # the variable is an Instance-stage variable
    f = _one(chk, P, REP + "::realizeSubsystemTopologyImpl")
    if f:
        al = [e["x"][3] for _, _, e in f.calls() if e.get("op") == "=" and isinstance(e.get("x"), list) and _memname(e["x"][2]) == "topoInstanceVarsIndex"] + \
             [e["rhs"] for _, _, e in f.events(lambda e: e["k"] == "assign" and _memname(e["lhs"]) == "topoInstanceVarsIndex")]
        ok = len(al) == 1 and bool(sx_find(al[0], lambda y: y[0] == "call" and y[1].endswith("::allocateDiscreteVariable"))) and \
            [_last(x) for x in sx_enums(al[0])] == ["Instance"]
        chk.judge(ok, "LOCK", "instance-vars-invalidate-Instance", f.loc, "the lock / disable variable is allocated so that a change invalidates Stage::Instance (partition rebuilt)")
    g = _one(chk, P, REP + "::updInstanceVars")
    if g:
        ok = any(str(e.get("fn", "")).endswith("::updDiscreteVariable") and bool(sx_find(e["x"], lambda y: y[0] == "mem" and _last(y[2]) == "topoInstanceVarsIndex")) for _, _, e in g.calls())
        chk.judge(ok, "LOCK", "updInstanceVars->updDiscreteVariable(topoInstanceVarsIndex)", g.loc, "write access goes through State::updDiscreteVariable (stage invalidation, C18)")


def forward(chk, P):
    chk.rule("FORWARD", "each MotionImpl::calcPrescribedX wrapper calls calcPrescribedXVirtual, and Motion::CustomImpl::calcPrescribedXVirtual forwards to the user "
             "Implementation's calcPrescribedX of the same name with (s, n, out) unchanged; getLevel / getLevelMethod likewise")
    for nm in PRESCRIBED_NAMES:
        for cls, src, dst in (("SimTK::MotionImpl", "calcPrescribed" + nm, "calcPrescribed" + nm + "Virtual"),
                              ("SimTK::Motion::CustomImpl", "calcPrescribed" + nm + "Virtual", "calcPrescribed" + nm)):
            fs = P.fns_named(cls + "::" + src)
            chk.require(bool(fs), "anchor vanished: %s::%s" % (cls, src))
            for f in fs:
                cs = [e for _, _, e in f.calls() if re.search(r"::calcPrescribed\w+$", str(e.get("fn", "")))]
                params = [p[0] for p in f.d.get("params", [])]
                ok = len(cs) == 1 and _last(cs[0]["fn"]) == dst and [var_of(a) for a in call_args(cs[0])] == params
                chk.judge(ok, "FORWARD", "%s::%s->%s" % (_last(cls), src, dst), f.loc, "calls %s with %s" % ([_last(c["fn"]) for c in cs], [sx_str(a) for c in cs for a in call_args(c)]))
    for nm in ("getLevel", "getLevelMethod"):
        fs = P.fns_named("SimTK::Motion::CustomImpl::" + nm + "Virtual")
        chk.require(bool(fs), "anchor vanished: Motion::CustomImpl::%sVirtual" % nm)
        for f in fs:
            cs = [e for _, _, e in f.calls() if re.search(r"Implementation::get\w+$", str(e.get("fn", "")))]
            chk.judge(len(cs) == 1 and _last(cs[0]["fn"]) == nm, "FORWARD", "CustomImpl::%sVirtual->%s" % (nm, nm), f.loc, "calls %s" % [_last(c["fn"]) for c in cs])


STAGES = ["Empty", "Topology", "Model", "Instance", "Time", "Position", "Velocity", "Dynamics", "Acceleration", "Report"]
# the realization stage at which the result of a Motion routine is put into its pool (FILL): a state variable the routine reads
# must invalidate that stage or an earlier one, otherwise a change of the variable leaves the pool -- and what prescribeQ/U apply -- stale
ROUTINE_STAGE = {"Position": "Time", "PositionDot": "Position", "Velocity": "Position",
                 "PositionDotDot": "Dynamics", "VelocityDot": "Dynamics", "Acceleration": "Dynamics",
                 "getLevel": "Instance", "getLevelMethod": "Instance"}
VAR_READ = re.compile(r"::(getVar|getDiscreteVariable|updVar|updDiscreteVariable)$")
VAR_ALLOC = re.compile(r"::(allocVar|allocateDiscreteVariable)$")


def varstage(chk, P):
    chk.rule("VARSTAGE", "every state variable that a built-in Motion's calcPrescribedX / getLevel / getLevelMethod routine reads is allocated with an invalidation stage no "
             "later than the stage whose realization puts that routine's result into the prescribed-value pool (Position: Time; PositionDot, Velocity: Position; "
             "PositionDotDot, VelocityDot, Acceleration: Dynamics; level and method: Instance) -- so changing the variable on a realized State re-fills the pool before prescribeQ/U use it")
    # the FILL table is the source of the stage: check that it still says what ROUTINE_STAGE assumes
    for fname, (lvl, pool, _l) in sorted(FILL.items()):
        want = {"realizeTime": "Time", "realizePosition": "Position", "realizeDynamics": "Dynamics"}[fname]
        f = _one(chk, P, "SimTK::MobilizedBodyImpl::" + fname)
        if not f:
            continue
        called = sorted({_last(e["fn"])[len("calcPrescribed"):] for _, _, e in f.calls() if re.search(r"Motion(Impl)?::calcPrescribed\w+$", str(e.get("fn", "")))})
        chk.judge(bool(called) and all(ROUTINE_STAGE.get(c) == want for c in called), "VARSTAGE", "%s:fills-at-%s" % (fname, want), f.loc, "Motion routines called from %s: %s" % (fname, called))
    classes = sorted(c for c in P.subclasses("SimTK::MotionImpl"))
    chk.shape(len(classes) >= 3, "VARSTAGE", "MotionImpl-subclasses", "", "subclasses found: %s" % [_last(c) for c in classes])
    nvars = 0
    for cls in classes:
        ms = P.methods_of(cls)
        # allocation sites of this class: field <- allocVar(..., Stage)
        alloc = {}
        for m in ms:
            for b, i, e in m.events():
                w = ev_write(e)
                if not w or not field_of(w[0]) or w[2] is None:
                    continue
                cs = sx_find(w[2], lambda y: y[0] == "call" and VAR_ALLOC.search(str(y[1])))
                if cs:
                    st = [_last(x) for x in sx_enums(cs[0]) if x.startswith("SimTK::Stage::")]
                    alloc.setdefault(field_of(w[0]), []).append((st, "%s:%d" % (m.file, e["line"])))

        def reads(m, depth=2, seen=()):
            out = set()
            for _, _, e in m.calls():
                if VAR_READ.search(str(e.get("fn", ""))):
                    for a in call_args(e):
                        if field_of(a):
                            out.add(field_of(a))
                c = e.get("fid")
                if depth > 0 and c and c not in seen:
                    for g in P.by_id.get(c, []):
                        if g.cls == cls:
                            out |= reads(g, depth - 1, seen + (m.id,))
            return out
        for m in sorted(ms, key=lambda m: m.id):
            nm = _last(m.name)
            mm = re.match(r"(?:calcPrescribed(\w+)|(getLevel|getLevelMethod))Virtual$", nm)
            if not mm:
                continue
            key = mm.group(1) or mm.group(2)
            if key not in ROUTINE_STAGE:
                continue
            rs = sorted(reads(m))
            if not rs:
                chk.ok("VARSTAGE", "%s::%s:no-state-variable" % (_last(cls), nm), m.loc, "reads no state variable (parameters are construction-time members)")
                continue
            for fld in rs:
                nvars += 1
                sites = alloc.get(fld, [])
                inst = "%s::%s<-%s" % (_last(cls), nm, _last(fld))
                if not chk.shape(len(sites) == 1 and len(sites[0][0]) == 1, "VARSTAGE", inst + ":allocation-site", m.loc, "allocation sites of %s with their stage: %s" % (_last(fld), sites)):
                    continue
                st = sites[0][0][0]
                chk.judge(STAGES.index(st) <= STAGES.index(ROUTINE_STAGE[key]), "VARSTAGE", inst + ":invalidates<=%s" % ROUTINE_STAGE[key], sites[0][1],
                          "%s is allocated with invalidation stage %s but calcPrescribed%s is evaluated when Stage::%s is realized: after a change of the variable on a realized State the "
                          "pool keeps the old prescribed value" % (_last(fld), st, key, ROUTINE_STAGE[key]))
    chk.shape(nvars >= 1, "VARSTAGE", "some-variable-read", "", "%d (routine, variable) pairs" % nvars)


_R = "Simbody/src/SimbodyMatterSubsystemRep.cpp"
_M = "Simbody/src/MobilizedBody.cpp"
_I = "Simbody/src/MotionImpl.h"
MUTATIONS = [
    dict(name="Motion::Steady rate variable invalidates only Velocity", arm=True, file=_I,
         old="            allocVar(state, defaultU);", new="            allocVar(state, defaultU, Stage::Velocity);", expect="VARSTAGE:SteadyImpl::calcPrescribedVelocityVirtual<-currentU"),
    dict(name="case Zero of the uMethod switch appends to the udot list (copy-paste)", arm=True, file=_R,
         old="                ic.zeroU.push_back(UIndex(ux+i));", new="                ic.zeroUDot.push_back(UIndex(ux+i));", expect="PARTITION:u:Zero->zeroU"),
    dict(name="pool offset of prescribed u taken after the indices were appended", file=_R,
         old="            instanceInfo.firstPresU = PresUPoolIndex(ic.presU.size());\n            for (int i=0; i < nu; ++i)\n                ic.presU.push_back(UIndex(ux+i));\n            break;",
         new="            for (int i=0; i < nu; ++i)\n                ic.presU.push_back(UIndex(ux+i));\n            instanceInfo.firstPresU = PresUPoolIndex(ic.presU.size());\n            break;",
         expect="PARTITION:u:firstPresU"),
    dict(name="velocity-level lock leaves udot free", arm=True, file=_R,
         old="                        instanceInfo.uMethod = Motion::Prescribed;\n                        break;\n                    }\n                instanceInfo.udotMethod = Motion::Zero;",
         new="                        instanceInfo.uMethod = Motion::Prescribed;\n                        break;\n                    }", expect="LOCKMAP:Velocity:methods"),
    dict(name="a Motion is consulted even when it has been disabled", file=_R,
         old="        } else if (mobod.hasMotion() && !iv.prescribedMotionIsDisabled[mbx]) {", new="        } else if (mobod.hasMotion()) {", expect="LOCKMAP:Motion-only-if-present-and-enabled"),
    dict(name="velocity-locked values read with the q index base", file=_M,
         old="                cpc.presUPool[pux+i] = iv.lockedUs[UIndex(uStart+i)];", new="                cpc.presUPool[pux+i] = iv.lockedUs[UIndex(pux+i)];", expect="FILL:realizePosition:locked-values"),
    dict(name="non-holonomic Motion's acceleration filled from its velocity routine", arm=True, file=_M,
         old="                motion.calcPrescribedVelocityDot(sbs.getState(), nu, presUDotp);", new="                motion.calcPrescribedVelocity(sbs.getState(), nu, presUDotp);", expect="FILL:realizeDynamics:prescribed-by-u"),
    dict(name="prescribed u written to a scratch array when qdot != u", file=_M,
         old="                    rbn.multiplyByNInv(sbs, false, qdot, &cpc.presUPool[pux]);", new="                    rbn.multiplyByNInv(sbs, false, qdot, qdot);", expect="result-lands-in-pool"),
    dict(name="prescribeQ returns early when nothing is prescribed, forgetting the zero q's", file=_R,
         old="    if (npq==0 && nzq==0) return false; // don't invalidate positions", new="    if (npq==0) return false; // don't invalidate positions", expect="APPLY:prescribeQ:skip-only-if-nothing-to-apply"),
    dict(name="prescribeU copies only the first prescribed speed of each pool", file=_R,
         old="    for (int i=0; i < npu; ++i)\n        u[ic.presU[i]] = cpc.presUPool[i];", new="    for (int i=0; i < nzu; ++i)\n        u[ic.presU[i]] = cpc.presUPool[i];", expect="APPLY:prescribeU:presU:all-entries"),
    dict(name="Custom motion forwards VelocityDot to the user's Velocity routine", file=_I,
         old="    {   getImplementation().calcPrescribedVelocityDot(s,nu,udot); }", new="    {   getImplementation().calcPrescribedVelocity(s,nu,udot); }", expect="FORWARD:CustomImpl::calcPrescribedVelocityDotVirtual"),
    dict(name="lock / disable variable invalidates only Stage::Time", file=_R,
         old="        allocateDiscreteVariable(s, Stage::Instance, \n                                 new Value<SBInstanceVars>(iv));", new="        allocateDiscreteVariable(s, Stage::Time, \n                                 new Value<SBInstanceVars>(iv));",
         expect="LOCK:instance-vars-invalidate-Instance"),
    dict(name="unlock leaves an acceleration-level lock behind", file=_M,
         old="    iv.mobilizerLockLevel[getMyMobilizedBodyIndex()] = Motion::NoLevel;\n}", new="    iv.mobilizerLockLevel[getMyMobilizedBodyIndex()] = Motion::Acceleration;\n}", expect="LOCK:unlock:level<-NoLevel"),
]
