"""C13 -- Interaction forces obey Newton's third law (structural clauses).

PAIR+-: in every two-body element that applies action and reaction in one
function the two applications go to different bodies with force expressions
identical up to exactly one negation, each moment arm / station belonging to
the body it is applied to; FRAME adjacency in the force routines."""
import re

from ..facts import extract_split, units_matching, Program, AnalysisBroken, sx_find, sx_str
from ..match import ev_write, is_call, call_args, call_obj, field_of, var_of
from .. import frame

UNITS = r"/Simbody/src/(Force|Force_LinearBushing|HuntCrossleyForce|ElasticFoundationForce|SmoothSphereHalfSpaceForce|ExponentialSpringForce|CompliantContactSubsystem|CableSpring|CablePath|CableSpan)\.cpp$"
HDR = r"/Simbody/src/.*\.h$"
FRAME_FILES = re.compile(UNITS.replace(r"\.cpp$", r"[^/]*\.(cpp|h)$"))
PAIR_FUNCS = {
    "SimTK::Force::TwoPointLinearSpringImpl::calcForce": "index",
    "SimTK::Force::TwoPointLinearDamperImpl::calcForce": "index",
    "SimTK::Force::TwoPointConstantForceImpl::calcForce": "index",
    "SimTK::HuntCrossleyForceImpl::calcForce": "point",
    "SimTK::ElasticFoundationForceImpl::processContact": "point",
    "SimTK::SmoothSphereHalfSpaceForceImpl::calcForce": "point",
    "SimTK::ExponentialSpringForceImpl::calcForce": "point",
}
NOT_PAIR_CHECKABLE = {
    "Force::LinearBushing": "the two spatial forces F_GB1, F_GB2 are computed separately (shifted to each body origin) and applied with += each",
    "CompliantContactSubsystem": "F1 and F2 are computed separately by the contact force generators",
    "CableSpring/CablePath/CableSpan": "per-segment unit forces are accumulated by the path",
}
FRAME_EXCEPTIONS = {}


def digits(s):
    return re.sub(r"[^0-9]", "", s or "")


def suffix(s):
    """distinguishing tail of a paired name: body1/station1 -> '1', body_B/station_B -> 'B', ground -> 'ground'"""
    s = s or ""
    m = re.search(r"([0-9]+|_[A-Z][a-z0-9]*|Sphere|HalfSpace|ground|Ground)$", s)
    return m.group(1).lstrip("_").lower() if m else ""


def strip_neg(x):
    while isinstance(x, list) and x and x[0] == "ctor" and len(x[2]) == 1:
        x = x[2][0]     # Vec3(-(force)): conversion of the negated (negator<>) vector
    if isinstance(x, list) and x and ((x[0] == "un" and x[1] == "-") or (x[0] == "opc" and x[1] == "-" and len(x) == 3)):
        return x[2], -1
    return x, 1


def run(chk, tier, overlays=()):
    units = units_matching(UNITS)
    P = Program(extract_split(units, hdr=HDR, overlays=overlays))
    chk.units += units
    chk.nfunctions += len(P.fns)
    pairs(chk, P)
    digit_agreement(chk, P)
    frames(chk, P, FRAME_FILES, FRAME_EXCEPTIONS, floor=18)
    for k, v in NOT_PAIR_CHECKABLE.items():
        chk.note("not pair-checkable (FRAME only): %s -- %s" % (k, v))
    chk.floor("PAIR", 20)
    chk.assumptions += ["force magnitudes and the balance of separately computed force pairs (LinearBushing, CompliantContact, cables) are numerical and not decided"]


def frames(chk, P, file_re, exceptions, floor):
    chk.rule("FRAME", "monogram frame adjacency (X_AB * X_BC, R_AB * v_B, ~X_AB * p_A..; declared X_AD = product composes to A<-D) at every rotation/transform product "
             "whose operands both carry a parseable monogram; sites with unparseable names are counted as unchecked, not judged")
    n_ok = n_un = 0
    un = []
    for fn, e, kind, st, det in frame.scan(P, lambda f: bool(file_re.search(f))):
        site = "%s:%d" % (fn.file, e["line"])
        key = "%s:%s:%s" % (fn.name.replace("SimTK::", ""), kind, (e.get("var") if kind in ("decl", "vecdecl", "diffdecl", "aliasdecl") else frame.sx_str(e["x"])[:60]))
        if st == "ok":
            n_ok += 1
            chk.ok("FRAME", key, site, det)
        elif st == "unchecked":
            n_un += 1
            un.append("%s %s" % (site.split("/")[-1], det))
        elif st == "bad":
            ex = exceptions.get((fn.name, e.get("var") if kind in ("decl", "vecdecl", "diffdecl", "aliasdecl") else None)) or \
                (exceptions.get((fn.name, frame.sx_str(e["x"])[:60])) if kind == "product" else None)
            if ex:
                chk.ok("FRAME", key + ":tabled", site, ex)
            else:
                chk.violation("FRAME", key, site, det)
    chk.extra.setdefault("frame", {}).update(checked=n_ok, unchecked=n_un, unchecked_samples=un[:25])
    chk.floor("FRAME", floor)


def pairs(chk, P):
    chk.rule("PAIR", "each two-body element applies its action and reaction in one function as a +/- pair: two applications, two different body handles, force "
             "expressions structurally identical up to exactly one negation, and the station / moment arm used with a body carries that body's suffix; the contact elements "
             "apply both forces at one and the same point of space (each body's station is found from one common ground point), so that the pair has no net moment")
    for name, form in sorted(PAIR_FUNCS.items()):
        fs = P.fns_named(name)
        chk.require(bool(fs), "anchor vanished: " + name)
        if not fs:
            continue
        f = fs[0]
        short = name.replace("SimTK::", "")
        apps = []
        if form == "index":
            for b, i, e in f.events(lambda e: e["k"] == "call" and e.get("op") in ("+=", "-=")):
                lhs = e["x"][2]
                if not sx_find(lhs, lambda y: y[0] == "var" and y[1] == f.d["params"][1][0]):
                    continue
                idx = sx_find(lhs, lambda y: (y[0] == "opc" and y[1] == "[]") or y[0] == "idx")
                tgt = sx_str(idx[0][3] if idx and idx[0][0] == "opc" else (idx[0][2] if idx else lhs))
                rhs = e["x"][3]
                c = sx_find(rhs, lambda y: y[0] == "ctor" and "SpatialVec" in y[1])
                if not c or len(c[0][2]) != 2:
                    continue
                moment, force = c[0][2]
                arm = sx_find(moment, lambda y: y[0] == "var")
                apps.append(dict(tgt=tgt, sign=1 if e["op"] == "+=" else -1, force=force, arm=arm[0][1] if arm else "", moment=moment, e=e))
        else:
            for b, i, e in f.calls():
                if str(e.get("fn", "")).endswith("::applyForceToBodyPoint"):
                    a = call_args(e)
                    fx, sg = strip_neg(a[2])
                    apps.append(dict(tgt=sx_str(call_obj(e)), sign=sg, force=fx, arm=sx_str(a[1]), e=e))
        site = f.loc
        chk.judge(len(apps) == 2, "PAIR", short + ":two-applications", site, "expected exactly an action and a reaction, found %d applications" % len(apps))
        if len(apps) != 2:
            continue
        a, b = apps
        chk.judge(a["tgt"] != b["tgt"], "PAIR", short + ":different-bodies", site, "action and reaction go to %s and %s" % (a["tgt"], b["tgt"]))
        chk.judge(a["sign"] * b["sign"] == -1, "PAIR", short + ":opposite-signs", site, "exactly one of the two applications is negated")
        chk.judge(a["force"] == b["force"], "PAIR", short + ":same-force", site, "both use the same force expression: %s vs %s" % (sx_str(a["force"])[:40], sx_str(b["force"])[:40]))
        if form == "index":
            # the force inside the moment is the applied force, and the arm is a different variable per body
            for x in (a, b):
                fv = var_of(x["force"])
                chk.judge(bool(sx_find(x["moment"], lambda y: y[0] == "var" and y[1] == fv)) and x["moment"][0] == "opc" and x["moment"][1] == "%", "PAIR",
                          "%s:%s:moment=arm%%force" % (short, x["tgt"]), site, "moment is arm %% applied force")
            chk.judge(a["arm"] != b["arm"], "PAIR", short + ":different-arms", site, "each body uses its own moment arm (%s, %s)" % (a["arm"], b["arm"]))
        for x in (a, b):
            ts, as_ = suffix(x["tgt"]), suffix(x["arm"])
            if form == "index":
                ok = digits(x["tgt"]) == digits(x["arm"]) and digits(x["tgt"]) != ""
            else:
                ok = (digits(x["tgt"]) == digits(x["arm"]) and digits(x["tgt"]) != "") or (ts and ts == as_) or \
                     ({ts, as_} <= {"sphere", "1"} or {ts, as_} <= {"halfspace", "2"}) or (ts == "ground" and x["arm"].endswith("p_G")) or (ts == "b" and as_ == "b")
            chk.judge(ok, "PAIR", "%s:%s:own-station" % (short, x["tgt"]), site, "body %s is given station/arm %s" % (x["tgt"], x["arm"]))
        if form == "point":
            same_point(chk, P, f, short, a, b, site)


def same_point(chk, P, f, short, a, b, site):
    """point-form elements: the action and the reaction act at one and the same point of space, expressed in each body --
    station_k = body_k.findStationAtGroundPoint(state, P) with one P; or (body/Ground element) the Ground point is the body station's ground location"""
    decls = {d["var"]: d for _, _, d in f.events(lambda d: d["k"] == "decl")}
    pts = []
    for x in (a, b):
        d = decls.get(x["arm"])
        c = sx_find(d.get("init") or [], lambda y: y[0] == "call" and y[1].endswith("::findStationAtGroundPoint")) if d else []
        if c:
            pts.append((sx_str(c[0][2]), sx_str(c[0][3][1]) if len(c[0][3]) > 1 else None))
        else:
            pts.append(None)
    if all(pts):
        ok = pts[0][1] == pts[1][1] and pts[0][1] is not None and pts[0][0] == a["tgt"] and pts[1][0] == b["tgt"]
        chk.judge(ok, "PAIR", short + ":one-point-of-application", site,
                  "stations are %s.findStationAtGroundPoint(%s) and %s.findStationAtGroundPoint(%s): both forces must act at the same ground point, each expressed in its own body"
                  % (pts[0][0], pts[0][1], pts[1][0], pts[1][1]))
        return
    # body / Ground form: one arm is a station member of the element, the other a cached ground point computed from that very station
    fld = [x for x in (a, b) if x["arm"].endswith("p_G")]
    stn = [x for x in (a, b) if x not in fld]
    ok = False
    det = "arms %s / %s" % (a["arm"], b["arm"])
    if len(fld) == 1 and len(stn) == 1:
        fname = fld[0]["arm"].split(".")[-1]
        writes = []
        for g in P.all_fns():
            for _, _, e in g.events(lambda e: e["k"] == "assign" and isinstance(e["lhs"], list) and e["lhs"][0] == "mem" and e["lhs"][2].split("::")[-1] == fname and "Pos" in e["lhs"][2]):
                writes.append((g, e["rhs"]))
            for _, _, e in g.calls():   # class-type members are assigned through operator=
                if e.get("op") == "=" and isinstance(e.get("x"), list) and len(e["x"]) > 3 and isinstance(e["x"][2], list) and e["x"][2][0] == "mem" and \
                        e["x"][2][2].split("::")[-1] == fname and "Pos" in e["x"][2][2]:
                    writes.append((g, e["x"][3]))
        ok = bool(writes) and all(sx_find(e, lambda y: y[0] == "call" and y[1].endswith("::findStationLocationInGround") and sx_str(y[2]) == stn[0]["tgt"] and
                                          len(y[3]) > 1 and sx_str(y[3][1]) == stn[0]["arm"]) for g, e in writes)
        det = "%s is written %d time(s), always as %s.findStationLocationInGround(state, %s)" % (fld[0]["arm"], len(writes), stn[0]["tgt"], stn[0]["arm"])
    chk.judge(ok, "PAIR", short + ":one-point-of-application", site, det)


def digit_agreement(chk, P):
    """In the two-point elements every quantity carries the number of the body it belongs to: a product or sum that defines x1... may only combine
    operands numbered 1 (or unnumbered), e.g. s2_G = X_GB2.R() * station2."""
    n = 0
    for cls in ("SimTK::Force::TwoPointLinearSpringImpl", "SimTK::Force::TwoPointLinearDamperImpl", "SimTK::Force::TwoPointConstantForceImpl"):
        for f in P.methods_of(cls):
            if f.name.split("::")[-1] not in ("calcForce", "calcPotentialEnergy"):
                continue
            for b, i, d in f.events(lambda d: d["k"] == "decl" and d["init"] is not None):
                dl = digits(d["var"])
                if dl not in ("1", "2"):
                    continue
                used = set(digits(y[1]) for y in sx_find(d["init"], lambda y: y[0] == "var") if digits(y[1]) in ("1", "2"))
                used |= set(digits(y[2].split("::")[-1]) for y in sx_find(d["init"], lambda y: y[0] == "mem") if digits(y[2].split("::")[-1]) in ("1", "2"))
                if not used:
                    continue
                n += 1
                chk.judge(used == {dl}, "PAIR", "%s:%s:numbering" % (f.name.replace("SimTK::", ""), d["var"]), "%s:%d" % (f.file, d["line"]),
                          "%s (body %s) is computed from quantities of body %s: %s" % (d["var"], dl, sorted(used), sx_str(d["init"])[:60]))
    chk.shape(n >= 12, "PAIR", "numbering-sites>=12", "", "numbered definitions examined: %d" % n)


_F = "Simbody/src/Force.cpp"
_HC = "Simbody/src/HuntCrossleyForce.cpp"
MUTATIONS = [
    dict(name="seeded (sub-agent): Hunt-Crossley action and reaction applied at two different stiffness-adjusted points", arm=True, file=_HC,
         old="        const Vec3 station2 = body2.findStationAtGroundPoint(state, location);", new="        const Vec3 station2 = body2.findStationAtGroundPoint(state, contact.getLocation());",
         expect="PAIR:HuntCrossleyForceImpl::calcForce:one-point-of-application"),
    dict(name="spring reaction applied with body 1's arm", arm=True, file=_F,
         old="    bodyForces[body1] +=  SpatialVec(s1_G % f1_G, f1_G);\n    bodyForces[body2] -=  SpatialVec(s2_G % f1_G, f1_G);\n}\n\nReal Force::TwoPointLinearSpringImpl",
         new="    bodyForces[body1] +=  SpatialVec(s1_G % f1_G, f1_G);\n    bodyForces[body2] -=  SpatialVec(s1_G % f1_G, f1_G);\n}\n\nReal Force::TwoPointLinearSpringImpl",
         expect="PAIR:Force::TwoPointLinearSpringImpl::calcForce"),
    dict(name="Hunt-Crossley reaction not negated", arm=True, file=_HC,
         old="        body1.applyForceToBodyPoint(state, station1, -force, bodyForces);", new="        body1.applyForceToBodyPoint(state, station1, force, bodyForces);",
         expect="PAIR:HuntCrossleyForceImpl::calcForce:opposite-signs"),
    dict(name="spring station re-expressed with the other body's rotation", file=_F,
         old="    const Vec3 s2_G = X_GB2.R() * station2;\n\n    const Vec3 p1_G = X_GB1.p() + s1_G; // station measured from ground origin\n    const Vec3 p2_G = X_GB2.p() + s2_G;\n\n    const Vec3 r_G       = p2_G - p1_G; // vector from point1 to point2\n    const Real d         = r_G.norm();  // distance between the points\n    const Real stretch   = d - x0;",
         new="    const Vec3 s2_G = X_GB1.R() * station2;\n\n    const Vec3 p1_G = X_GB1.p() + s1_G; // station measured from ground origin\n    const Vec3 p2_G = X_GB2.p() + s2_G;\n\n    const Vec3 r_G       = p2_G - p1_G; // vector from point1 to point2\n    const Real d         = r_G.norm();  // distance between the points\n    const Real stretch   = d - x0;",
         expect="TwoPointLinearSpringImpl::calcForce:s2_G:numbering"),
    dict(name="bushing frame on body 2 composed with body 1's transform", file="Simbody/src/Force_LinearBushing.cpp",
         old="    pc.X_GM =     X_GB2*   X_B2M;   // 63 flops", new="    pc.X_GM =     X_GB1*   X_B2M;   // 63 flops", expect="FRAME:"),
]
