"""C14 -- Mobilizer reaction forces satisfy Newton-Euler (coverage / pairing / frame clauses of the two reaction-force routines).

That the reactions balance each body's equation of motion is arithmetic and NOT decided.  Visible in the shape of
SimbodyMatterSubsystemRep::calcMobilizerReactionForces and ...UsingFreebodyMethod:
 COVER    the result is sized to the number of bodies and every body (Ground included) receives its reaction on every iteration path.
 PAIRIDX  every per-body array (articulated forces / inertias, applied forces, the result) is subscripted with the body being processed;
          parent quantities are taken from that body's own parent and only under `mbx != GroundIndex` / `i != 0`.
 SWEEP    the free-body method visits the levels from the outermost to 0 (a parent's balance needs its children's reactions, which each
          child subtracts from otherFB_G[parent]) over all nodes; the hand-over to the parent happens on every non-root iteration.
 FRAME    monogram adjacency and point-difference naming in both routines (p_PB_G = p_GB - p_GP, R_GB * p_BM, shift vectors)."""
import re
from ..facts import extract, units_matching, Program, sx_find, sx_str
from ..match import call_args, call_obj, var_of, ev_write, known_edges, only_via
from ..columns import _loop_var, _steps, _lit, _iter_bypass
from .. import frame

UNITS = r"/Simbody/src/SimbodyMatterSubsystemRep\.cpp$"
FUNCS = ("calcMobilizerReactionForces", "calcMobilizerReactionForcesUsingFreebodyMethod")


def _strip(x):
    while isinstance(x, list) and x and x[0] in ("conv", "cast", "ctor"):
        if x[0] == "conv":
            x = x[1]
        elif x[0] == "cast":
            x = x[2]
        else:
            if len(x[2]) != 1:
                break
            x = x[2][0]
    return x


def run(chk, tier, overlays=()):
    units = units_matching(UNITS)
    P = Program(extract(units, hdr="^$", overlays=overlays))
    chk.units += units
    chk.nfunctions += len(P.fns)
    chk.rule("COVER", "both reaction-force routines size the result to getNumBodies() and assign the reaction of the body being processed on every iteration path of a loop that visits every body")
    chk.rule("PAIRIDX", "inside the body loop every per-body array is subscripted with the body being processed, and parent quantities are read only for non-Ground bodies from that body's own parent")
    chk.rule("SWEEP", "the free-body method sweeps the levels from the outermost to 0 over all nodes and hands each non-root body's reaction to its parent's force balance on every such iteration")
    fns = {}
    for n in FUNCS:
        fs = [f for f in P.all_fns() if f.name.split("::")[-1] == n and "SimbodyMatterSubsystemRep" in f.name]
        if chk.shape(len(fs) == 1, "COVER", n + ":found", "", "%d" % len(fs)):
            fns[n] = fs[0]
    for n, f in sorted(fns.items()):
        out = f.d["params"][-1][0]
        rs = [e for _, _, e in f.calls() if str(e.get("fn", "")).endswith("::resize") and var_of(call_obj(e)) == out]
        nbv = {d["var"] for _, _, d in f.events(lambda q: q["k"] == "decl" and isinstance(q.get("init"), list) and bool(sx_find(q["init"], lambda y: y[0] == "call" and y[1].endswith("::getNumBodies"))))}
        okr = len(rs) == 1 and (var_of(call_args(rs[0])[0]) in nbv or bool(sx_find(call_args(rs[0])[0], lambda y: y[0] == "call" and y[1].endswith("::getNumBodies"))))
        chk.judge(okr, "COVER", n + ":result-sized-to-the-number-of-bodies", f.loc, "resize argument %s" % (sx_str(call_args(rs[0])[0]) if rs else None))
        loops = f.loops()
        # the writes of the result
        ws = [(b, i, e) for b, i, e in f.events(lambda q: bool(ev_write(q)) and ev_write(q)[1] == "=" and var_of(ev_write(q)[0]) == out and ev_write(q)[0][0] != "var")]
        if not chk.shape(len(ws) == 1, "COVER", n + ":one-result-write", f.loc, "%d element writes of %s" % (len(ws), out)):
            continue
        wb, wi, w = ws[0]
        idx = _strip(ev_write(w)[0][3]) if len(ev_write(w)[0]) > 3 else None
        bodyv = idx[1] if isinstance(idx, list) and idx[:1] == ["var"] else None
        hs = f.loops_of(wb)
        chk.shape(bool(hs) and bodyv is not None, "COVER", n + ":written-in-a-body-loop", f.loc, "%s[%s] written inside %d loops" % (out, bodyv, len(hs)))
        if not hs or bodyv is None:
            continue
        hin = min(hs, key=lambda h: len(loops[h]))
        byp = _iter_bypass(f, hin, loops[hin], (hin, len(f.blocks[hin]["ev"]) - 1), [w])
        chk.judge(byp is None, "COVER", n + ":every-body-gets-its-reaction", "%s:%d" % (f.file, w["line"]), "an iteration can finish without assigning %s[%s]" % (out, bodyv), byp)
        if n == "calcMobilizerReactionForces":
            iv, c = _loop_var(f, hin)
            d0 = [d for _, _, d in f.events(lambda q: q["k"] == "decl" and q["var"] == iv)]
            ok = iv == bodyv and len(d0) == 1 and _lit(d0[0].get("init"), ("0",)) and isinstance(c, list) and c[1] == "<" and var_of(c[3]) in nbv and _steps(f, loops[hin], iv) == ["++"]
            chk.judge(ok, "COVER", n + ":bodies-0..nb-1", f.loc, "loop %s = %s; %s" % (iv, sx_str(d0[0].get("init")) if d0 else None, sx_str(c)))
        else:
            # body index comes from node [i][j]; levels swept inward
            bd = [d for _, _, d in f.events(lambda q: q["k"] == "decl" and q["var"] == bodyv)]
            houter = max(hs, key=lambda h: len(loops[h]))
            iv, c = _loop_var(f, houter)
            jv, cj = _loop_var(f, hin)
            okb = len(bd) == 1 and bool(sx_find(bd[0]["init"], lambda y: y[0] == "call" and y[1].endswith("::getNodeNum"))) and {y[1] for y in sx_find(bd[0]["init"], lambda y: y[0] == "var")} >= {iv, jv}
            chk.judge(okb, "SWEEP", n + ":body=node[i][j]", f.loc, "%s = %s" % (bodyv, sx_str(bd[0]["init"]) if bd else None))
            di = [d for _, _, d in f.events(lambda q: q["k"] == "decl" and q["var"] == iv)]
            lv = lambda x: bool(sx_find(x, lambda y: y[0] == "mem" and y[2].endswith("::rbNodeLevels")))
            init = di[0].get("init") if len(di) == 1 else None
            oks = isinstance(init, list) and lv(init) and bool(sx_find(init, lambda y: y[0] in ("op", "opc") and y[1] == "-" and _lit(y[3], ("1",)))) and isinstance(c, list) and c[1] == ">=" and _lit(c[3], ("0",)) and \
                _steps(f, loops[houter] - loops[hin], iv) == ["--"]
            chk.judge(oks, "SWEEP", n + ":levels-last..0-children-before-parents", f.loc, "level loop %s = %s; %s; %s" % (iv, sx_str(init), sx_str(c), _steps(f, loops[houter] - loops[hin], iv)))
            dj = [d for _, _, d in f.events(lambda q: q["k"] == "decl" and q["var"] == jv)]
            okj = any(_lit(d.get("init"), ("0",)) for d in dj) and isinstance(cj, list) and cj[1] == "<" and lv(cj[3]) and _steps(f, loops[hin], jv) == ["++"]
            chk.judge(okj, "SWEEP", n + ":all-nodes-of-the-level", f.loc, "node loop %s; %s" % (jv, sx_str(cj)))
            # hand-over to the parent: otherFB_G[px] -= shift(FB_G, ...), skipped only at level 0
            hand = [(b, i, e) for b, i, e in f.events(lambda q: bool(ev_write(q)) and ev_write(q)[1] == "-=" and ev_write(q)[0][0] != "var") if b in loops[hin]]
            if chk.shape(len(hand) == 1, "SWEEP", n + ":hand-over", f.loc, "%d `-=` element writes in the node loop" % len(hand)):
                hb, hi, he = hand[0]
                pidx = _strip(ev_write(he)[0][3]) if len(ev_write(he)[0]) > 3 else None
                pv = pidx[1] if isinstance(pidx, list) and pidx[:1] == ["var"] else None
                pd = [d for _, _, d in f.events(lambda q: q["k"] == "decl" and q["var"] == pv)]
                parent_ok = len(pd) == 1 and bool(sx_find(pd[0]["init"], lambda y: y[0] == "call" and y[1].endswith("::getMobilizedBodyIndex")))
                pobj = var_of(sx_find(pd[0]["init"], lambda y: y[0] == "call" and y[1].endswith("::getMobilizedBodyIndex"))[0][2]) if parent_ok else None
                pdecl = [d for _, _, d in f.events(lambda q: q["k"] == "decl" and q["var"] == pobj)] if pobj else []
                parent_ok = parent_ok and len(pdecl) == 1 and bool(sx_find(pdecl[0]["init"], lambda y: y[0] == "call" and y[1].endswith("::getParentMobilizedBody")))
                chk.judge(parent_ok, "PAIRIDX", n + ":handed-to-the-body's-own-parent", "%s:%d" % (f.file, he["line"]), "%s[%s] with %s = %s" % (sx_str(ev_write(he)[0][2]), pv, pv, sx_str(pd[0]["init"]) if pd else None))
                root = known_edges(f, lambda c_: isinstance(c_, list) and len(c_) == 4 and c_[0] == "op" and c_[1] == "==" and c_[2] == ["var", iv] and _lit(c_[3], ("0",)),
                                   lambda c_: isinstance(c_, list) and len(c_) == 4 and c_[0] == "op" and c_[1] == "!=" and c_[2] == ["var", iv] and _lit(c_[3], ("0",)))
                byp2 = _skip_path(f, hin, loops[hin], he, root)
                chk.judge(byp2 is None, "SWEEP", n + ":every-non-root-body-handed-over", "%s:%d" % (f.file, he["line"]), "an iteration at a level other than 0 can finish without the hand-over", byp2)
        # per-body arrays subscripted with the body being processed (the hand-over statement addresses the parent's slot by design)
        allowed = {bodyv} | ({pv} if n.endswith("FreebodyMethod") and "pv" in locals() and pv else set())
        bad = []
        for b in loops[hin]:
            for e in f.blocks[b]["ev"]:
                for x in (e.get("x"), e.get("init"), e.get("rhs"), e.get("lhs")):
                    for y in sx_find(x, lambda y: y[0] in ("opc", "idx") and len(y) > 3 and y[1] == "[]" and isinstance(y[2], list) and y[2][:1] == ["var"]):
                        arr = y[2][1]
                        ad = [d for _, _, d in f.events(lambda q: q["k"] == "decl" and q["var"] == arr)]
                        per_body = arr == out or any("MobilizedBodyIndex" in str(d.get("ty", "")) or "Vector_<SimTK::SpatialVec" in str(d.get("ty", "")) or "Vector_<SpatialVec" in str(d.get("ty", "")) for d in ad)
                        k = _strip(y[3])
                        if per_body and not (isinstance(k, list) and k[:1] == ["var"] and k[1] in allowed):
                            bad.append("%s[%s]@%d" % (arr, sx_str(k), e["line"]))
        chk.judge(not bad, "PAIRIDX", n + ":per-body-arrays-indexed-by-the-body", f.loc, "subscripts that are not the body being processed: %s" % sorted(set(bad))[:4])
        # parent data only for non-Ground bodies
        par = [(b, e) for b, _, e in f.calls() if str(e.get("fn", "")).endswith("::getParentMobilizedBody")]
        if n == "calcMobilizerReactionForces":
            ng = known_edges(f, lambda c_: isinstance(c_, list) and len(c_) >= 4 and c_[0] in ("op", "opc") and c_[1] == "!=" and _strip(c_[2]) == ["var", bodyv] and bool(sx_find(c_[3], lambda y: y[0] == "gvar" and y[1].endswith("GroundIndex"))),
                             lambda c_: isinstance(c_, list) and len(c_) >= 4 and c_[0] in ("op", "opc") and c_[1] == "==" and _strip(c_[2]) == ["var", bodyv] and bool(sx_find(c_[3], lambda y: y[0] == "gvar" and y[1].endswith("GroundIndex"))))
            chk.judge(bool(par) and bool(ng) and all(only_via(f, b, ng) for b, e in par), "PAIRIDX", n + ":parent-read-only-for-non-Ground", f.loc, "%d parent accesses, all under %s != GroundIndex" % (len(par), bodyv))
        chk.judge(bool(par) and all(var_of(call_obj(e)) is not None for b, e in par), "PAIRIDX", n + ":parent-of-the-body-itself", f.loc, "getParentMobilizedBody() called on %s" % sorted({sx_str(call_obj(e)) for b, e in par}))
    # FRAME in the two routines
    chk.rule("FRAME", "monogram frame adjacency and point-difference naming (p_XY = p(Y) - p(X)) at every parseable site of the two reaction-force routines")
    n_ok = 0
    # the two routines and the file-local (non-member) helpers they call: a shift extracted into `static SpatialVec shiftTo..(..)` is still theirs
    mine = set()
    for g in P.all_fns():
        if g.name.split("::")[-1] in FUNCS:
            mine.add(g.id)
            for _, _, q in g.calls():
                for h_ in P.by_id.get(q.get("fid"), []):
                    if h_.blocks and not h_.cls and h_.file == g.file:
                        mine.add(h_.id)
    for fn, e, kind, st, det in frame.scan(P, lambda f: True):
        if fn.id not in mine:
            continue
        key = "%s:%s:%s" % (fn.name.split("::")[-1], kind, (e.get("var") if kind in ("decl", "vecdecl", "diffdecl", "aliasdecl") else sx_str(e["x"])[:50]))
        site = "%s:%d" % (fn.file, e["line"])
        if st == "ok":
            n_ok += 1
            chk.ok("FRAME", key, site, det)
        elif st == "bad":
            chk.violation("FRAME", key, site, det)
    chk.floor("FRAME", 3)     # (two point differences + the shift product, which the routines may share through a helper)
    chk.floor("COVER", 6)
    chk.floor("PAIRIDX", 5)
    chk.floor("SWEEP", 5)
    chk.assumptions += ["that the reactions balance each body's Newton-Euler equation (the articulated-body expression F = z+ + P+ A+, the free-body f = ma with gyroscopic and applied forces) is numerical and not decided"]


def _skip_path(f, h, body, must_ev, allowed_edges):
    """a path through one iteration of loop h (from its header back to it) that passes neither must_ev nor one of the allowed edges"""
    infeas = f.infeasible_edges()
    seen, st = set(), [(s, (h, s)) for s in f.succs(h) if s in body and (h, s) not in infeas]
    while st:
        b, path = st.pop()
        if b in seen:
            continue
        seen.add(b)
        if any(e is must_ev for e in f.blocks[b]["ev"]):
            continue
        for s in f.succs(b):
            if (b, s) in infeas or (b, s) in allowed_edges:
                continue
            if s == h:
                return list(path) + [h]
            if s in body:
                st.append((s, path + (s,)))
    return None


_R = "Simbody/src/SimbodyMatterSubsystemRep.cpp"
MUTATIONS = [
    dict(name="reaction loop skips Ground's (always zero?) slot and leaves it unassigned", arm=True, file=_R,
         old="    for (MobodIndex mbx(0); mbx < nb; ++mbx) {\n        const MobilizedBody& body = getMobilizedBody(mbx);\n        const Transform& X_GB = body.getBodyTransform(s);\n     \n        SpatialVec FB_G = zPlus[mbx];",
         new="    for (MobodIndex mbx(1); mbx < nb; ++mbx) {\n        const MobilizedBody& body = getMobilizedBody(mbx);\n        const Transform& X_GB = body.getBodyTransform(s);\n     \n        SpatialVec FB_G = zPlus[mbx];",
         expect="COVER:calcMobilizerReactionForces:bodies-0..nb-1"),
    dict(name="parent offset vector computed the other way round", arm=True, file=_R,
         old="            const Vec3& p_PB_G = X_GB.p() - X_GP.p(); // 3 flops", new="            const Vec3& p_PB_G = X_GP.p() - X_GB.p(); // 3 flops", expect="FRAME:calcMobilizerReactionForces:diffdecl:p_PB_G"),
    dict(name="free-body method swept base to tip", file=_R,
         old="    for (int i = (int)rbNodeLevels.size()-1; i >= 0; --i)\n        for (int j = 0; j < (int)rbNodeLevels[i].size(); ++j) {\n            const MobilizedBodyIndex mbx = rbNodeLevels[i][j]->getNodeNum();",
         new="    for (int i = 0; i < (int)rbNodeLevels.size(); ++i)\n        for (int j = 0; j < (int)rbNodeLevels[i].size(); ++j) {\n            const MobilizedBodyIndex mbx = rbNodeLevels[i][j]->getNodeNum();",
         expect="SWEEP:calcMobilizerReactionForcesUsingFreebodyMethod:levels-last..0"),
    dict(name="articulated force of the parent used for the body", file=_R,
         old="        SpatialVec FB_G = zPlus[mbx];\n        if (mbx != GroundIndex) {", new="        SpatialVec FB_G = zPlus[GroundIndex];\n        if (mbx != GroundIndex) {", expect="PAIRIDX:calcMobilizerReactionForces:per-body-arrays-indexed-by-the-body"),
    dict(name="station offset re-expressed with the inverse rotation", file=_R,
         old="        const Vec3       p_BM_G = X_GB.R()*p_BM; // p_BM in G, 15 flops", new="        const Vec3       p_BM_G = ~X_GB.R()*p_BM; // p_BM in G, 15 flops", expect="FRAME:calcMobilizerReactionForces"),
]
