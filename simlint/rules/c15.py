"""C15 -- System mass, momentum and composite inertias equal per-body sums (coverage / accumulation clauses).

The formulas (parallel-axis shifts, re-expression) are numerical and are NOT decided.  What is visible in the shape of the
aggregate calculators is *that they are sums over the individual bodies*:

 SUM      each system aggregate of SimbodyMatterSubsystem has one loop over the mobilized bodies that starts at body 1 (Ground,
          index 0, is massless by construction), runs while b < getNumBodies() and steps by one; every accumulator it adds to
          is a local that was zero-initialised before the loop, is added to exactly once per iteration on every path of the
          body, and every per-body quantity is taken from getMobilizedBody(b) with the loop variable itself; a mass-weighted
          average divides by the very mass accumulator, under `mass != 0`, and the weight multiplied into the numerator is the
          mass added to the denominator; what is returned is built from the accumulators.
 SWEEP    kinetic energy adds calcKineticEnergy of every node of every level but Ground's; composite-body inertias sweep all
          levels from the outermost to level 0 (children before parents) over all nodes, and the per-node routine starts from
          the body's own spatial inertia and adds, for every child, that child's composite inertia shifted by the same child's
          phi matrix.
 DELEGATE calcSystemCentralInertiaInGround is calcCentralInertia() of calcSystemMassPropertiesInGround(s)."""
import re
from ..facts import extract, units_matching, Program, AnalysisBroken, sx_find, sx_str
from ..match import call_args, call_obj, var_of, field_of, known_edges, only_via, ev_write
from ..columns import range_for
from .c13 import frames

UNITS = r"/Simbody/src/(SimbodyMatterSubsystem|SimbodyMatterSubsystemRep|RigidBodyNode|RigidBodyNode_Weld|RigidBodyNode_LoneParticle)\.cpp$"
M = "SimTK::SimbodyMatterSubsystem"
AGGREGATES = {  # function -> mass-weighted averages (accumulator role) expected: number of `/=` normalisations
    "calcSystemMass": 0,
    "calcSystemMassCenterLocationInGround": 1,
    "calcSystemMassPropertiesInGround": 1,
    "calcSystemMassCenterVelocityInGround": 1,
    "calcSystemMassCenterAccelerationInGround": 1,
    "calcSystemMomentumAboutGroundOrigin": 0,
    "calcSystemCentralMomentum": 1,
}


def _zero(x):
    """the initialiser is zero: 0, Vec3(0), Inertia(0), SpatialVec(Vec3(0), Vec3(0)) ..."""
    if not isinstance(x, list):
        return False
    lits = sx_find(x, lambda y: y[0] == "lit")
    others = sx_find(x, lambda y: y[0] in ("var", "mem", "call", "gvar", "dcall"))
    return bool(lits) and all(l[1] in ("0", "0.0", "0.") for l in lits) and not others


def _loop_var(f, h):
    t = f.blocks[h].get("term")
    c = t.get("cond") if t else None
    if isinstance(c, list) and len(c) == 4 and c[0] in ("op", "opc") and c[1] in ("<", ">=", "<=", ">", "!="):
        return var_of(c[2]), c
    return None, c


def _steps(f, body, v):
    out = []
    for b in body:
        for e in f.blocks[b]["ev"]:
            if e["k"] == "call" and e.get("op") in ("++", "--", "+=", "-=") and var_of(e["x"][2]) == v and e["x"][2][0] == "var":
                out.append((e["op"], e))
            if e["k"] == "assign" and var_of(e["lhs"]) == v and e["lhs"][0] == "var":
                out.append((e["op"], e))
    return out


def _iter_bypass(f, h, body, must):
    """a path through one iteration (header's body successor back to the header) that passes no event of `must`"""
    infeas = f.infeasible_edges()
    start = [s for s in f.succs(h) if s in body and (h, s) not in infeas]
    seen, st = set(), [(s, (h, s)) for s in start]
    while st:
        b, path = st.pop()
        if b in seen:
            continue
        seen.add(b)
        if any(any(e is m for m in must) for e in f.blocks[b]["ev"]):
            continue
        for s in f.succs(b):
            if (b, s) in infeas:
                continue
            if s == h:
                return list(path) + [h]
            if s in body:
                st.append((s, path + (s,)))
    return None


def _accum_events(f, body):
    """(accumulator root variable, event, rhs) for every `X += rhs` / `X[k] += rhs` in the loop body where X is a local declared outside the loop"""
    out = []
    for b in sorted(body):
        for e in f.blocks[b]["ev"]:
            w = ev_write(e)
            if not w or w[1] != "+=":
                continue
            v = var_of(w[0])
            if v:
                out.append((v, e, w[2], w[0]))
    return out


def sums(chk, P):
    for name, nnorm in sorted(AGGREGATES.items()):
        fs = P.fns_named(M + "::" + name)
        if not chk.shape(len(fs) == 1, "SUM", name + ":found", "", "%d definitions" % len(fs)):
            continue
        f = fs[0]
        loops_all = f.loops()
        if not chk.shape(len(loops_all) >= 1 and not any(h2 in loops_all[h1] for h1 in loops_all for h2 in loops_all if h1 != h2), "SUM", name + ":body-loops", f.loc,
                         "%d (un-nested) loops over the bodies" % len(loops_all)):
            continue
        all_roots, all_acc = [], []
        for ln, (h, body) in enumerate(sorted(loops_all.items(), key=lambda kv: -kv[0])):
          tag = name if len(loops_all) == 1 else "%s:loop#%d" % (name, ln)
          _sum_loop(chk, f, h, body, tag, all_roots, all_acc)
        _sum_after(chk, f, name, nnorm, loops_all, all_roots, all_acc)


def _sum_loop(chk, f, h, body, name, all_roots, all_acc):
        v, c = _loop_var(f, h)
        decls = {}
        for b, i, d in f.events(lambda q: q["k"] == "decl"):
            decls.setdefault(d["var"], []).append((b, d))
        # ---- coverage: b = 1 .. getNumBodies()-1, step one
        hl = [e["line"] for e in f.blocks[h]["ev"] if "line" in e]
        hline = max(hl) if hl else 10 ** 9
        d0 = sorted([x for x in decls.get(v, []) if x[1]["line"] <= hline], key=lambda x: x[1]["line"])[-1:]      # the loop variable's declaration in force at this loop
        start_ok = len(d0) == 1 and d0[0][0] not in body and isinstance(d0[0][1].get("init"), list) and [l[1] for l in sx_find(d0[0][1]["init"], lambda y: y[0] == "lit")] == ["1"] \
            and not sx_find(d0[0][1]["init"], lambda y: y[0] in ("var", "call", "mem"))
        chk.judge(start_ok, "SUM", name + ":starts-at-body-1", f.loc, "loop variable %s starts at %s (Ground, body 0, is skipped; body 1 must not be)" % (v, sx_str(d0[0][1].get("init")) if d0 else None))
        end_ok = isinstance(c, list) and c[1] == "<" and isinstance(c[3], list) and c[3][0] == "call" and c[3][1].endswith("::getNumBodies") and not c[3][3]
        chk.judge(end_ok, "SUM", name + ":runs-to-the-last-body", f.loc, "loop condition %s (required: %s < getNumBodies())" % (sx_str(c), v))
        st = _steps(f, body, v)
        chk.judge(len(st) == 1 and st[0][0] == "++", "SUM", name + ":step-one", f.loc, "loop variable updates: %s" % [s_[0] for s_ in st])
        # ---- per-body quantities come from getMobilizedBody(b)
        gm = [e for b in body for e in f.blocks[b]["ev"] if e["k"] == "call" and e.get("fn", "").endswith("::getMobilizedBody")]
        chk.judge(bool(gm) and all(var_of(call_args(e)[0]) == v and call_args(e)[0][0] == "var" for e in gm), "SUM", name + ":bodies-selected-by-the-loop-variable", f.loc,
                  "getMobilizedBody arguments in the loop: %s" % sorted({sx_str(call_args(e)[0]) for e in gm}))
        # ---- accumulators
        acc = _accum_events(f, body)
        roots = sorted({a[0] for a in acc})
        chk.shape(bool(roots), "SUM", name + ":accumulators", f.loc, "accumulators: %s" % roots)
        for r in roots:
            dd = decls.get(r, [])
            chk.judge(len(dd) == 1 and dd[0][0] not in body and _zero(dd[0][1].get("init")), "SUM", "%s:%s:zero-before-the-loop" % (name, r), f.loc,
                      "accumulator %s is initialised with %s outside the loop" % (r, sx_str(dd[0][1].get("init")) if dd else None))
            evs = [(a[1], a[3]) for a in acc if a[0] == r]
            slots = {}
            for e, lhs in evs:
                slots.setdefault(sx_str(lhs), []).append(e)
            for slot, es in sorted(slots.items()):
                chk.judge(len(es) == 1, "SUM", "%s:%s:added-once-per-body" % (name, slot), "%s:%d" % (f.file, es[0]["line"]), "%d additions to %s per iteration" % (len(es), slot))
                byp = _iter_bypass(f, h, body, es)
                chk.judge(byp is None, "SUM", "%s:%s:added-for-every-body" % (name, slot), "%s:%d" % (f.file, es[0]["line"]), "an iteration can finish without adding to %s" % slot, byp)
        all_roots += [r for r in roots if r not in all_roots]
        all_acc += acc


def _sum_after(chk, f, name, nnorm, loops_all, roots, acc):
        body = set().union(*loops_all.values())
        # ---- mass-weighted averages
        norms = [(b, e) for b, _, e in f.events(lambda q: q["k"] == "call" and q.get("op") == "/=") if b not in body]
        norms += [(b, e) for b, _, e in f.events(lambda q: q["k"] == "assign" and q["op"] == "/=") if b not in body]
        chk.judge(len(norms) == nnorm, "SUM", name + ":normalisations", f.loc, "%d divisions after the loop (expected %d)" % (len(norms), nnorm))
        for b, e in norms:
            w = ev_write(e)
            num, den = var_of(w[0]), var_of(w[2])
            site = "%s:%d" % (f.file, e["line"])
            chk.judge(num in roots and den in roots and num != den, "SUM", "%s:%s/=%s:both-accumulated" % (name, num, den), site, "numerator and denominator are accumulators of the loop")
            nz = known_edges(f, lambda c_: isinstance(c_, list) and len(c_) == 4 and c_[0] == "op" and c_[1] == "!=" and var_of(c_[2]) == den and c_[3] == ["lit", "0"],
                             lambda c_: isinstance(c_, list) and len(c_) == 4 and c_[0] == "op" and c_[1] == "==" and var_of(c_[2]) == den and c_[3] == ["lit", "0"])
            chk.judge(bool(nz) and only_via(f, b, nz), "SUM", "%s:%s/=%s:guarded-by-nonzero-mass" % (name, num, den), site, "the division happens exactly under %s != 0" % den)
            gates = {g for g, _ in nz}
            byp = f.path_exists(None, "exit", lambda q: False, avoid_blocks=gates, lift=0) if gates else [0]
            chk.judge(byp is None, "SUM", "%s:%s/=%s:on-every-path" % (name, num, den), site, "the return is reached without passing the `%s != 0` test" % den, byp)
            # the weight in the numerator is the mass added to the denominator
            dw = [a for a in acc if a[0] == den]
            nw = [a for a in acc if a[0] == num]
            if len(dw) == 1 and len(nw) == 1:
                wv = var_of(dw[0][2]) if isinstance(dw[0][2], list) and dw[0][2][0] == "var" else None
                okw = wv is not None and isinstance(nw[0][2], list) and nw[0][2][0] in ("op", "opc") and nw[0][2][1] == "*" and wv in (var_of(nw[0][2][2]), var_of(nw[0][2][3]))
                chk.judge(okw, "SUM", "%s:%s:weighted-by-the-mass-that-is-summed" % (name, num), "%s:%d" % (f.file, nw[0][1]["line"]),
                          "%s += %s while %s += %s" % (num, sx_str(nw[0][2]), den, sx_str(dw[0][2])))
        # ---- the result is built from the accumulators
        rets = [r for _, _, r in f.ret_events()]
        used = set()
        for r in rets:
            used |= {y[1] for y in sx_find(r.get("val"), lambda y: y[0] == "var")}
        lone = [r for r in roots if r not in used and not any(var_of(ev_write(e)[2]) == r or r in {y[1] for y in sx_find(ev_write(e)[2], lambda y: y[0] == "var")}
                                                               for _, _, e in f.events(lambda q: bool(ev_write(q)) and f.loop_depth(_blk(f, q)) == 0))]
        chk.judge(bool(rets) and not lone, "SUM", name + ":result-built-from-the-sums", f.loc, "accumulators that reach neither the result nor another accumulator after the loop: %s" % lone)


def _blk(f, ev):
    for b, i, e in f.events(lambda q: q is ev):
        return b
    return None


def sweeps(chk, P):
    REP = "SimbodyMatterSubsystemRep"
    for name, first_level, order in (("calcKineticEnergy", "1", "up"), ("calcCompositeBodyInertias", None, "down")):
        fs = [f for f in P.all_fns() if f.name.split("::")[-1] == name and REP in f.name]
        if not chk.shape(len(fs) == 1, "SWEEP", name + ":found", "", "%d definitions" % len(fs)):
            continue
        f = fs[0]
        loops = f.loops()
        if not chk.shape(len(loops) == 2, "SWEEP", name + ":two-nested-loops", f.loc, "%d loops" % len(loops)):
            continue
        outer = max(loops, key=lambda h: len(loops[h]))
        inner = [h for h in loops if h != outer][0]
        chk.shape(inner in loops[outer], "SWEEP", name + ":nested", f.loc, "the node loop is inside the level loop")
        vi, ci = _loop_var(f, outer)
        vj, cj = _loop_var(f, inner)
        di = [d for _, _, d in f.events(lambda q: q["k"] == "decl" and q["var"] == vi)]
        dj = [d for _, _, d in f.events(lambda q: q["k"] == "decl" and q["var"] == vj)]
        lv = lambda x: bool(sx_find(x, lambda y: y[0] == "mem" and y[2].endswith("::rbNodeLevels")))
        if order == "up":
            ok = len(di) == 1 and di[0]["init"] == ["lit", first_level] and ci[1] == "<" and lv(ci[3]) and bool(sx_find(ci[3], lambda y: y[0] == "call" and y[1].endswith("::size"))) \
                and [s_[0] for s_ in _steps(f, loops[outer] - loops[inner], vi)] == ["++"]
            chk.judge(ok, "SWEEP", name + ":levels-1..last", f.loc, "level loop: %s = %s; %s; step %s (Ground's level 0 has no kinetic energy)" %
                      (vi, sx_str(di[0]["init"]) if di else None, sx_str(ci), [s_[0] for s_ in _steps(f, loops[outer] - loops[inner], vi)]))
        else:
            init = di[0]["init"] if len(di) == 1 else None
            ok = isinstance(init, list) and lv(init) and bool(sx_find(init, lambda y: y[0] in ("op", "opc") and y[1] == "-" and y[3] == ["lit", "1"])) and ci[1] == ">=" and ci[3] == ["lit", "0"] \
                and [s_[0] for s_ in _steps(f, loops[outer] - loops[inner], vi)] == ["--"]
            chk.judge(ok, "SWEEP", name + ":levels-last..0-children-before-parents", f.loc, "level loop: %s = %s; %s; step %s" %
                      (vi, sx_str(init), sx_str(ci), [s_[0] for s_ in _steps(f, loops[outer] - loops[inner], vi)]))
        rf = range_for(f, inner)
        cs = [e for b in loops[inner] for e in f.blocks[b]["ev"] if e["k"] == "call" and e.get("fn", "").split("::")[-1] in ("calcKineticEnergy", "calcCompositeBodyInertiasInward")]
        if rf is not None:
            # `for (node : rbNodeLevels[i])` visits every node of the level
            okj = lv(rf[0]) and bool(sx_find(rf[0], lambda y: y == ["var", vi]))
            chk.judge(okj, "SWEEP", name + ":all-nodes-of-the-level", f.loc, "range-for over %s" % sx_str(rf[0]))
            okc = len(cs) == 1 and call_obj(cs[0]) == ["var", rf[1]]
        else:
            okj = len(dj) == 1 and dj[0]["init"] == ["lit", "0"] and cj[1] == "<" and lv(cj[3]) and bool(sx_find(cj[3], lambda y: y[0] in ("opc", "idx") and var_of(y[3] if len(y) > 3 else y[2]) == vi or (y[0] == "var" and y[1] == vi))) \
                and [s_[0] for s_ in _steps(f, loops[inner], vj)] == ["++"]
            chk.judge(okj, "SWEEP", name + ":all-nodes-of-the-level", f.loc, "node loop: %s = %s; %s" % (vj, sx_str(dj[0]["init"]) if dj else None, sx_str(cj)))
            okc = len(cs) == 1 and {y[1] for y in sx_find(call_obj(cs[0]), lambda y: y[0] == "var")} == {vi, vj}
        chk.judge(okc, "SWEEP", name + ":per-node-routine-on-node[i][j]", f.loc, "called on %s" % (sx_str(call_obj(cs[0])) if cs else None))
        if name == "calcKineticEnergy" and cs:
            acc = [a for a in _accum_events(f, loops[inner])]
            chk.judge(len(acc) == 1 and bool(sx_find(acc[0][2], lambda y: y is cs[0]["x"] or y == cs[0]["x"])) and _iter_bypass(f, inner, loops[inner], [acc[0][1]]) is None, "SWEEP",
                      name + ":every-node-added", f.loc, "ke += node kinetic energy, on every iteration")
            dk = [d for _, _, d in f.events(lambda q: q["k"] == "decl" and acc and q["var"] == acc[0][0])]
            chk.judge(len(dk) == 1 and _zero(dk[0]["init"]), "SWEEP", name + ":starts-from-zero", f.loc, "")
    # per-node kinetic energy: one routine for every node kind (no node class may opt out of the sum), half of V . (M V) of the node itself
    kes = [f for f in P.all_fns() if f.name.split("::")[-1] == "calcKineticEnergy" and "SimbodyMatterSubsystemRep" not in f.name and len(f.d.get("params", [])) == 2]
    chk.judge(len(kes) == 1 and kes[0].cls == "RigidBodyNode", "SWEEP", "node-kinetic-energy:one-routine-for-every-node-kind", kes[0].loc if kes else "",
              "definitions of the per-node calcKineticEnergy: %s (an override that returns something else removes that node kind from the sum)" % sorted(f.cls or "?" for f in kes))
    if kes:
        k = [f for f in kes if f.cls == "RigidBodyNode"]
        if k:
            uses = {str(e.get("fn", "")).split("::")[-1] for _, _, e in k[0].calls()}
            chk.judge({"getV_GB", "getMk_G"} <= uses, "SWEEP", "node-kinetic-energy:from-own-velocity-and-inertia", k[0].loc, "uses %s" % sorted(uses & {"getV_GB", "getMk_G", "dot"}))
    # per-node composite inertia
    fs = [f for f in P.all_fns() if f.name.endswith("RigidBodyNode::calcCompositeBodyInertiasInward")]
    if chk.shape(len(fs) == 1, "SWEEP", "RigidBodyNode::calcCompositeBodyInertiasInward:found", "", "%d base-class definitions" % len(fs)):
        f = fs[0]
        loops = f.loops()
        if chk.shape(len(loops) == 1, "SWEEP", "inward:one-loop-over-children", f.loc, "%d loops" % len(loops)):
            h, body = next(iter(loops.items()))
            v, c = _loop_var(f, h)
            rfc = range_for(f, h)
            if rfc is not None:
                ok = bool(sx_find(rfc[0], lambda y: y[0] == "mem" and y[2].endswith("::children"))) or (isinstance(rfc[0], list) and rfc[0][:1] == ["mem"] and rfc[0][2].endswith("::children"))
                chk.judge(ok, "SWEEP", "inward:all-children", f.loc, "range-for over %s" % sx_str(rfc[0]))
            else:
                d0 = [d for _, _, d in f.events(lambda q: q["k"] == "decl" and q["var"] == v)]
                ok = len(d0) == 1 and d0[0]["init"] == ["lit", "0"] and c[1] == "<" and bool(sx_find(c[3], lambda y: y[0] == "mem" and y[2].endswith("::children"))) and [s_[0] for s_ in _steps(f, body, v)] == ["++"]
                chk.judge(ok, "SWEEP", "inward:all-children", f.loc, "child loop: %s = %s; %s" % (v, sx_str(d0[0]["init"]) if d0 else None, sx_str(c)))
            # own inertia first
            own = [e for b, _, e in f.events(lambda q: bool(ev_write(q)) and ev_write(q)[1] == "=" and bool(sx_find(ev_write(q)[2], lambda y: y[0] == "call" and y[1].endswith("::getMk_G")))) if b not in body]
            chk.judge(len(own) == 1, "SWEEP", "inward:starts-from-own-spatial-inertia", f.loc, "R = getMk_G(pc) before the children are added")
            acc = _accum_events(f, body)
            okc = len(acc) == 1 and own and var_of(ev_write(own[0])[0]) == acc[0][0]
            chk.judge(bool(okc), "SWEEP", "inward:children-added-to-the-same-R", f.loc, "accumulations in the child loop: %s" % [a[0] for a in acc])
            if acc:
                chk.judge(_iter_bypass(f, h, body, [acc[0][1]]) is None, "SWEEP", "inward:every-child-added", f.loc, "")
                # both the child's composite inertia and its shift come from children[i]
                idxs = sx_find(acc[0][2], lambda y: y[0] in ("opc", "idx") and y[1] == "[]" and field_of(y[2]) and field_of(y[2]).endswith("::children"))
                loc_ = {}
                for b in body:
                    for e in f.blocks[b]["ev"]:
                        if e["k"] == "decl" and isinstance(e.get("init"), list):
                            loc_[e["var"]] = e["init"]
                srcs = []
                for y in sx_find(acc[0][2], lambda y: y[0] == "var"):
                    if y[1] in loc_:
                        srcs += sx_find(loc_[y[1]], lambda z: z[0] in ("opc", "idx") and len(z) > 3 and field_of(z[2]) and field_of(z[2]).endswith("::children"))
                srcs += idxs
                ixs = {sx_str(z[3]) for z in srcs}
                has_r = any(sx_find(loc_.get(y[1]), lambda z: z[0] == "call" and z[1].endswith("::fromB")) for y in sx_find(acc[0][2], lambda y: y[0] == "var") if y[1] in loc_)
                has_phi = any(sx_find(loc_.get(y[1]), lambda z: z[0] == "call" and z[1].endswith("::getPhi")) for y in sx_find(acc[0][2], lambda y: y[0] == "var") if y[1] in loc_)
                if rfc is not None:
                    # both quantities are taken from the range-for's element
                    objs = []
                    for y in sx_find(acc[0][2], lambda y: y[0] == "var"):
                        if y[1] in loc_:
                            objs += [z[2] for z in sx_find(loc_[y[1]], lambda z: z[0] == "call" and z[1].split("::")[-1] in ("fromB", "getPhi"))]
                    objs += [z[2] for z in sx_find(acc[0][2], lambda z: z[0] == "call" and z[1].split("::")[-1] in ("fromB", "getPhi"))]
                    srcs = objs
                    ixs = {sx_str(o) for o in objs}
                    v = rfc[1]
                chk.judge(len(srcs) >= 2 and ixs == {v} and has_r and has_phi, "SWEEP", "inward:inertia-and-shift-of-the-same-child", "%s:%d" % (f.file, acc[0][1]["line"]),
                          "R += fromB(children[k]).shift(-getPhi(children[k]).l()) with k the loop variable in both places: indices %s" % sorted(ixs))


def delegate(chk, P):
    fs = P.fns_named(M + "::calcSystemCentralInertiaInGround")
    if not chk.shape(len(fs) == 1, "DELEGATE", "calcSystemCentralInertiaInGround:found", "", ""):
        return
    f = fs[0]
    r = [e for _, _, e in f.ret_events()]
    ok = len(r) == 1 and bool(sx_find(r[0]["val"], lambda y: y[0] == "call" and y[1].endswith("::calcCentralInertia")))
    src = None
    if ok:
        c = sx_find(r[0]["val"], lambda y: y[0] == "call" and y[1].endswith("::calcCentralInertia"))[0]
        o = c[2]
        if isinstance(o, list) and o[0] == "var":
            d = [d for _, _, d in f.events(lambda q: q["k"] == "decl" and q["var"] == o[1])]
            o = d[0]["init"] if len(d) == 1 else None
        src = o
        ok = bool(sx_find(o, lambda y: y[0] == "call" and y[1] == M + "::calcSystemMassPropertiesInGround" and [var_of(a) for a in y[3]] == [f.d["params"][0][0]]))
    chk.judge(ok, "DELEGATE", "calcSystemCentralInertiaInGround=calcSystemMassPropertiesInGround(s).calcCentralInertia()", f.loc, "returns calcCentralInertia() of %s" % (sx_str(src) if src else None))


def run(chk, tier, overlays=()):
    units = units_matching(UNITS)
    P = Program(extract(units, hdr="^$", overlays=overlays))
    chk.units += units
    chk.nfunctions += len(P.fns)
    chk.rule("SUM", "each of the seven system aggregates of SimbodyMatterSubsystem is a sum over every mobilized body but Ground: one loop b = 1 .. getNumBodies()-1 stepping by one; every "
             "accumulator is a local zeroed before the loop and added to exactly once on every iteration path; per-body quantities come from getMobilizedBody(b); a mass-weighted "
             "average divides by the mass accumulator under `mass != 0` on every path, the weight in the numerator being the mass added to the denominator; the result is built from the sums")
    sums(chk, P)
    chk.rule("SWEEP", "kinetic energy adds every node of every level but Ground's; composite-body inertias sweep all levels outermost-first (children before parents) over all nodes, each node "
             "starting from its own spatial inertia and adding, for every child, that child's composite inertia shifted by that same child's phi")
    sweeps(chk, P)
    chk.rule("DELEGATE", "the central inertia is calcCentralInertia() of the system mass properties about the Ground origin")
    delegate(chk, P)
    # the per-node quantities the sums are built from (Mk_G, mass-centre station, velocities): frame adjacency and naming where the node code carries monograms
    frames(chk, P, re.compile(r"/Simbody/src/RigidBodyNode(_Weld|_LoneParticle)?\.cpp$"),
           {("RBNodeWeld::realizePosition", "(X_PF * X_MB)"): "a Weld holds its F and M frames coincident (X_FM is the identity), so X_PB = X_PF * X_MB is X_PF * X_FM * X_MB"}, floor=10)
    chk.floor("SUM", 60)
    chk.floor("SWEEP", 12)
    chk.floor("DELEGATE", 1)
    chk.assumptions += ["the per-body formulas (parallel-axis shifts, re-expression in Ground, station velocities / accelerations, momentum about the mass centre) are numerical and not decided",
                        "the overrides of calcCompositeBodyInertiasInward for Ground / lone particle / weld nodes are not compared with the base-class routine"]


_S = "Simbody/src/SimbodyMatterSubsystem.cpp"
_R = "Simbody/src/SimbodyMatterSubsystemRep.cpp"
_N = "Simbody/src/RigidBodyNode.cpp"
MUTATIONS = [
    dict(name="seeded (sub-agent): welded body's Ground-frame inertia built with the parent's rotation", arm=True, file="Simbody/src/RigidBodyNode_Weld.cpp",
         old="        const Rotation& R_GB = getX_GB(pc).R();", new="        const Rotation& R_GB = getX_GP(pc).R();", expect="FRAME:RBNodeWeld::realizePosition:aliasdecl:R_GB"),
    dict(name="seeded (sub-agent, core of it): immobile nodes report zero kinetic energy", arm=True, file="Simbody/src/RigidBodyNode_Weld.cpp",
         old="    const char* type() const override { return \"weld\"; }", new="    const char* type() const override { return \"weld\"; }\n    Real calcKineticEnergy(const SBTreePositionCache&, const SBTreeVelocityCache&) const { return 0; }",
         expect="SWEEP:node-kinetic-energy:one-routine-for-every-node-kind"),
    dict(name="system mass skips the last body", arm=True, file=_S,
         old="    for (MobilizedBodyIndex b(1); b < getNumBodies(); ++b)\n        mass += getMobilizedBody(b).getBodyMassProperties(s).getMass();",
         new="    for (MobilizedBodyIndex b(1); b < getNumBodies()-1; ++b)\n        mass += getMobilizedBody(b).getBodyMassProperties(s).getMass();", expect="SUM:calcSystemMass:runs-to-the-last-body"),
    dict(name="mass centre velocity starts at body 2", file=_S,
         old="    Vec3    comv = Vec3(0);\n\n    for (MobilizedBodyIndex b(1);", new="    Vec3    comv = Vec3(0);\n\n    for (MobilizedBodyIndex b(2);", expect="SUM:calcSystemMassCenterVelocityInGround:starts-at-body-1"),
    dict(name="massless bodies skipped before their mass is counted -- and their momentum with it", arm=True, file=_S,
         old="        const Vec3 CB_G = mobod.findMassCenterLocationInGround(s);\n        mtot += m;", new="        const Vec3 CB_G = mobod.findMassCenterLocationInGround(s);\n        if (m < 1e-10) continue;\n        mtot += m;",
         expect="SUM:calcSystemCentralMomentum:"),
    dict(name="mass centre acceleration weighted by the previous body's mass", file=_S,
         old="        mass += mb;\n        coma += mb * a_G_CB; // weighted by mass", new="        coma += mass * a_G_CB; // weighted by mass\n        mass += mb;", expect="SUM:calcSystemMassCenterAccelerationInGround:coma:weighted-by-the-mass-that-is-summed"),
    dict(name="mass centre location not normalised", file=_S,
         old="    if (mass != 0) \n        com /= mass;\n\n    return com;", new="    return com;", expect="SUM:calcSystemMassCenterLocationInGround:normalisations"),
    dict(name="angular momentum accumulated twice", file=_S,
         old="        mom[0] += (Iw + r % mv); // add central angular momentum plus contribution from mass center location\n        mom[1] += mv;            // just add up central linear momenta",
         new="        mom[0] += (Iw + r % mv); // add central angular momentum plus contribution from mass center location\n        mom[0] += mv;            // just add up central linear momenta", expect="SUM:calcSystemMomentumAboutGroundOrigin:"),
    dict(name="kinetic energy includes Ground's level and skips nothing -- but starts the node loop at 1", file=_R,
         old="        for (int j=0 ; j<(int)rbNodeLevels[i].size() ; j++)\n            ke += rbNodeLevels[i][j]->calcKineticEnergy(tpc,tvc);", new="        for (int j=1 ; j<(int)rbNodeLevels[i].size() ; j++)\n            ke += rbNodeLevels[i][j]->calcKineticEnergy(tpc,tvc);",
         expect="SWEEP:calcKineticEnergy:all-nodes-of-the-level"),
    dict(name="composite inertias swept base to tip", arm=True, file=_R,
         old="    for (int i=rbNodeLevels.size()-1 ; i>=0 ; i--) \n        for (int j=0 ; j<(int)rbNodeLevels[i].size() ; j++)\n            rbNodeLevels[i][j]->calcCompositeBodyInertiasInward(tpc,R);",
         new="    for (int i=0 ; i<(int)rbNodeLevels.size() ; i++) \n        for (int j=0 ; j<(int)rbNodeLevels[i].size() ; j++)\n            rbNodeLevels[i][j]->calcCompositeBodyInertiasInward(tpc,R);",
         expect="SWEEP:calcCompositeBodyInertias:levels-last..0"),
    dict(name="child inertia shifted by the first child's phi", file=_N,
         old="        const PhiMatrix&  phiChild    = children[i]->getPhi(pc);\n        R += RChild.shift(-phiChild.l()); // ~80 flops", new="        const PhiMatrix&  phiChild    = children[0]->getPhi(pc);\n        R += RChild.shift(-phiChild.l()); // ~80 flops",
         expect="SWEEP:inward:inertia-and-shift-of-the-same-child"),
    dict(name="central inertia taken from the mass properties of one call and not about the mass centre", file=_S,
         old="    return M_OG_G.calcCentralInertia();", new="    return M_OG_G.getInertia();", expect="DELEGATE:"),
]
