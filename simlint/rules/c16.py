"""C16 -- Realization results depend only on current state values.

Stale-cache clauses (DESIGN 3, C16): STAGE coherence between discrete
variables and the caches computed from them, position-only force cache,
explicit-invalidation pairing, cachedForcesAreValid discipline, manual
validity flags, lazy caches realised before being read."""
import re

from ..facts import extract_split, extract, units_matching, Program, AnalysisBroken, sx_find, sx_enums, sx_str
from ..match import (emptied_before, ev_write, is_call, call_args, call_obj, field_of, var_of, guard_blocks, lvalue_root, branch_edges, switch_default_edges)
from .c18 import _in_loop, _is_lit, _is_var

ALLOC = re.compile(r"::allocate(DiscreteVariable|AutoUpdateDiscreteVariable|CacheEntry|LazyCacheEntry|CacheEntryWithPrerequisites)$")
RD = re.compile(r"::(get|upd)DiscreteVariable$|::getDiscreteVarUpdateValue$")
FL = re.compile(r"::(updCacheEntry|markCacheValueRealized|updDiscreteVarUpdateValue|markDiscreteVarUpdateValueRealized)$")
INVAL = re.compile(r"::markCacheValueNotRealized$")
# velocity-or-later level getters (oracle: stage requirements documented on State / SimbodyMatterSubsystem / MobilizedBody)
VEL = re.compile(r"::(getU|getOneU|getUAsVector|getQDot|getOneQDot|getQDotAsVector|getUDot|getOneUDot|getQDotDot|getZ|getZDot|"
                 r"get\w*Velocity\w*|find\w*Velocity\w*|calc\w*Velocity\w*|get\w*Acceleration\w*|find\w*Acceleration\w*|"
                 r"getMobilizerVelocity|getH_FMCol|getHCol)$")
UNITS_QUICK = r"/Simbody/src/(Force[^/]*|GeneralForceSubsystem|CableSpring|CablePath|CableSpan|ContactTrackerSubsystem|GeneralContactSubsystem|" \
              r"CompliantContactSubsystem|HuntCrossley[^/]*|ElasticFoundationForce|SmoothSphereHalfSpaceForce|ExponentialSpringForce|Constraint[^/]*|Motion|MobilizedBody|SimbodyMatterSubsystemRep)\.cpp$"
HDR = r"/Simbody/src/.*\.h$|/Simbody/include/"
FS = "SimTK::GeneralForceSubsystemRep"
# lazy Position-stage caches whose filler legitimately passes a velocity-level read: one named symbol each, with the reason
LAZY_STATE_EXCEPTIONS = {
    ("SimTK::CompliantContactSubsystemImpl::ensurePotentialEnergyCacheValid", "m_potEnergyCacheIx"):
        "when the State is already at Velocity stage the potential energy is summed from ContactForce::getPotentialEnergy() of the force records, their position-only "
        "component (the velocity enters only the dissipation part of a record); at Position stage it is recomputed with zero velocities",
}
GI = "SimTK::Force::GravityImpl"

# callees whose reads are stage-parameterised and therefore cut from the transitive read summary
CUT_CALLEES = {"SBStateDigest::fillThroughStage": "fills only through the requested stage (stage-parameterised; path-insensitive summary would over-read)",
               "SBStateDigest::SBStateDigest": "constructor delegates to fillThroughStage"}
# caches whose validity is governed by manual flags (MANUALFLAG rule) rather than by their depends-on stage
MANUAL_CACHES = {"SimTK::MobilizedBody::FunctionBasedImpl::cacheIndex":
                 "Topology-stage entry holding H/Hdot with isValidH/isValidHdot flags cleared by realizePosition/realizeVelocity (MANUALFLAG rule)"}
# classes whose dependsOnlyOnPositions() forwards to user code
POSONLY_FORWARDERS = {"SimTK::Force::CustomImpl": "forwards to the user's Implementation (out of scope: user code)"}


def build(P):
    SV = {n.split("::")[-1]: int(v) for n, v in P.enums["SimTK::Stage::Level"]["enumerators"]}
    var, cache = {}, {}
    nsites = 0
    for f in P.all_fns():
        for b, i, e in f.calls():
            m = ALLOC.search(e.get("fn", ""))
            if not m:
                continue
            nsites += 1
            recv = None
            evs = f.blocks[b]["ev"]
            for j in range(i + 1, min(i + 10, len(evs))):
                w = ev_write(evs[j])
                if w and w[2] is not None and sx_find(w[2], lambda y: y == e["x"]):
                    recv = field_of(w[0])
                    break
            if not recv:
                continue
            st = [SV[x.split("::")[-1]] for x in sx_enums(e["x"]) if x.startswith("SimTK::Stage::") and x.split("::")[-1] in SV]
            kind = m.group(1)
            site = "%s:%d" % (f.file, e["line"])
            if kind == "DiscreteVariable" and st:
                var[recv] = dict(inv=st[0], site=site, fn=f.id)
            elif kind == "AutoUpdateDiscreteVariable" and len(st) >= 2:
                var[recv] = dict(inv=st[0], site=site, fn=f.id, auto=True)
                cache[recv + "#update"] = dict(dep=st[1], site=site, fn=f.id)
            elif st:
                cache[recv] = dict(dep=st[0], site=site, fn=f.id, kind=kind)
    return SV, var, cache, nsites


def _fields_in(x):
    return [y[2] for y in sx_find(x, lambda y: y[0] == "mem")]


class Summ:
    def __init__(self, P, var, cache):
        self.P, self.var, self.cache = P, var, cache
        self.direct = {}
        for f in P.all_fns():
            r, w, fl, inv = set(), set(), set(), set()
            for b, i, e in f.calls():
                n = e.get("fn", "")
                if RD.search(n):
                    for fld in _fields_in(e["x"]):
                        if fld in var:
                            (w if "::upd" in n else r).add(fld)
                if FL.search(n):
                    for fld in _fields_in(e["x"]):
                        if fld in cache:
                            fl.add(fld)
                        if fld in var and "DiscreteVarUpdate" in n:
                            fl.add(fld + "#update")
                if INVAL.search(n):
                    for fld in _fields_in(e["x"]):
                        if fld in cache:
                            inv.add(fld)
            if r or w or fl or inv:
                self.direct[f.id] = (r, w, fl, inv)
        self._memo = {}

    def reads(self, fid, depth=3, seen=()):
        """variable fields whose value fid reads, through callees to the inlining depth"""
        k = (fid, depth)
        if k in self._memo:
            return self._memo[k]
        res = set(self.direct.get(fid, (set(),) * 4)[0])
        if depth > 0:
            for fn in self.P.by_id.get(fid, []):
                for b, i, e in fn.calls():
                    c = e.get("fid")
                    if c and c not in seen and c != fid and c in self.P.by_id and e.get("fn") not in CUT_CALLEES:
                        res |= self.reads(c, depth - 1, seen + (fid,))
        self._memo[k] = res
        return res

    def fills(self, fid):
        """caches filled by fid directly or through an accessor of its own class (updXxxCache / markXxxValid wrappers)"""
        res = set(self.direct.get(fid, (set(),) * 4)[2])
        for fn in self.P.by_id.get(fid, []):
            for b, i, e in fn.calls():
                c = e.get("fid")
                if c and c != fid and c in self.direct and self.P.by_id.get(c) and self.P.by_id[c][0].cls == fn.cls and fn.cls:
                    cal = self.P.by_id[c][0]
                    ncalls = sum(1 for _ in cal.calls())
                    if ncalls <= 6:   # accessor-sized wrapper
                        res |= self.direct[c][2]
        return res

    def vel_calls(self, fid, depth=2, seen=()):
        res = []
        for fn in self.P.by_id.get(fid, []):
            for b, i, e in fn.calls():
                n = e.get("fn", "")
                if VEL.search(n):
                    res.append((n, "%s:%d" % (fn.file, e["line"])))
                c = e.get("fid")
                if depth > 0 and c and c not in seen and c != fid and c in self.P.by_id and self.P.by_id[c][0].cls == fn.cls and fn.cls:
                    res += self.vel_calls(c, depth - 1, seen + (fid,))
        return res

    def writers(self, fld):
        """functions that obtain write access to variable fld (directly)"""
        return sorted(fid for fid, d in self.direct.items() if fld in d[1])

    def invalidators(self, c, depth=2):
        """function ids that (must-)invalidate cache c: direct markCacheValueNotRealized(c) or a call to such a function"""
        base = {fid for fid, d in self.direct.items() if c in d[3]}
        return base


def run(chk, tier, overlays=()):
    pat = r"/Simbody/src/" if tier == "thorough" else UNITS_QUICK
    units = units_matching(pat)
    facts = extract_split(units, hdr=HDR, overlays=overlays)
    P = Program(facts)
    chk.units += units
    chk.nfunctions += len(P.fns)
    SV, var, cache, nsites = build(P)
    chk.require(len(var) >= 30 and len(cache) >= 35, "allocation-site discovery found only %d variables / %d caches" % (len(var), len(cache)))
    chk.extra["allocation_sites"] = dict(call_sites=nsites, variables=len(var), caches=len(cache))
    S = Summ(P, var, cache)
    posonly(chk, P, S, SV)
    stage(chk, P, S, SV)
    gravity(chk, P, S)
    cached_forces_flag(chk, P)
    manual_flags(chk, P)
    refill(chk, P)
    chk.assumptions += ["user-defined Custom force/constraint/measure code is out of scope",
                        "reads of state made through SBStateDigest are not attributed to variables (matter subsystem internals are covered only by the lazy-cache rules)"]


# ---------------------------------------------------------------- REFILL

CACHE_SRC = re.compile(r"::(upd\w*Cache\w*|updCacheEntry|updDiscreteVarUpdateValue)$")


def refill(chk, P):
    chk.rule("REFILL", "a container that lives in a cache entry (a member of an object obtained from upd...Cache / updCacheEntry, or such an object itself) and is filled by "
             "appending (push_back / emplace_back / insert) is emptied first, on every path of the same realization function -- by clear() / resize() on it or by a method "
             "of the cache object that does so on all its paths: otherwise entries of an earlier realization of the same State survive and results depend on history")
    n = 0
    for f in sorted(P.all_fns(), key=lambda f: f.id):
        decls = {d["var"]: d for _, _, d in f.events(lambda d: d["k"] == "decl")}
        caches = {v for v, d in decls.items() if d.get("init") is not None and sx_find(d["init"], lambda y: y[0] == "call" and CACHE_SRC.search(str(y[1])))}
        if not caches:
            continue
        for b, i, e in f.calls():
            if not str(e.get("fn", "")).endswith(("::push_back", "::emplace_back", "::insert")):
                continue
            o = call_obj(e)
            if isinstance(o, list) and o and o[0] == "var" and o[1] in caches:
                fld, cv = None, o[1]
            elif isinstance(o, list) and o and o[0] == "mem" and var_of(o[1]) in caches:
                fld, cv = o[2], var_of(o[1])
            else:
                continue
            n += 1
            p = emptied_before(P, f, e, cv, fld)
            src = sx_find(decls[cv]["init"], lambda y: y[0] == "call" and CACHE_SRC.search(str(y[1])))[0][1].split("::")[-1]
            what = fld.split("::")[-1] if fld else src
            cnt = sum(1 for _b, _i, _e in f.calls() if _e.get("fn") == e.get("fn") and call_obj(_e) == o and _e["line"] <= e["line"])
            chk.judge(p is None, "REFILL", "%s:%s#%d" % (f.name.replace("SimTK::", ""), what, cnt), "%s:%d" % (f.file, e["line"]),
                      "%s (in the cache object from %s) is appended to without having been emptied on this path" % (what, src), p)
    chk.floor("REFILL", 10)


# ---------------------------------------------------------------- POSONLY

def posonly(chk, P, S, SV):
    chk.rule("POSONLY", "a force element whose dependsOnlyOnPositions() can return true is cached by GeneralForceSubsystem from Stage::Position on: "
             "its calcForce() must (transitively, inlining depth 3) read no discrete variable whose change invalidates a stage later than Position, "
             "and must call no velocity-or-later getter")
    inv = {v: k for k, v in SV.items()}
    n = 0
    for cls in sorted(P.subclasses("SimTK::ForceImpl")):
        ds = [m for m in P.methods_of(cls) if m.name == cls + "::dependsOnlyOnPositions"]
        if not ds:
            continue
        d = ds[0]
        rets = d.ret_events()
        always_false = bool(rets) and all(_is_lit(r[2]["val"], "false") for r in rets)
        if always_false:
            continue
        if cls in POSONLY_FORWARDERS:
            chk.ok("POSONLY", cls + ":forwarder", d.loc, POSONLY_FORWARDERS[cls])
            continue
        cf = [m for m in P.methods_of(cls) if m.name == cls + "::calcForce"]
        chk.require(bool(cf), "calcForce body of position-only force %s not found" % cls)
        if not cf:
            continue
        n += 1
        f = cf[0]
        bad = [(v, S.var[v]) for v in sorted(S.reads(f.id)) if S.var[v]["inv"] > SV["Position"]]
        chk.judge(not bad, "POSONLY", "%s::calcForce<-vars" % cls, f.loc,
                  "position-cached force reads variable(s) %s which invalidate only %s: a change is not seen until positions change" %
                  ([b[0].split("::")[-1] for b in bad], [inv[b[1]["inv"]] for b in bad]))
        vc = S.vel_calls(f.id)
        chk.judge(not vc, "POSONLY", "%s::calcForce<-velocity-getters" % cls, f.loc, "position-cached force calls velocity-level getters %s" % vc[:4])
    chk.floor("POSONLY", 6)


# ------------------------------------------------------------------ STAGE

def stage(chk, P, S, SV):
    chk.rule("STAGE", "for every function that fills a cache entry C (updCacheEntry / mark...Realized / update value of an auto-update variable) and every "
             "discrete variable V it reads (inlining depth 3): invalidates(V) <= dependsOn(C); exempt when V is the auto-update variable whose own update "
             "entry is being filled (State invalidates it on every write, C18), when no function obtains write access to V, or when every writer of V "
             "explicitly invalidates C on all paths (explicit-invalidation idiom)")
    inv = {v: k for k, v in SV.items()}
    pairs = 0
    cands = set(S.direct)
    for f0 in P.all_fns():
        if any(e.get("fid") in S.direct for _, _, e in f0.calls()):
            cands.add(f0.id)
    for fid in sorted(cands):
        fl = S.fills(fid)
        if not fl:
            continue
        fn = P.by_id[fid][0]
        rs = S.reads(fid)
        for c in sorted(fl):
            for v in sorted(rs):
                pairs += 1
                inst = "%s:%s<-%s" % (fid, c.split("::")[-1], v.split("::")[-1])
                if S.var[v]["inv"] <= S.cache[c]["dep"]:
                    chk.ok("STAGE", inst, fn.loc, "inv %s <= dep %s" % (inv[S.var[v]["inv"]], inv[S.cache[c]["dep"]]))
                    continue
                if c == v + "#update":
                    chk.ok("STAGE", inst + ":own-update", fn.loc, "update entry of the variable itself")
                    continue
                if c in MANUAL_CACHES:
                    # the flags are cleared whenever Position/Velocity are re-realized: the variable must invalidate at or before Velocity
                    chk.judge(S.var[v]["inv"] <= SV["Velocity"], "STAGE", inst + ":manual-flags", fn.loc, MANUAL_CACHES[c])
                    continue
                ws = S.writers(v)
                if not ws:
                    chk.ok("STAGE", inst + ":no-writer", fn.loc, "no function obtains write access to %s" % v)
                    continue
                # explicit invalidation idiom
                okall = True
                culprit = None
                invs = S.invalidators(c)
                for wf in ws:
                    for g in P.by_id[wf]:
                        # the accessor itself (updX) may be wrapped: look at callers of the accessor too
                        users = _callers(P, wf) or [g]
                        for u in users:
                            def is_inv(e):
                                return e["k"] == "call" and (e.get("fid") in invs or (INVAL.search(e.get("fn", "")) and c in _fields_in(e["x"])))
                            sites = [(b, i, e) for b, i, e in u.calls() if e.get("fid") == wf] or [None]
                            for st in sites:
                                if st is None:
                                    bad = u.path_exists(None, "exit", is_inv) is not None
                                else:
                                    before = u.path_exists(None, lambda q, st=st: q is st[2], is_inv)
                                    after = u.path_exists((st[0], st[1]), "exit", is_inv)
                                    bad = before is not None and after is not None
                                if bad:
                                    okall = False
                                    culprit = u.id
                chk.judge(okall, "STAGE", inst, fn.loc,
                          "cache %s (valid from %s) is computed from variable %s which invalidates only %s; writer %s does not invalidate the cache" %
                          (c.split("::")[-1], inv[S.cache[c]["dep"]], v.split("::")[-1], inv[S.var[v]["inv"]], culprit))
    # continuous state: a LAZY cache entry (recomputation skipped while it is flagged valid; the flag falls only when its depends-on stage is
    # invalidated) that depends on Position or earlier must not be computed from velocity-level quantities: after a change of u alone it would
    # stay flagged valid and stale.  Decided per filler: no path from a velocity-level read to the call that marks the entry realized.
    def touches(fn, e, c, what):
        """call event e marks / tests cache c, directly or through an accessor-sized method of the same class"""
        n = str(e.get("fn", ""))
        if n.endswith("::" + what) and c in _fields_in(e["x"]):
            return True
        cid = e.get("fid")
        for g in P.by_id.get(cid, []) if cid else []:
            if g.cls == fn.cls and fn.cls and sum(1 for _ in g.calls()) <= 6:
                if any(str(q.get("fn", "")).endswith("::" + what) and c in _fields_in(q["x"]) for _, _, q in g.calls()):
                    return True
        return False
    nst = 0
    for fid in sorted(cands):
        fl = S.fills(fid)
        if not fl:
            continue
        fn = P.by_id[fid][0]
        for c in sorted(fl):
            if c in MANUAL_CACHES or S.cache[c].get("kind") not in ("LazyCacheEntry", "CacheEntry"):
                continue
            lazy = any(touches(fn, e, c, "isCacheValueRealized") for _, _, e in fn.calls())
            if not lazy:
                continue
            marks = [e for _, _, e in fn.calls() if touches(fn, e, c, "markCacheValueRealized")]
            if not marks:
                continue
            nst += 1
            inst = "%s:%s<-state" % (fid, c.split("::")[-1])
            if S.cache[c]["dep"] >= SV["Velocity"]:
                chk.ok("STAGE", inst, fn.loc, "lazy entry valid from %s: may read velocities" % inv[S.cache[c]["dep"]])
                continue

            def is_vel(q):
                if q["k"] != "call":
                    return False
                if VEL.search(str(q.get("fn", ""))):
                    return True
                cid = q.get("fid")
                return bool(cid) and cid != fid and cid in P.by_id and P.by_id[cid][0].cls == fn.cls and bool(fn.cls) and bool(S.vel_calls(cid))
            bad = None
            for b, i, e in fn.events(is_vel):
                for m_ in marks:
                    if fn.path_exists((b, i), lambda q, m_=m_: q is m_, lambda q: False, lift=0) is not None:
                        bad = e
            ex = LAZY_STATE_EXCEPTIONS.get((fn.name, c.split("::")[-1]))
            if bad is not None and ex:
                chk.ok("STAGE", inst + ":tabled", fn.loc, ex)
                continue
            chk.judge(bad is None, "STAGE", inst + ":no-velocity-level-read-before-it-is-marked-valid", fn.loc,
                      "lazy cache %s depends on Stage::%s only, but its filler reads velocity-level quantities (%s, line %s) before marking it valid: after a change of u alone "
                      "it stays flagged valid and stale" % (c.split("::")[-1], inv[S.cache[c]["dep"]], bad and str(bad.get("fn", "")).split("::")[-1], bad and bad.get("line")))
    chk.shape(nst >= 4, "STAGE", "lazy-cache-fillers>=4", "", "%d lazy (ensure-idiom) cache fillers examined" % nst)
    chk.floor("STAGE", 25)


def _callers(P, fid):
    res = []
    for fn in P.all_fns():
        for b, i, e in fn.calls():
            if e.get("fid") == fid:
                res.append(fn)
                break
    return res


# ---------------------------------------------------------------- Gravity

def gravity(chk, P, S):
    chk.rule("MUSTCALL", "Force::Gravity relies on explicit invalidation: every function that reaches GravityImpl::updParameters passes invalidateForceCache "
             "on all paths; the force cache is filled only by ensureForceCacheValid, which marks it valid after computing; readers go through ensureForceCacheValid")
    upd = P.fn(GI + "::updParameters")
    users = [fn for fn in P.all_fns() for b, i, e in fn.calls(GI + "::updParameters")]
    seen = set()
    for u in users:
        if u.id in seen:
            continue
        seen.add(u.id)
        p = u.path_exists(None, "exit", lambda e: is_call(e, GI + "::invalidateForceCache"))
        # order: invalidate on every path that reaches updParameters
        ok = True
        for b, i, e in u.calls(GI + "::updParameters"):
            p2 = u.path_exists(None, lambda q, e=e: q is e, lambda q: is_call(q, GI + "::invalidateForceCache"))
            # or afterwards on every path
            p3 = u.path_exists((b, i), "exit", lambda q: is_call(q, GI + "::invalidateForceCache"))
            if p2 is not None and p3 is not None:
                ok = False
        chk.judge(ok, "MUSTCALL", "Gravity:%s:invalidateForceCache" % u.name.split("::")[-1], u.loc,
                  "a Gravity parameter is changed without invalidating the (Position-stage) force cache")
    chk.shape(len(seen) >= 5, "MUSTCALL", "Gravity:setters>=5", upd.loc, "parameter setters found: %d" % len(seen))
    inval = P.fn(GI + "::invalidateForceCache")
    chk.judge(any(True for _ in inval.events(lambda e: e["k"] == "call" and INVAL.search(e.get("fn", "")) and GI + "::forceCacheIx" in _fields_in(e["x"]))),
              "MUSTCALL", "Gravity:invalidateForceCache->markCacheValueNotRealized(forceCacheIx)", inval.loc, "invalidateForceCache marks the force cache not realized")
    # the filler (today: ensureForceCacheValid) is identified by role: the GravityImpl method that obtains the writable cache and marks it valid
    fillers = [fn for fn in P.all_fns() if fn.name.startswith(GI + "::") and any(True for _ in fn.calls(GI + "::updForceCache")) and any(True for _ in fn.calls(GI + "::markForceCacheValid"))]
    chk.shape(len(fillers) == 1, "MUSTCALL", "Gravity:one-filler", upd.loc, "exactly one GravityImpl method fills the force cache and marks it valid: %s" % [g.name for g in fillers])
    if len(fillers) != 1:
        return
    ens = fillers[0]
    ENS = ens.name
    marks = list(ens.calls(GI + "::markForceCacheValid"))
    upds = list(ens.calls(GI + "::updForceCache"))
    chk.judge(len(marks) >= 1 and len(upds) >= 1, "MUSTCALL", "Gravity:ensure:upd+mark", ens.loc, "ensureForceCacheValid obtains the cache and marks it valid")
    for b, i, e in upds:
        p = ens.path_exists((b, i), "exit", lambda q: is_call(q, GI + "::markForceCacheValid"))
        chk.judge(p is None, "MUSTCALL", "Gravity:ensure:mark-on-all-paths", "%s:%d" % (ens.file, e["line"]), "every path that writes the cache marks it valid", p)
    # early return only when already valid
    gb = guard_blocks(ens, lambda c: c[0] == "call" and c[1] == GI + "::isForceCacheValid", 0)
    chk.judge(len(gb) == 1, "MUSTCALL", "Gravity:ensure:skip-iff-valid", ens.loc, "recomputation is skipped only under isForceCacheValid(state)")
    # other fillers / readers of the force cache
    for fn in P.all_fns():
        if fn.name.startswith(GI + "::") and fn.name not in (ENS, GI + "::updForceCache", GI + "::getForceCache",
                                                             GI + "::markForceCacheValid", GI + "::invalidateForceCache", GI + "::isForceCacheValid", GI + "::realizeTopology"):
            for b, i, e in fn.calls(GI + "::getForceCache"):
                p = fn.path_exists(None, lambda q, e=e: q is e, lambda q: is_call(q, ENS))
                chk.judge(p is None, "MUSTCALL", "Gravity:%s:ensure<read" % fn.name.split("::")[-1], "%s:%d" % (fn.file, e["line"]),
                          "the lazy force cache is read without ensureForceCacheValid on some path", p)
            for b, i, e in fn.calls(GI + "::updForceCache"):
                chk.violation("MUSTCALL", "Gravity:%s:fills-cache" % fn.name.split("::")[-1], "%s:%d" % (fn.file, e["line"]), "only ensureForceCacheValid may fill the force cache")
    # handle-level readers (Force::Gravity::getBodyForces etc.)
    for fn in P.all_fns():
        if fn.name.startswith("SimTK::Force::Gravity::"):
            for b, i, e in fn.calls(GI + "::getForceCache"):
                p = fn.path_exists(None, lambda q, e=e: q is e, lambda q: is_call(q, ENS))
                chk.judge(p is None, "MUSTCALL", "Gravity:%s:ensure<read" % fn.name.split("::")[-1], "%s:%d" % (fn.file, e["line"]),
                          "the lazy force cache is read without ensureForceCacheValid on some path", p)
    chk.floor("MUSTCALL", 10)


# ---------------------------------------------------- cachedForcesAreValid

def _is_flag_write(P, fn, e, flagfield):
    """assignment to Value<bool>::updDowncast(updCacheEntry(s, flagfield)) or to a local reference bound to it"""
    w = ev_write(e)
    if not w:
        return None
    lhs = w[0]
    if flagfield in _fields_in(lhs) and sx_find(lhs, lambda y: y[0] == "call" and y[1].endswith("::updCacheEntry")):
        return w[2]
    v = var_of(lhs)
    if v:
        for _, _, d in fn.events(lambda d: d["k"] == "decl" and d["var"] == v and d["init"] is not None and "&" in d["ty"]):
            if flagfield in _fields_in(d["init"]):
                return w[2]
    return None


def cached_forces_flag(chk, P):
    chk.rule("FLAG", "GeneralForceSubsystem's cachedForcesAreValid flag: reset to false on every path of realizeSubsystemPositionImpl and whenever "
             "setForceIsDisabled changes the enabled set (when the cache exists); set to true only in realizeSubsystemDynamicsImpl after the "
             "CachedAndNonCached computation; the cached arrays are added to the totals only after that point or when the flag was already true")
    ff = FS + "::cachedForcesAreValidCacheIndex"
    writes = []
    for fn in P.methods_of(FS):
        for b, i, e in fn.events():
            rhs = _is_flag_write(P, fn, e, ff)
            if rhs is not None:
                writes.append((fn, b, i, e, rhs))
    trues = [w for w in writes if _is_lit(w[4], "true")]
    falses = [w for w in writes if _is_lit(w[4], "false")]
    chk.judge(len(trues) == 1 and trues[0][0].name == FS + "::realizeSubsystemDynamicsImpl", "FLAG", "true-only-in-realizeDynamics", trues[0][0].loc if trues else "",
              "exactly one `= true`, in realizeSubsystemDynamicsImpl (found in %s)" % [w[0].name for w in trues])
    for w in writes:
        chk.judge(_is_lit(w[4], "true") or _is_lit(w[4], "false"), "FLAG", "literal-write@%s" % w[0].name.split("::")[-1], "%s:%d" % (w[0].file, w[3]["line"]), "flag is only assigned literals")
    if trues:
        fn, b, i, e, _ = trues[0]
        # preceded on every path by the CachedAndNonCached dispatch
        p = fn.path_exists(None, lambda q: q is e, lambda q: q["k"] == "call" and q.get("fn", "").endswith("::initializeCachedAndNonCached"))
        chk.judge(p is None, "FLAG", "true-after-cache-computed", "%s:%d" % (fn.file, e["line"]), "the flag becomes true only after the cached forces were recomputed", p)
        p = fn.path_exists(None, lambda q: q is e, lambda q: is_call(q, "SimTK::ParallelExecutor::execute"))
        chk.judge(p is None, "FLAG", "true-after-dispatch", "%s:%d" % (fn.file, e["line"]), "and after the dispatch returned", p)
    rp = P.fn(FS + "::realizeSubsystemPositionImpl")
    rpf = [w for w in falses if w[0] is rp]
    chk.judge(len(rpf) == 1, "FLAG", "realizePosition:resets", rp.loc, "realizeSubsystemPositionImpl resets the flag")
    if rpf:
        # on every path where the cache exists (index valid)
        ex = branch_edges(rp, lambda c: c[0] == "call" and c[1].endswith("::isValid") and field_of(c[2]) == ff, 1)
        p = rp.path_exists(None, "exit", lambda q: q is rpf[0][3], avoid_edges=ex)
        chk.judge(p is None, "FLAG", "realizePosition:resets-on-all-paths", rp.loc, "reset on every path on which the cache entry exists", p)
        # before the forces' realizePosition calls
    sd = P.fn(FS + "::setForceIsDisabled")
    sdf = [w for w in falses if w[0] is sd]
    chk.judge(len(sdf) == 1, "FLAG", "setForceIsDisabled:resets", sd.loc, "setForceIsDisabled resets the flag")
    if sdf:
        # on every path from the write of the enabled array element
        ew = [(b, i) for b, i, e in sd.events(lambda e: bool(ev_write(e)) and ev_write(e)[0][0] in ("opc", "idx") and var_of(ev_write(e)[0]) is not None and
                                             var_of(ev_write(e)[2]) is not None)]
        chk.judge(len(ew) == 1, "FLAG", "setForceIsDisabled:one-enable-write", sd.loc, "one write of the enabled flag")
        if ew:
            ex = branch_edges(sd, lambda c: c[0] == "call" and c[1].endswith("::isValid") and field_of(c[2]) == ff, 1)
            p = sd.path_exists(ew[0], "exit", lambda q: q is sdf[0][3], avoid_edges=ex)
            chk.judge(p is None, "FLAG", "setForceIsDisabled:resets-after-change", sd.loc, "every enabled-set change resets the flag (when the cache exists)", p)
        # the enabled array is the Instance-stage variable obtained with write access (stage invalidated)
        d = [dd for _, _, dd in sd.events(lambda dd: dd["k"] == "decl" and dd["init"] is not None and FS + "::forceEnabledIndex" in _fields_in(dd["init"]))]
        chk.judge(bool(d) and bool(sx_find(d[0]["init"], lambda y: y[0] == "call" and y[1].endswith("::updDiscreteVariable"))), "FLAG", "setForceIsDisabled:upd-variable", sd.loc,
                  "the enabled flags are modified through updDiscreteVariable (Instance stage invalidated)")
    # adding the cache to the totals happens after validity is established
    rd = P.fn(FS + "::realizeSubsystemDynamicsImpl")
    adds = [(b, i, e) for b, i, e in rd.events(lambda e: e["k"] == "call" and e.get("op") == "+=" and var_of(e["x"][3]) is not None and "Cache" in (var_of(e["x"][3]) or ""))]
    chk.judge(len(adds) == 3, "FLAG", "realizeDynamics:three-cache-adds", rd.loc, "rigid/particle/mobility cache arrays are added to the totals (found %d)" % len(adds))
    for b, i, e in adds:
        lhs, rhs = var_of(e["x"][2]), var_of(e["x"][3])
        chk.judge(rhs.replace("Cache", "s").replace("Forces", "Force") == lhs.replace("Forces", "Force") + "s" or rhs.replace("ForceCache", "Forces") == lhs, "FLAG",
                  "realizeDynamics:%s+=%s" % (lhs, rhs), "%s:%d" % (rd.file, e["line"]), "each total receives its own cache array")
    chk.floor("FLAG", 12)


# ------------------------------------------------------------ manual flags

def manual_flags(chk, P):
    chk.rule("MANUALFLAG", "FunctionBased mobilizer keeps H / Hdot in a Topology-stage cache entry with manual validity flags: the flags are cleared "
             "by realizePosition / realizeVelocity on every path, set only by updateH / updateHdot after the matrices were written, and every reader "
             "tests the flag and recomputes first")
    cls = "SimTK::MobilizedBody::FunctionBasedImpl"
    fns = P.methods_of(cls)
    chk.require(len(fns) > 10, "FunctionBasedImpl methods not found")
    wr = {}
    for fn in fns:
        for b, i, e in fn.events(lambda e: bool(ev_write(e)) and field_of(ev_write(e)[0]) and field_of(ev_write(e)[0]).endswith(("::isValidH", "::isValidHdot"))):
            w = ev_write(e)
            wr.setdefault((fn.name.split("::")[-1], field_of(w[0]).split("::")[-1], "true" if _is_lit(w[2], "true") else "false" if _is_lit(w[2], "false") else "?"), []).append((fn, b, i, e))
    setters = {k for k in wr if k[2] == "true"}
    clearers = {k for k in wr if k[2] == "false"}
    chk.judge(all(k[0] == ("updateH" if k[1] == "isValidH" else "updateHdot") for k in setters) and len(setters) >= 2, "MANUALFLAG", "set-only-by-update", "",
              "flags set true only in updateH/updateHdot: %s" % sorted(setters))
    chk.judge(not [k for k in wr if k[2] == "?"], "MANUALFLAG", "literal-writes", "", "flags only assigned literals")
    for flag, realize in (("isValidH", "realizePosition"), ("isValidHdot", "realizeVelocity")):
        ks = [k for k in clearers if k[1] == flag and k[0] == realize]
        chk.judge(bool(ks), "MANUALFLAG", "%s-cleared-in-%s" % (flag, realize), "", "%s clears %s" % (realize, flag))
        for k in ks:
            fn = wr[k][0][0]
            # every switch case clears: all normal paths pass a clearing write.  The switch is on nu, which the class
            # supports for 1..6 only (every multiplyBy... throws otherwise): the "no case matched" edge is out of domain.
            sw = [blk["term"] for blk in fn.blocks.values() if blk.get("term") and blk["term"]["k"] == "switch"]
            dom_ok = len(sw) == 1 and field_of(sw[0]["cond"]) == cls + "::nu" and sorted(c[1] for c in sw[0]["cases"]) == ["1", "2", "3", "4", "5", "6"]
            chk.judge(dom_ok, "MANUALFLAG", "%s:switch-covers-nu=1..6" % realize, fn.loc, "the switch on nu has a case for each supported number of mobilities")
            p = fn.path_exists(None, "exit", lambda q: bool(ev_write(q)) and (field_of(ev_write(q)[0]) or "").endswith("::" + flag) and _is_lit(ev_write(q)[2], "false"),
                               avoid_edges=switch_default_edges(fn))
            chk.judge(p is None, "MANUALFLAG", "%s-cleared-on-all-paths" % flag, fn.loc, "every path through %s clears %s" % (realize, flag), p)
    chk.floor("MANUALFLAG", 6)


_LB = "Simbody/src/Force_LinearBushing.cpp"
_ROD = "Simbody/src/Constraint_Rod.cpp"
_CS = "Simbody/src/CableSpring.cpp"
_F = "Simbody/src/ForceImpl.h"
_G = "Simbody/src/Force_Gravity.cpp"
_S = "Simbody/src/GeneralForceSubsystem.cpp"
MUTATIONS = [
    dict(name="seeded (sub-agent): Rod's lazy velocity cache declared to depend on Position only", arm=True, file="Simbody/src/Constraint_Rod.cpp",
         old="        allocateLazyCacheEntry(state, Stage::Velocity, \n            new Value<VelocityCache>());", new="        allocateLazyCacheEntry(state, Stage::Position, \n            new Value<VelocityCache>());",
         expect="RodImpl::ensureVelocityCacheRealized(const SimTK::State &)const:m_velCacheIx<-state"),

    dict(name="seeded (sub-agent): one instance-cache index list is no longer emptied before the partition is rebuilt", arm=True, file="Simbody/src/SimbodyMatterSubsystemRep.cpp",
         old="    ic.presUDot.clear();    ic.zeroUDot.clear();    ic.freeUDot.clear();", new="    ic.presUDot.clear();    ic.freeUDot.clear();", expect="REFILL:SimbodyMatterSubsystemRep::realizeSubsystemInstanceImpl:zeroUDot"),
    dict(name="LinearBushing parameters invalidate only Dynamics", file=_LB,
         old="            .allocateDiscreteVariable(s, Stage::Instance, \n                                      new Value<InstanceVars>(iv));",
         new="            .allocateDiscreteVariable(s, Stage::Dynamics, \n                                      new Value<InstanceVars>(iv));", expect="STAGE:SimTK::Force::LinearBushingImpl::"),
    dict(name="Rod constraint parameters invalidate only Velocity", arm=True, file=_ROD,
         old="        allocateDiscreteVariable(state, Stage::Position, \n            new Value<Parameters>", new="        allocateDiscreteVariable(state, Stage::Velocity, \n            new Value<Parameters>",
         expect="STAGE:SimTK::Constraint::RodImpl::"),
    dict(name="CableSpring parameters invalidate only Acceleration", file=_CS,
         old="            .allocateDiscreteVariable(s, Stage::Instance, \n                                      new Value<InstanceVars>(iv));",
         new="            .allocateDiscreteVariable(s, Stage::Acceleration, \n                                      new Value<InstanceVars>(iv));", expect="STAGE:SimTK::CableSpring::Impl::"),
    dict(name="MobilityLinearSpring claims to be position-only (pre-fix code)", file=_F,
         old="    bool dependsOnlyOnPositions() const override {return false;}\n    void calcForce(const State& state, Vector_<SpatialVec>& bodyForces, \n                   Vector_<Vec3>& particleForces, Vector& mobilityForces) const\n                   override;\n    Real calcPotentialEnergy(const State& state) const override;\n\n    // Allocate the discrete state variable for the parameters. \n    void realizeTopology(State& s) const override {\n        m_paramsIx",
         new="    bool dependsOnlyOnPositions() const override {return true;}\n    void calcForce(const State& state, Vector_<SpatialVec>& bodyForces, \n                   Vector_<Vec3>& particleForces, Vector& mobilityForces) const\n                   override;\n    Real calcPotentialEnergy(const State& state) const override;\n\n    // Allocate the discrete state variable for the parameters. \n    void realizeTopology(State& s) const override {\n        m_paramsIx",
         expect="POSONLY:SimTK::Force::MobilityLinearSpringImpl::calcForce<-vars"),
    dict(name="Gravity::setMagnitude forgets to invalidate the force cache", arm=True, file=_G,
         old="    if (getMagnitude(state) != g) {\n        getImpl().invalidateForceCache(state);", new="    if (getMagnitude(state) != g) {",
         expect="MUSTCALL:Gravity:setMagnitude:invalidateForceCache"),
    dict(name="realizePosition keeps the cached forces valid", arm=True, file=_S,
         old="        if (cachedForcesAreValidCacheIndex.isValid()) {\n            Value<bool>::updDowncast\n               (updCacheEntry(s, cachedForcesAreValidCacheIndex)) = false;\n        }\n        for (int i = 0; i < (int) forces.size(); ++i)\n            if (enabled[i]) forces[i]->getImpl().realizePosition(s);",
         new="        for (int i = 0; i < (int) forces.size(); ++i)\n            if (enabled[i]) forces[i]->getImpl().realizePosition(s);", expect="FLAG:realizePosition"),
    dict(name="enabling a force keeps the cached forces valid", file=_S,
         old="            if (cachedForcesAreValidCacheIndex.isValid()) {\n                Value<bool>::updDowncast\n                   (updCacheEntry(s, cachedForcesAreValidCacheIndex)) = false;\n            }\n        }\n    }\n\n    void setNumberOfThreads",
         new="        }\n    }\n\n    void setNumberOfThreads", expect="FLAG:setForceIsDisabled"),
    dict(name="cache flagged valid before it is computed", file=_S,
         old="            calcForcesExecutor->execute(calcForcesTask.updRef(),\n                          enabledParallelForces.size() + NumNonParallelThreads);\n            cachedForcesAreValid = true;\n        } else {",
         new="            cachedForcesAreValid = true;\n            calcForcesExecutor->execute(calcForcesTask.updRef(),\n                          enabledParallelForces.size() + NumNonParallelThreads);\n        } else {", expect="FLAG:true-after-dispatch"),
    dict(name="Gravity force cache read without ensure", file=_G,
         old="{   ensureForceCacheValid(state);\n    const ForceCache& fc = getForceCache(state);\n    return fc.pe; }", new="{   const ForceCache& fc = getForceCache(state);\n    return fc.pe; }", expect="ensure<read"),
]
