"""C17 -- Force totals are independent of threading and scheduling.

CONFINE, WHOWRITES, accumulator EFFECT-compare, MODE agreement, task/executor
COUPLING and dispatch REACHDEF on GeneralForceSubsystem.cpp (DESIGN 3, C17)."""
from ..facts import extract, units_matching, Program, AnalysisBroken, sx_find, sx_str
from ..match import (effective_calls, value_sets, known_edges, only_via, ev_write, is_call, call_args, call_obj, field_of, var_of, guard_blocks, lvalue_root, branch_edges)
from .c18 import _in_loop, _is_lit, _is_var

NS = "(anonymous namespace)::"
PT = NS + "CalcForcesParallelTask"
NPT = NS + "CalcForcesNonParallelTask"
REP = "SimTK::GeneralForceSubsystemRep"
CALC = "SimTK::ForceImpl::calcForce"
SHARED = ["m_rigidBodyForces", "m_particleForces", "m_mobilityForces",
          "m_rigidBodyForceCache", "m_particleForceCache", "m_mobilityForceCache"]
UNITS = r"Simbody/src/GeneralForceSubsystem\.cpp$"
HDR = r"Simbody/src/ForceImpl\.h$|SimTKcommon/src/ParallelExecutorImpl\.h$"


def run(chk, tier, overlays=()):
    units = units_matching(UNITS)
    facts = extract(units, hdr=HDR, overlays=overlays)
    P = Program(facts)
    chk.units += units
    chk.nfunctions += len(P.fns)
    tls = {s["name"] for s in P.statics.values() if s["tls"]}
    confine(chk, P, tls)
    whowrites(chk, P)
    accumulators(chk, P, tls)
    coupling(chk, P)
    dispatch(chk, P)
    # the executor's own exactly-once / serialised-finish protocol is part of what makes the totals schedule-independent:
    # share C33's rules on ParallelExecutor.cpp (index striping, initialize<execute<barrier(finish under lock))
    from . import c33
    from ..lockset import LockModel
    u2 = units_matching(r"SimTKcommon/src/ParallelExecutor\.cpp$")
    P2 = Program(extract(u2, hdr=c33.HDR, overlays=overlays))
    chk.units += u2
    L2 = LockModel(P2)
    chk.rule("STRIDE", "shared with C33: worker k executes indices k, k+n, ... with n fixed at thread start and equal to the number of ThreadInfo objects 0..numMaxThreads-1")
    chk.rule("ORDER", "shared with C33: initialize() precedes execute(i); every execute is followed by the barrier whose finish() call runs under runMutex; execute() blocks until all workers are done")
    c33.stride(chk, P2, L2)
    c33.protocol(chk, P2, L2)
    chk.assumptions += ["user ForceImpl::calcForce bodies write only through their three array arguments",
                        "a ParallelExecutor is driven by one owner thread at a time (C33)"]


def _shared_deref(x, cls):
    """name of the shared pointer member if x is *m_xxx (ReferencePtr deref) of the task"""
    r = x
    if isinstance(r, list) and r and r[0] == "opc" and r[1] in ("*", "->") and len(r) > 2:
        f = field_of(r[2])
        if f and f.startswith(cls + "::") and f.split("::")[-1] in SHARED:
            return f.split("::")[-1]
    if isinstance(r, list) and r and r[0] == "call" and r[1].endswith(("::updRef", "::getRef", "::operator*", "::upd")):
        f = field_of(r[2])
        if f and f.startswith(cls + "::") and f.split("::")[-1] in SHARED:
            return f.split("::")[-1]
    return None


_MODE_VS = {}


def _case_of(fn, b):
    """the mode under which block b executes: the single possible value of the task's m_mode there (value-set analysis, so a switch,
    an if / else-if chain or early returns over the mode are read alike); None when several modes are possible"""
    key = fn        # (the Fn object itself: an id() can be reused by a later program once this one is collected)
    if key not in _MODE_VS:
        cls = fn.cls
        en = None
        _MODE_VS[key] = value_sets(fn, lambda x: isinstance(x, list) and bool(x) and x[0] == "mem" and x[2] == cls + "::m_mode", MODES)
    vs = _MODE_VS[key][b]
    return next(iter(vs)) if len(vs) == 1 else None


MODES = {"All", "CachedAndNonCached", "NonCached"}


def confine(chk, P, tls):
    chk.rule("CONFINE", "inside execute(int) of the task that GeneralForceSubsystem hands to a multi-thread executor, the three mutable "
             "array arguments of every ForceImpl::calcForce call are thread-local (thread_local storage) accumulators, never the "
             "shared State arrays (*m_...) nor plain members; they are merged into the shared arrays only by finish(), which the executor serialises")
    ex = P.fn(PT + "::execute")
    sites = list(ex.calls(CALC))
    for b, i, e in sites:
        a = call_args(e)
        case = _case_of(ex, b)
        thread0 = any(b in fn_reg for fn_reg in [_true_region(ex, lambda c: c[0] == "op" and c[1] == "==" and var_of(c[2]) == ex.d["params"][0][0])])
        inst = "%s:%s:line-slot-%s" % (case, "thread0" if thread0 else "worker", _slot(ex, b, sites))
        site = "%s:%d" % (ex.file, e["line"])
        bad = []
        for k in (1, 2, 3):
            x = a[k] if len(a) > k else None
            if isinstance(x, list) and x[0] == "gvar" and x[1] in tls:
                continue
            bad.append(sx_str(x))
        chk.judge(not bad, "CONFINE", PT + "::execute:" + inst, site,
                  "calcForce accumulates into non-thread-local storage %s while other threads' finish() add to the same arrays" % bad)
        # the State argument is the task's state
        chk.judge(field_of(a[0][2]) == PT + "::m_state" if isinstance(a[0], list) and a[0][0] == "opc" else False, "CONFINE", PT + "::execute:" + inst + ":state", site,
                  "calcForce is evaluated on the task's State")
    chk.floor("CONFINE", 16)


def _dual(cond_pred):
    """the negated form of an (in)equality guard: `a != b` states the negation of what `a == b` states"""
    def neg(c):
        return isinstance(c, list) and len(c) == 4 and c[0] in ("op", "opc") and c[1] == "!=" and cond_pred([c[0], "==", c[2], c[3]])
    return neg


def _true_region(fn, cond_pred):
    """blocks that execute only when the guard holds -- `if (g) A`, `if (!g) B else A`, `if (!g) return; A` alike"""
    edges = known_edges(fn, cond_pred, _dual(cond_pred))
    return {b for b in fn.blocks if only_via(fn, b, edges)}


def _slot(fn, b, sites):
    order = sorted(set(x[0] for x in sites), reverse=True)
    return order.index(b)


def whowrites(chk, P):
    chk.rule("WHOWRITES", "the shared force arrays (pointees of m_rigidBodyForces ... m_mobilityForceCache) are written by the parallel task only in finish(); "
             "initialize() and execute() use them read-only (size queries)")
    n = 0
    for m in P.methods_of(PT):
        for b, i, e in m.events(lambda e: e["k"] == "call"):
            x = e["x"]
            # as object of a member / operator call
            objs = []
            if x[0] == "call" and x[2] is not None:
                objs.append((x[2], not e.get("cconst")))
            if x[0] == "opc":
                objs.append((x[2], e.get("op") in ("=", "+=", "-=", "*=", "/=") or (not e.get("cconst") and e.get("op") not in ("*", "->"))))
            # as argument bound to a non-const reference: calcForce(…, Vector&, …)
            if e.get("fn") == CALC:
                for a in call_args(e)[1:4]:
                    objs.append((a, True))
            for o, mut in objs:
                sh = _shared_deref(o, PT)
                if sh is None:
                    continue
                n += 1
                inst = "%s<-%s" % (sh, m.name.split("::")[-1])
                site = "%s:%d" % (m.file, e["line"])
                if not mut:
                    chk.ok("WHOWRITES", inst + ":read", site)
                else:
                    chk.judge(m.name == PT + "::finish", "WHOWRITES", inst, site, "shared array *%s is modified outside finish()" % sh)
    # pointer members themselves: set only by the initializeXxx functions
    for m in P.methods_of(PT):
        for b, i, e in m.events(lambda e: e["k"] == "mem" and e["field"].split("::")[-1] in SHARED and e["field"].startswith(PT) and e["acc"] in ("w", "rw")):
            chk.judge(m.name.split("::")[-1] in ("initializeAll", "initializeCachedAndNonCached", "initializeNonCached"), "WHOWRITES",
                      "ptr:%s<-%s" % (e["field"].split("::")[-1], m.name.split("::")[-1]), "%s:%d" % (m.file, e["line"]), "shared-array pointers are (re)bound only by the initializeXxx functions")
    chk.floor("WHOWRITES", 20)


def accumulators(chk, P, tls):
    chk.rule("ACCUM", "for both task classes: every accumulator that finish() adds into a shared array is resized to that array's size and zeroed by "
             "initialize() under the same mode guard; each shared array receives exactly its own accumulator; calcForce targets agree with the mode "
             "(cache accumulators only in CachedAndNonCached and only for position-only forces; NonCached evaluates only velocity-dependent forces)")
    for cls in (PT, NPT):
        fin = P.fn(cls + "::finish")
        ini = P.fn(cls + "::initialize")
        ex = P.fn(cls + "::execute")
        mode_guard = lambda c, cls=cls: c[0] == "op" and c[1] == "==" and field_of(c[2]) == cls + "::m_mode" and \
            bool(sx_find(c[3], lambda y: y[0] == "enum" and y[1].endswith("::CachedAndNonCached")))
        fin_g = _true_region(fin, mode_guard)
        ini_g = _true_region(ini, mode_guard)
        adds = [(b, i, e) for b, i, e in fin.events(lambda e: e["k"] == "call" and e.get("op") == "+=")]
        pairs = {}
        for b, i, e in adds:
            sh = _shared_deref(e["x"][2], cls)
            acc = e["x"][3]
            accname = acc[1] if acc[0] == "gvar" else (acc[2] if acc[0] == "mem" else sx_str(acc))
            site = "%s:%d" % (fin.file, e["line"])
            short = accname.split("::")[-1]
            chk.judge(sh is not None, "ACCUM", "%s::finish:+=%s:target" % (cls, short), site, "finish adds into a shared array")
            if sh is None:
                continue
            pairs[sh] = short
            # naming family: m_xxx <- m_xxxLocal[Static]
            chk.judge(short.startswith(sh + "Local"), "ACCUM", "%s::finish:%s+=%s" % (cls, sh, short), site, "shared array *%s receives accumulator %s (expected %sLocal...)" % (sh, short, sh))
            guarded = b in fin_g
            chk.judge(guarded == sh.endswith("Cache"), "ACCUM", "%s::finish:%s:mode-guard" % (cls, sh), site,
                      "cache arrays are merged only in CachedAndNonCached mode; main arrays in every mode")
            if cls == PT:
                chk.judge(acc[0] == "gvar" and accname in tls, "ACCUM", "%s::finish:%s:thread-local" % (cls, short), site, "the merged accumulator is thread-local")
            # initialize: resize(sh->size()) and setToZero on acc under the same guard
            for what in ("resize", "setToZero"):
                evs = [(bb, ii, ee) for bb, ii, ee in ini.calls() if ee.get("fn", "").endswith("::" + what) and call_obj(ee) == acc]
                ok = bool(evs)
                path = None
                for bb, ii, ee in evs:
                    if guarded:
                        ok = ok and bb in ini_g
                        # on every path through the guarded region
                        for g in guard_blocks(ini, mode_guard, 0):
                            path = ini.path_exists((g, -1), "exit", lambda q, ee=ee: q is ee)
                            ok = ok and path is None
                    else:
                        path = ini.path_exists(None, "exit", lambda q, ee=ee: q is ee)
                        ok = ok and path is None
                    if what == "resize":
                        a0 = call_args(ee)[0] if call_args(ee) else None
                        szof = sx_find(a0, lambda y: y[0] == "call" and y[1].endswith("::size"))
                        ok = ok and bool(szof) and _shared_deref(szof[0][2], cls) == sh
                chk.judge(ok, "ACCUM", "%s::initialize:%s.%s" % (cls, short, what), ini.loc,
                          "initialize() must %s accumulator %s (to the size of *%s) on every path of the same mode" % (what, short, sh), path)
        chk.judge(sorted(pairs) == sorted(SHARED), "ACCUM", cls + "::finish:all-six-arrays", fin.loc, "finish merges all six shared arrays (got %s)" % sorted(pairs))
        # MODE agreement at the calcForce sites
        for b, i, e in ex.calls(CALC):
            case = _case_of(ex, b)
            a = call_args(e)
            site = "%s:%d" % (ex.file, e["line"])
            tgt = []
            for x in a[1:4]:
                sh = _shared_deref(x, cls)
                nm = sh if sh else (x[1].split("::")[-1] if x[0] == "gvar" else (x[2].split("::")[-1] if x[0] == "mem" else "?"))
                tgt.append(nm)
            is_cache = ["Cache" in t for t in tgt]
            fam = [t.replace("LocalStatic", "").replace("Local", "") for t in tgt]
            inst = "%s::execute:%s:slot%d" % (cls, case, _slot(ex, b, list(ex.calls(CALC))))
            chk.judge(len(set(is_cache)) == 1, "ACCUM", inst + ":one-family", site, "the three targets are all cache or all non-cache arrays: %s" % tgt)
            exp = ["m_rigidBodyForce", "m_particleForce", "m_mobilityForce"]
            chk.judge(all(f.startswith(x) for f, x in zip(fam, exp)), "ACCUM", inst + ":arg-order", site, "targets are (rigid body, particle, mobility) in this order: %s" % tgt)
            # position-only guard
            impl = call_obj(e)
            pos_true = _true_region(ex, lambda c: c[0] == "call" and c[1].endswith("::dependsOnlyOnPositions"))
            pos_neg = _true_region(ex, lambda c: c[0] == "un" and c[1] == "!" and c[2][0] == "call" and c[2][1].endswith("::dependsOnlyOnPositions"))
            pos_false = _false_region(ex, lambda c: c[0] == "call" and c[1].endswith("::dependsOnlyOnPositions"))
            if case == "All":
                chk.judge(not any(is_cache), "ACCUM", inst + ":mode", site, "mode All accumulates everything into the main arrays")
            elif case == "CachedAndNonCached":
                if all(is_cache):
                    chk.judge(b in pos_true, "ACCUM", inst + ":mode", site, "cache arrays receive only forces with dependsOnlyOnPositions() == true")
                else:
                    chk.judge(b in pos_false, "ACCUM", inst + ":mode", site, "in CachedAndNonCached mode the main arrays receive only velocity-dependent forces")
            elif case == "NonCached":
                chk.judge(not any(is_cache) and b in pos_neg, "ACCUM", inst + ":mode", site, "mode NonCached evaluates only forces with !dependsOnlyOnPositions() into the main arrays")
            else:
                chk.violation("ACCUM", inst + ":mode", site, "calcForce outside a known mode case (%s)" % case)
        # every Mode is handled: each enumerator is the mode of at least one calcForce site
        en = P.enums.get(cls + "::Mode")
        chk.require(en is not None, "enum Mode not found in " + cls)
        if en:
            handled = sorted({_case_of(ex, b) for b, _, _ in ex.calls(CALC)} - {None})
            chk.judge(handled == sorted(n.split("::")[-1] for n, v in en["enumerators"]), "ACCUM", cls + "::execute:switch-exhaustive", ex.loc,
                      "every Mode evaluates forces somewhere in execute(): %s" % handled)
    chk.floor("ACCUM", 60)


def _false_region(fn, cond_pred):
    """blocks that execute only when the guard is false"""
    edges = known_edges(fn, _dual(cond_pred), cond_pred)
    # (a plain boolean guard has no `!=` dual: its false edge is found through the pos/neg swap above)
    return {b for b in fn.blocks if only_via(fn, b, edges)}


def coupling(chk, P):
    chk.rule("COUPLING", "CalcForcesNonParallelTask keeps its accumulators in plain members and is therefore only ever paired with a one-thread executor: "
             "the branch that creates it also creates ParallelExecutor(1); any other writer of calcForcesExecutor invalidates the subsystem topology cache "
             "so that realizeTopology re-establishes the pairing")
    rt = P.fn(REP + "::realizeSubsystemTopologyImpl")
    mk = [(b, i, e) for b, i, e in rt.events(lambda e: e["k"] == "new" and e["ty"].endswith("CalcForcesNonParallelTask"))]
    chk.judge(len(mk) == 1, "COUPLING", "realizeTopology:creates-NonParallelTask", rt.loc, "one creation site of the non-parallel task")
    def one_thread_exec(e):
        w = ev_write(e)
        if not w or field_of(w[0]) != REP + "::calcForcesExecutor":
            return False
        n = sx_find(w[2], lambda y: y[0] == "new" and y[1] == "SimTK::ParallelExecutor")
        return bool(n) and bool(sx_find(n[0][2], lambda y: y[0] == "lit" and y[1] == "1")) and not sx_find(n[0][2], lambda y: y[0] in ("var", "mem"))
    for b, i, e in mk:
        p = rt.path_exists((b, i), "exit", one_thread_exec)
        chk.judge(p is None, "COUPLING", "realizeTopology:NonParallelTask=>ParallelExecutor(1)", "%s:%d" % (rt.file, e["line"]),
                  "every path from creating the non-parallel task to the end of realizeTopology installs a one-thread executor", p)
        # and no later write replaces it with something else
        later = [(bb, ii, ee) for bb, ii, ee in rt.events(lambda q: bool(ev_write(q)) and field_of(ev_write(q)[0]) == REP + "::calcForcesExecutor" and not one_thread_exec(q))
                 if rt.path_exists((b, i), lambda q, ee=None: False, lambda q: False) is None and _reaches_ev(rt, (b, i), (bb, ii))]
        chk.judge(not later, "COUPLING", "realizeTopology:executor-not-overwritten", rt.loc, "the one-thread executor is not replaced afterwards")
    # all writers of calcForcesExecutor
    for fn in P.all_fns():
        # re-seating the pointer (assignment, reset, swap, hand-out of the ClonePtr itself); calls *through* it are not writes of it
        ws = [(b, i, e) for b, i, e in fn.events(lambda e: e["k"] == "mem" and e["field"] == REP + "::calcForcesExecutor" and
                                                 (e["acc"] in ("w", "rw", "handout", "addr", "refarg", "refbind") or
                                                  (e["acc"] == "mcall" and e.get("via", "").split("::")[-1] in ("reset", "swap", "release", "operator=", "adopt"))))]
        for b, i, e in ws:
            inst = "calcForcesExecutor<-" + fn.id
            site = "%s:%d" % (fn.file, e["line"])
            if fn.kind in ("ctor",) and fn.cls == REP:
                chk.ok("COUPLING", inst + ":ctor", site, "constructor: no State exists yet")
            elif fn.name == REP + "::realizeSubsystemTopologyImpl":
                chk.ok("COUPLING", inst + ":realizeTopology", site, "coupled branch (checked above)")
            else:
                p = fn.path_exists(None, "exit", lambda q: q["k"] == "call" and q.get("fn", "").endswith("::invalidateSubsystemTopologyCache"))
                chk.judge(p is None, "COUPLING", inst, site,
                          "replaces the executor without invalidating the topology cache: a non-parallel task could then run on several threads", p)
    # the non-parallel task's execute touches only thread index 0 work and is never handed parallel forces
    npx = P.fn(NPT + "::execute")
    for b, i, e in npx.calls(CALC):
        t0 = _true_region(npx, lambda c: c[0] == "op" and c[1] == "==" and var_of(c[2]) == npx.d["params"][0][0] and
                          bool(sx_find(c[3], lambda y: y[0] == "gvar" and y[1].endswith("NonParallelForcesIndex"))))
        chk.judge(b in t0, "COUPLING", NPT + "::execute:only-index-0:slot%d" % _slot(npx, b, list(npx.calls(CALC))), "%s:%d" % (npx.file, e["line"]),
                  "the non-parallel task computes only under threadIndex == NonParallelForcesIndex")
    chk.floor("COUPLING", 7)


def _reaches_ev(fn, a, b):
    return fn.path_exists(a, lambda q: False, lambda q: False) is None and (a[0] == b[0] and a[1] < b[1] or b[0] in _reach_blocks(fn, a[0]))


def _reach_blocks(fn, b0):
    seen = set()
    st = list(fn.succs(b0))
    while st:
        x = st.pop()
        if x in seen:
            continue
        seen.add(x)
        st.extend(fn.succs(x))
    return seen


def dispatch(chk, P):
    chk.rule("REACHDEF", "each of the three dispatch sites in realizeSubsystemDynamicsImpl runs calcForcesTask on calcForcesExecutor with count "
             "enabledParallelForces.size() + NumNonParallelThreads, immediately after the initializeXxx call that received the same "
             "enabledParallelForces/enabledNonParallelForces arrays; in execute(), index 0 is the non-parallel set and index k is enabledParallelForces[k-1]")
    rd = P.fn(REP + "::realizeSubsystemDynamicsImpl")
    # (a dispatch made through a same-class helper counts as a site, read with the helper's parameters replaced by the site's arguments)
    sites = [(b, i, ee) for b, i, _, ee in effective_calls(P, rd, "SimTK::ParallelExecutor::execute")]
    chk.judge(len(sites) == 3, "REACHDEF", "dispatch-sites=3", rd.loc, "three dispatch sites (All, CachedAndNonCached, NonCached), found %d" % len(sites))
    inits = {"initializeAll": None, "initializeCachedAndNonCached": None, "initializeNonCached": None}
    for b, i, e in sites:
        site = "%s:%d" % (rd.file, e["line"])
        a = call_args(e)
        # nearest preceding initializeXxx in the same block
        prev = [(ii, ee) for ii, ee in enumerate(rd.blocks[b]["ev"]) if ii < i and ee["k"] == "call" and ee.get("fn", "").startswith(NS + "CalcForcesTask::initialize")]
        chk.judge(bool(prev), "REACHDEF", "dispatch@slot%d:initialize-first" % _slot(rd, b, sites), site, "dispatch is preceded in the same block by an initializeXxx call")
        if not prev:
            continue
        ie = prev[-1][1]
        kind = ie["fn"].split("::")[-1]
        inits[kind] = ie
        inst = "dispatch:" + kind
        chk.judge(field_of(call_obj(e)) == REP + "::calcForcesExecutor", "REACHDEF", inst + ":executor", site, "dispatched on calcForcesExecutor")
        chk.judge(field_of(a[0]) == REP + "::calcForcesTask" and field_of(call_obj(ie)) == REP + "::calcForcesTask", "REACHDEF", inst + ":task", site, "the dispatched task is the initialised calcForcesTask")
        ia = call_args(ie)
        par = var_of(ia[3])
        nonpar = var_of(ia[2])
        cnt = a[1]
        ok = isinstance(cnt, list) and cnt[0] == "op" and cnt[1] == "+" and \
            bool(sx_find(cnt[2], lambda y: y[0] == "call" and y[1].endswith("::size") and var_of(y[2]) == par)) and \
            bool(sx_find(cnt[3], lambda y: y[0] == "gvar" and y[1].endswith("NumNonParallelThreads")))
        chk.judge(ok, "REACHDEF", inst + ":count", site, "count is %s.size() + NumNonParallelThreads, got %s" % (par, sx_str(cnt)))
        # the arrays are the State's cache entries of the matching index
        for v, idx in ((par, "enabledParallelForcesIndex"), (nonpar, "enabledNonParallelForcesIndex")):
            d = [dd for _, _, dd in rd.events(lambda dd: dd["k"] == "decl" and dd["var"] == v)]
            chk.judge(bool(d) and bool(sx_find(d[0]["init"], lambda y: y[0] == "mem" and y[2] == REP + "::" + idx)), "REACHDEF", inst + ":" + idx, site,
                      "%s is the cache entry %s" % (v, idx))
        chk.judge(var_of(ia[0]) is None and field_of(ia[0]) == REP + "::forces", "REACHDEF", inst + ":forces", site, "the force list is the subsystem's")
        chk.judge(var_of(ia[1]) == rd.d["params"][0][0], "REACHDEF", inst + ":state", site, "the State being realized is passed")
    chk.judge(all(v is not None for v in inits.values()), "REACHDEF", "dispatch:all-three-modes", rd.loc, "each mode has a dispatch site: %s" % {k: v is not None for k, v in inits.items()})
    # constants
    for nm, val in (("NumNonParallelThreads", "1"), ("NonParallelForcesIndex", "0")):
        st = [s for s in P.statics.values() if s["name"].endswith("::" + nm)]
        chk.judge(len(st) == 1 and st[0]["const"] and _is_lit(st[0]["init"], val), "REACHDEF", "const:" + nm, "", "%s is the constant %s" % (nm, val))
    # execute(): index mapping
    for cls in (PT,):
        ex = P.fn(cls + "::execute")
        ti = ex.d["params"][0][0]
        elts = [(b, i, e) for b, i, e in ex.calls() if e.get("fn", "").endswith("::getElt") or e.get("op") == "[]"]
        n = 0
        for b, i, e in elts:
            obj = call_obj(e) if e["x"][0] == "call" else e["x"][2]
            if not (isinstance(obj, list) and sx_find(obj, lambda y: y[0] == "mem" and y[2] == cls + "::m_enabledParallelForces")):
                continue
            n += 1
            a = call_args(e)
            idx = a[-1] if e["x"][0] == "call" else e["x"][3]
            ok = isinstance(idx, list) and idx[0] == "op" and idx[1] == "-" and var_of(idx[2]) == ti and _is_lit(idx[3], "1")
            chk.judge(ok, "REACHDEF", "%s::execute:%s:parallel[k-1]" % (cls, _case_of(ex, b)), "%s:%d" % (ex.file, e["line"]),
                      "worker index k evaluates enabledParallelForces[k-1], got index " + sx_str(idx))
            t0false = _false_region(ex, lambda c: c[0] == "op" and c[1] == "==" and var_of(c[2]) == ti and bool(sx_find(c[3], lambda y: y[0] == "gvar" and y[1].endswith("NonParallelForcesIndex"))))
            chk.judge(b in t0false, "REACHDEF", "%s::execute:%s:parallel-in-else" % (cls, _case_of(ex, b)), "%s:%d" % (ex.file, e["line"]),
                      "parallel forces are evaluated only when threadIndex != NonParallelForcesIndex")
        chk.judge(n == 3, "REACHDEF", cls + "::execute:three-parallel-lookups", ex.loc, "one parallel-force lookup per mode (found %d)" % n)
        # non-parallel set loops under threadIndex == 0
        loops = [b for b, blk in ex.blocks.items() if blk.get("term") and blk["term"]["k"] == "forrange"]
    chk.floor("REACHDEF", 30)


_G = "Simbody/src/GeneralForceSubsystem.cpp"
MUTATIONS = [
    dict(name="thread 0 writes the shared arrays in NonCached mode (pre-fix code)", arm=True, file=_G,
         old="                        impl.calcForce(*m_state,\n                                m_rigidBodyForcesLocalStatic, m_particleForcesLocalStatic,\n                                m_mobilityForcesLocalStatic);\n                    }\n                }\n            } else {",
         new="                        impl.calcForce(*m_state,\n                                *m_rigidBodyForces, *m_particleForces,\n                                *m_mobilityForces);\n                    }\n                }\n            } else {",
         expect="CONFINE:(anonymous namespace)::CalcForcesParallelTask::execute:NonCached:thread0"),
    dict(name="worker accumulates into a plain member copy", file=_G,
         old="                impl.calcForce(*m_state, m_rigidBodyForcesLocalStatic, m_particleForcesLocalStatic, m_mobilityForcesLocalStatic);\n\n            }\n            break;",
         new="                impl.calcForce(*m_state, *m_rigidBodyForces, m_particleForcesLocalStatic, m_mobilityForcesLocalStatic);\n\n            }\n            break;",
         expect="CONFINE:(anonymous namespace)::CalcForcesParallelTask::execute:All:worker"),
    dict(name="initialize forgets to zero the mobility accumulator", arm=True, file=_G,
         old="        m_mobilityForcesLocalStatic.resize(m_mobilityForces->size());\n        m_mobilityForcesLocalStatic.setToZero();\n",
         new="        m_mobilityForcesLocalStatic.resize(m_mobilityForces->size());\n", expect="m_mobilityForcesLocalStatic.setToZero"),
    dict(name="finish merges the cache accumulators in every mode", file=_G,
         old="        *m_mobilityForces += m_mobilityForcesLocalStatic;\n\n        if (m_mode == CachedAndNonCached) {", new="        *m_mobilityForces += m_mobilityForcesLocalStatic;\n\n        {",
         expect="CalcForcesParallelTask::finish:m_rigidBodyForceCache:mode-guard"),
    dict(name="finish adds particle accumulator into rigid body array", file=_G,
         old="        *m_particleForces += m_particleForcesLocalStatic;\n        *m_mobilityForces += m_mobilityForcesLocalStatic;",
         new="        *m_particleForces += m_particleForcesLocalStatic;\n        *m_mobilityForces += m_mobilityForceCacheLocalStatic;", expect="finish:m_mobilityForces+=m_mobilityForceCacheLocalStatic"),
    dict(name="position-only worker force goes to main accumulators in cached mode", file=_G,
         old="                if (impl.dependsOnlyOnPositions()) {\n                    impl.calcForce(*m_state, m_rigidBodyForceCacheLocalStatic, m_particleForceCacheLocalStatic, m_mobilityForceCacheLocalStatic);",
         new="                if (!impl.dependsOnlyOnPositions()) {\n                    impl.calcForce(*m_state, m_rigidBodyForceCacheLocalStatic, m_particleForceCacheLocalStatic, m_mobilityForceCacheLocalStatic);",
         expect="ACCUM:(anonymous namespace)::CalcForcesParallelTask::execute:CachedAndNonCached"),
    dict(name="setNumberOfThreads without topology invalidation (pre-fix code)", arm=True, file=_G,
         old="        invalidateSubsystemTopologyCache();\n        calcForcesExecutor = new ParallelExecutor(numThreads);", new="        calcForcesExecutor = new ParallelExecutor(numThreads);",
         expect="COUPLING:calcForcesExecutor<-SimTK::GeneralForceSubsystemRep::setNumberOfThreads"),
    dict(name="non-parallel task keeps the multi-thread executor", file=_G,
         old="            // NonParallelTask is not thread-safe, force to single thread\n            calcForcesExecutor = new ParallelExecutor(1);\n", new="", expect="NonParallelTask=>ParallelExecutor(1)"),
    dict(name="dispatch count forgets the non-parallel slot", file=_G,
         old="            calcForcesExecutor->execute(calcForcesTask.updRef(),\n                          enabledParallelForces.size() + NumNonParallelThreads);\n\n            // Allow forces",
         new="            calcForcesExecutor->execute(calcForcesTask.updRef(),\n                          enabledParallelForces.size());\n\n            // Allow forces", expect="dispatch:initializeAll:count"),
    dict(name="worker k evaluates parallel force k", file=_G,
         old="                const auto& forceIndex =\n                        m_enabledParallelForces->getElt(threadIndex-1);\n                const auto& impl = m_forces.getRef()[forceIndex]->getImpl();\n                impl.calcForce(*m_state, m_rigidBodyForcesLocalStatic",
         new="                const auto& forceIndex =\n                        m_enabledParallelForces->getElt(threadIndex);\n                const auto& impl = m_forces.getRef()[forceIndex]->getImpl();\n                impl.calcForce(*m_state, m_rigidBodyForcesLocalStatic",
         expect="parallel[k-1]"),
    dict(name="initializeNonCached passes swapped enabled lists", file=_G,
         old="            calcForcesTask->initializeNonCached(forces, s,\n                               enabledNonParallelForces, enabledParallelForces,",
         new="            calcForcesTask->initializeNonCached(forces, s,\n                               enabledParallelForces, enabledNonParallelForces,", expect="dispatch:initializeNonCached"),
]
