"""C18 -- State stage and cache semantics follow the documented model.

Decides (DESIGN section 3, C18): HANDOUT, EFFECT, copy discipline, WHOWRITES,
FORWARD.  Not decided: value logic of comparisons and loop bounds."""
from ..facts import extract, units_matching, Program, AnalysisBroken, sx_find, sx_enums, sx_str
from ..match import (ev_write, writes_field, is_call, call_args, call_obj, field_of, var_of,
                     guard_blocks, lvalue_root)

SI = "SimTK::StateImpl"
PSI = "SimTK::PerSubsystemInfo"
DVI = "SimTK::DiscreteVarInfo"
CEI = "SimTK::CacheEntryInfo"
LOD = "SimTK::ListOfDependents"

# state-variable storage -> (latest stage that must be invalidated, note function)
# oracle: comments in State.h / StateImpl.h ("Back up to Stage::X-1").
STATE_VARS = {
    "t": ("Time", None),
    "y": ("Position", "Y"),
    "q": ("Position", "Q"),
    "u": ("Velocity", "U"),
    "z": ("Dynamics", "Z"),
    "uWeights": ("Report", None),
    "zWeights": ("Report", None),
    "qerrWeights": ("Position", None),
    "uerrWeights": ("Velocity", None),
}
# infrastructure (non-variable, non-mutable) storage that may be handed out
# only by the named accessor; each is private to the State implementation.
INTERNAL_HANDOUT = {
    SI + "::subsystems": {SI + "::updSubsystem"},
    SI + "::qDependents": {SI + "::updQDependents"},
    SI + "::uDependents": {SI + "::updUDependents"},
    SI + "::zDependents": {SI + "::updZDependents"},
    PSI + "::discreteInfo": {PSI + "::updDiscreteVarInfo"},
    DVI + "::m_value": {DVI + "::updValue"},
    DVI + "::m_dependents": {DVI + "::updDependents"},
    CEI + "::m_dependents": {CEI + "::updDependents"},
    CEI + "::m_value": {CEI + "::updValue"},
}
NOTE = {"Q": SI + "::noteQChange", "U": SI + "::noteUChange", "Z": SI + "::noteZChange"}


def stage_values(P):
    e = P.enums.get("SimTK::Stage::Level")
    if not e:
        raise AnalysisBroken("enum SimTK::Stage::Level not found")
    return {n.split("::")[-1]: int(v) for n, v in e["enumerators"]}


def must_calls(P, fn, depth=3):
    """Names of functions called on every normal path through fn (transitively
    through callees that have bodies, to the given inlining depth)."""
    res = set()
    names = set(e["fn"] for _, _, e in fn.calls() if "fn" in e)
    for n in names:
        if fn.path_exists(None, "exit", lambda e, n=n: is_call(e, n)) is None:
            res.add(n)
            if depth > 0:
                for cal in P.fns_named(n):
                    if cal is not fn:
                        res |= must_calls(P, cal, depth - 1)
    return res


def run(chk, tier, overlays=(), fixture=None):
    units = units_matching(r"SimTKcommon/Simulation/src/State\.cpp$")
    facts = extract(units, hdr=r"Simulation/include/SimTKcommon/internal/(StateImpl|State)\.h$", overlays=overlays)
    P = Program(facts)
    chk.units += units
    chk.nfunctions += len(P.fns)
    check_program(chk, P, tier)


def check_program(chk, P, tier, prefix=""):
    SV = stage_values(P)
    handout(chk, P, SV)
    effects(chk, P)
    copies(chk, P)
    whowrites(chk, P)
    forward(chk, P)


# ---------------------------------------------------------------- HANDOUT

def handout(chk, P, SV, si=SI, psi=PSI, dvi=DVI, cei=CEI):
    chk.rule("HANDOUT", "every method that returns/binds a non-const reference to state-variable storage "
             "(non-mutable members of StateImpl/PerSubsystemInfo) passes, on every path to the hand-out, "
             "invalidateAll(Stage S) with S no later than the documented stage, and the value-version "
             "note function of that variable; storage not in the table may be handed out only by its tabled accessor")
    mutable = {}
    for c in (si, psi, dvi, cei):
        cd = P.classes.get(c)
        if not cd:
            raise AnalysisBroken("class vanished: " + c)
        for f in cd["fields"]:
            mutable[c + "::" + f["name"]] = bool(f.get("mutable"))
    note_provides = {}
    for nm in ("Q", "U", "Z", "Y"):
        f = P.fn(si + "::note%sChange" % nm)
        note_provides[f.name] = ({f.name} | must_calls(P, f, 1))
    n = 0
    for cls in (si, psi, dvi, cei):
        for m in sorted(P.methods_of(cls), key=lambda f: f.id):
            if m.kind in ("ctor", "copyctor", "movector", "dtor"):
                continue
            for b, i, e in m.events(lambda e: e["k"] == "mem" and e["acc"] in ("handout", "addr")):
                field = e["field"]
                if field not in mutable or mutable[field]:
                    continue  # cache storage or foreign class
                short = field.split("::")[-1]
                inst = "%s->%s" % (m.id, short)
                site = "%s:%d" % (m.file, e["line"])
                owner = field.rsplit("::", 1)[0]
                if owner in (si, psi) and short in STATE_VARS:
                    n += 1
                    stage, note = STATE_VARS[short]
                    lim = SV[stage]

                    def inval_ok(ev):
                        if not is_call(ev, si + "::invalidateAll"):
                            return False
                        en = sx_enums(ev["x"])
                        return len(en) == 1 and SV.get(en[0].split("::")[-1], 99) <= lim and SV[en[0].split("::")[-1]] >= SV["Time"]
                    path = m.path_exists(None, lambda ev: ev is e, inval_ok)
                    chk.judge(path is None, "HANDOUT", inst, site,
                              "hand-out of %s must be preceded on every path by invalidateAll(Stage<=%s)" % (short, stage), path)
                    if note:
                        need = [NOTE[note]] if note != "Y" else [NOTE["Q"], NOTE["U"], NOTE["Z"]]
                        for nf in need:
                            def note_ok(ev, nf=nf):
                                return ev["k"] == "call" and nf in note_provides.get(ev.get("fn", ""), ())
                            path = m.path_exists(None, lambda ev: ev is e, note_ok)
                            chk.judge(path is None, "HANDOUT", inst + "+" + nf.split("::")[-1], site,
                                      "hand-out of %s must be preceded on every path by %s (value version bump + dependents)" % (short, nf), path)
                    # a state-variable hand-out must come from a non-const method
                    chk.judge(not m.d.get("const"), "HANDOUT", inst + ":nonconst", site,
                              "state-variable storage handed out from a const method")
                elif field in INTERNAL_HANDOUT:
                    n += 1
                    chk.judge(m.name in INTERNAL_HANDOUT[field], "HANDOUT", inst + ":internal", site,
                              "internal storage %s handed out by a function other than its tabled accessor" % field)
                elif e["acc"] == "handout":
                    n += 1
                    chk.violation("HANDOUT", inst + ":unreviewed", site,
                                  "non-mutable State storage %s is handed out with write access and is not in the reviewed table" % field)
    # updDiscreteVariable: dynamic stage
    m = P.fn(si + "::updDiscreteVariable")
    rets = m.ret_events()
    chk.require(len(rets) >= 1, "updDiscreteVariable has no return")
    for b, i, r in rets:
        site = "%s:%d" % (m.file, r["line"])
        inst = m.id
        # returned value must be DiscreteVarInfo::updValue(dv...)
        uv = [c for c in sx_find(r["val"], lambda y: y[0] == "call" and y[1] == dvi + "::updValue")]
        chk.judge(bool(uv), "HANDOUT", inst + ":via-updValue", site,
                  "discrete variable value must be handed out through DiscreteVarInfo::updValue (version bump, time stamp, dependents)")
        dvvar = var_of(uv[0][2]) if uv else None

        def inval_dyn(ev):
            if not is_call(ev, si + "::invalidateAll"):
                return False
            c = sx_find(ev["x"], lambda y: y[0] == "call" and y[1] == dvi + "::getInvalidatedStage")
            return bool(c) and var_of(c[0][2]) == dvvar
        path = m.path_exists(None, lambda ev: ev is r, inval_dyn)
        chk.judge(path is None, "HANDOUT", inst + ":invalidates-own-stage", site,
                  "updDiscreteVariable must invalidateAll(dv.getInvalidatedStage()) of the same variable on every path", path)
        # conditional MUSTCALL: auto-update entry invalidated when valid
        cxdecl = [e for _, _, e in m.events(lambda e: e["k"] == "decl" and e["init"] and
                                            sx_find(e["init"], lambda y: y[0] == "call" and y[1] == dvi + "::getAutoUpdateEntry"))]
        ok = False
        path = None
        if cxdecl:
            cx = cxdecl[0]["var"]
            gb = guard_blocks(m, lambda c: c[0] == "call" and c[1].endswith("::isValid") and var_of(c[2]) == cx, 0)
            if gb:
                ok = True
                for g in gb:
                    path = m.path_exists((g, -1), lambda ev: ev is r, lambda ev: is_call(ev, cei + "::invalidate"))
                    if path is not None:
                        ok = False
        chk.judge(ok, "HANDOUT", inst + ":auto-update-entry-invalidated", site,
                  "when the variable has an auto-update cache entry (cx.isValid()) that entry must be invalidated before the hand-out", path)
        n += 3
    # AGREE: global vs per-subsystem accessor use the same stage
    bystage = {}
    for m in P.methods_of(si):
        for b, i, e in m.events(lambda e: e["k"] == "mem" and e["acc"] == "handout"):
            short = e["field"].split("::")[-1]
            if short in STATE_VARS and e["field"].rsplit("::", 1)[0] in (si, psi):
                st = set()
                for _, _, c in m.calls(si + "::invalidateAll"):
                    st.update(x.split("::")[-1] for x in sx_enums(c["x"]))
                bystage.setdefault(short, {})[m.id] = sorted(st)
    for short, d in sorted(bystage.items()):
        vals = set(tuple(v) for v in d.values())
        if len(vals) > 1:
            chk.note("AGREE(informational): accessors of %s invalidate different stages: %s (all at or before the documented stage %s)"
                     % (short, d, STATE_VARS[short][0]))
    chk.floor("HANDOUT", 40)


# ----------------------------------------------------------------- EFFECT

def _must(chk, fn, pred, rule, inst, what, avoid_blocks=(), extra_ok=None):
    def av(e):
        return pred(e) or (extra_ok is not None and extra_ok(e))
    path = fn.path_exists(None, "exit", av, avoid_blocks=avoid_blocks)
    chk.judge(path is None, rule, "%s:%s" % (fn.id, inst), fn.loc, what, path)


def _must_in_loop(chk, fn, pred, rule, inst, what, avoid_blocks=(), extra_ok=None):
    """The effect happens inside a loop whose header every (non-exempt) path
    passes: the loop body runs for whatever iteration range the (undecided)
    bounds give, and no path skips the loop itself."""
    evs = [(b, i, e) for b, i, e in fn.events(pred)]
    ok = False
    path = None
    dom = fn.dominators()
    for b, i, e in evs:
        if not _in_loop(fn, b):
            continue
        heads = [h for h in _loop_heads(fn) if h in dom.get(b, ()) and _reaches(fn, b, h)]
        for h in heads:
            def av(ev):
                return extra_ok is not None and extra_ok(ev)
            path = fn.path_exists(None, "exit", av, avoid_blocks=set(avoid_blocks) | {h})
            if path is None:
                ok = True
    chk.judge(ok, rule, "%s:%s" % (fn.id, inst), fn.loc, what + " (inside a loop that no path skips)", path)


def _reaches(fn, a, b):
    seen = set()
    st = list(fn.succs(a))
    while st:
        x = st.pop()
        if x == b:
            return True
        if x in seen:
            continue
        seen.add(x)
        st.extend(fn.succs(x))
    return False


def _inc(field):
    def p(e):
        w = ev_write(e)
        return bool(w) and field_of(w[0]) == field and w[1] in ("++", "+=")
    return p


def _assign(field, rhs_pred=None):
    def p(e):
        w = ev_write(e)
        if not (w and field_of(w[0]) == field and w[1] == "="):
            return False
        return rhs_pred is None or rhs_pred(w[2])
    return p


def _notify(field):
    def p(e):
        return is_call(e, LOD + "::notePrerequisiteChange") and field_of(call_obj(e)) == field
    return p


def _is_lit(x, v):
    return bool(sx_find(x, lambda y: y[0] == "lit" and y[1] == v)) and not sx_find(x, lambda y: y[0] in ("var", "mem", "call"))


def _is_var(x, name):
    r = lvalue_root(x)
    return isinstance(r, list) and r[:1] == ["var"] and r[1] == name


def effects(chk, P):
    chk.rule("EFFECT", "each core mutator performs, on every normal path (or every path outside its tabled "
             "early-return guard), the tabled writes and calls: version bumps, up-to-date flags, dependents notification, stage writes")
    # DiscreteVarInfo::updValue
    f = P.fn(DVI + "::updValue")
    _must(chk, f, _inc(DVI + "::m_valueVersion"), "EFFECT", "++m_valueVersion", "value version must be bumped whenever write access is handed out")
    _must(chk, f, _assign(DVI + "::m_timeLastUpdated", lambda r: _is_var(r, f.d["params"][1][0])), "EFFECT", "m_timeLastUpdated=updTime", "time stamp must record the update time argument")
    _must(chk, f, _notify(DVI + "::m_dependents"), "EFFECT", "notify-dependents", "dependent cache entries must be invalidated")
    # CacheEntryInfo::invalidate
    f = P.fn(CEI + "::invalidate")
    _must(chk, f, _assign(CEI + "::m_dependsOnVersionWhenLastComputed", lambda r: _is_lit(r, "0")), "EFFECT", "dependsOnVersion=0", "recorded depends-on version must be zeroed")
    _must(chk, f, _assign(CEI + "::m_isUpToDateWithPrerequisites", lambda r: _is_lit(r, "false")), "EFFECT", "upToDate=false", "prerequisite flag must be cleared")
    _must(chk, f, _inc(CEI + "::m_valueVersion"), "EFFECT", "++m_valueVersion", "cache value version must be bumped")
    _must(chk, f, _notify(CEI + "::m_dependents"), "EFFECT", "notify-dependents", "downstream cache entries must be invalidated")
    # CacheEntryInfo::markAsUpToDate
    f = P.fn(CEI + "::markAsUpToDate")
    ver = [e for _, _, e in f.events(lambda e: e["k"] == "decl" and e["init"] and
                                     sx_find(e["init"], lambda y: y[0] == "call" and y[1] == PSI + "::getStageVersion"))]
    good_ver = False
    vname = None
    if ver:
        c = sx_find(ver[0]["init"], lambda y: y[0] == "call" and y[1] == PSI + "::getStageVersion")[0]
        good_ver = field_of(c[3][0]) == CEI + "::m_dependsOnStage" if c[3] else False
        vname = ver[0]["var"]
        # the subsystem queried must be the one of this entry's key
        sub = var_of(c[2])
        sd = [e for _, _, e in f.events(lambda e: e["k"] == "decl" and e["var"] == sub)]
        good_ver = good_ver and bool(sd) and bool(sx_find(sd[0]["init"], lambda y: y[0] == "mem" and y[2] == CEI + "::m_myKey"))
    chk.judge(good_ver, "EFFECT", f.id + ":version-source", f.loc,
              "recorded version must be the current version of this entry's depends-on stage in its own subsystem")
    _must(chk, f, _assign(CEI + "::m_dependsOnVersionWhenLastComputed", lambda r: vname and _is_var(r, vname)), "EFFECT", "dependsOnVersion=current", "depends-on version must be recorded")
    _must(chk, f, _assign(CEI + "::m_isUpToDateWithPrerequisites", lambda r: _is_lit(r, "true")), "EFFECT", "upToDate=true", "prerequisite flag must be set")
    # noteXChange
    for nm, ver_f, dep_f in (("Q", "qVersion", "qDependents"), ("U", "uVersion", "uDependents"), ("Z", "zVersion", "zDependents")):
        f = P.fn(SI + "::note%sChange" % nm)
        _must(chk, f, _inc(SI + "::" + ver_f), "EFFECT", "++" + ver_f, "value version bump")
        _must(chk, f, _notify(SI + "::" + dep_f), "EFFECT", "notify-" + dep_f, "dependents notified")
    f = P.fn(SI + "::noteYChange")
    for nm in "QUZ":
        _must(chk, f, lambda e, nm=nm: is_call(e, SI + "::note%sChange" % nm), "EFFECT", "note%sChange" % nm, "y change implies q,u,z change")
    # ListOfDependents::notePrerequisiteChange: invalidate every dependent
    f = P.fn(LOD + "::notePrerequisiteChange")
    inv = list(f.calls(CEI + "::invalidate"))
    chk.judge(bool(inv) and any(_in_loop(f, b) for b, _, _ in inv), "EFFECT", f.id + ":invalidate-each", f.loc,
              "every dependent cache entry must be invalidated (call inside the loop over m_dependents)")
    # invalidateAll / invalidateAllCacheAtOrAbove
    for name in (SI + "::invalidateAll", SI + "::invalidateAllCacheAtOrAbove"):
        f = P.fn(name)
        g = f.d["params"][0][0]
        _must(chk, f, lambda e: is_call(e, SI + "::invalidateJustSystemStage") and _is_var(call_args(e)[0], g), "EFFECT", "system-stage", "system stage invalidated with the same stage argument")
        sub = [(b, e) for b, _, e in f.calls(PSI + "::invalidateStageJustThisSubsystem")]
        ok = bool(sub) and all(_in_loop(f, b) and _is_var(call_args(e)[0], g) and field_of(call_obj(e)) == SI + "::subsystems" for b, e in sub)
        chk.judge(ok, "EFFECT", f.id + ":each-subsystem", f.loc, "every subsystem's stage invalidated with the same stage argument (call in loop over subsystems)")
    f = P.fn(PSI + "::invalidateStageJustThisSubsystem")
    g = f.d["params"][0][0]
    _must(chk, f, lambda e: is_call(e, PSI + "::restoreToStage") and
          bool(sx_find(e["x"], lambda y: y[0] == "call" and y[1] == "SimTK::Stage::prev" and _is_var(y[2], g))),
          "EFFECT", "restoreToStage(g.prev())", "subsystem backed up to just below the invalidated stage")
    # PerSubsystemInfo::restoreToStage
    f = P.fn(PSI + "::restoreToStage")
    g = f.d["params"][0][0]
    early = guard_blocks(f, lambda c: c[0] == "opc" and c[1] == "<=" and field_of(c[2]) == PSI + "::currentStage" and _is_var(c[3], g), 0)
    chk.judge(len(early) == 1, "EFFECT", f.id + ":early-return-guard", f.loc, "the only early return is under `currentStage <= g`")
    init_ok = lambda e: is_call(e, PSI + "::initialize")
    _must_in_loop(chk, f, _inc(PSI + "::stageVersions"), "EFFECT", "++stageVersions[i]", "stage versions of invalidated stages bumped", early, init_ok)
    _must(chk, f, _assign(PSI + "::currentStage", lambda r: _is_var(r, g)), "EFFECT", "currentStage=g", "current stage lowered to g", early, init_ok)
    _must(chk, f, lambda e: is_call(e, PSI + "::popAllStacksBackToStage") and _is_var(call_args(e)[0], g), "EFFECT", "popAllStacksBackToStage(g)", "later allocations removed", early, init_ok)
    incs = [(b, e) for b, _, e in f.events(_inc(PSI + "::stageVersions"))]
    chk.judge(bool(incs) and all(_in_loop(f, b) for b, e in incs) and all(_index_is_loop_var(f, e) for b, e in incs), "EFFECT", f.id + ":version-loop", f.loc,
              "stage version increment is indexed by the loop variable of a loop")
    # StateImpl::invalidateJustSystemStage
    f = P.fn(SI + "::invalidateJustSystemStage")
    g = f.d["params"][0][0]
    early = guard_blocks(f, lambda c: c[0] == "opc" and c[1] == "<" and field_of(c[2]) == SI + "::currentSystemStage" and _is_var(c[3], g), 0)
    chk.judge(len(early) == 1, "EFFECT", f.id + ":early-return-guard", f.loc, "the only early return is under `currentSystemStage < stg`")
    _must_in_loop(chk, f, _inc(SI + "::systemStageVersions"), "EFFECT", "++systemStageVersions[i]", "system stage versions bumped", early)
    _must(chk, f, _assign(SI + "::currentSystemStage", lambda r: bool(sx_find(r, lambda y: y[0] == "call" and y[1] == "SimTK::Stage::prev" and _is_var(y[2], g)))),
          "EFFECT", "currentSystemStage=stg.prev()", "system stage lowered to just below stg", early)
    incs = [(b, e) for b, _, e in f.events(_inc(SI + "::systemStageVersions"))]
    chk.judge(bool(incs) and all(_in_loop(f, b) and _index_is_loop_var(f, e) for b, e in incs), "EFFECT", f.id + ":version-loop", f.loc,
              "system stage version increment is indexed by the loop variable of a loop")
    # un-modeling must bump q/u/z versions
    unmodel = guard_blocks(f, lambda c: bool(sx_find(c, lambda y: y[0] == "enum" and y[1] == "SimTK::Stage::Model")) and
                           bool(sx_find(c, lambda y: y[0] == "mem" and y[2] == SI + "::currentSystemStage")), 0)
    ok = False
    for ub in unmodel:
        if f.path_exists((ub, -1), lambda e: _assign(SI + "::currentSystemStage")(e), lambda e: is_call(e, SI + "::noteYChange")) is None:
            ok = True
    chk.judge(ok, "EFFECT", f.id + ":unmodel-notes-y", f.loc, "discarding the continuous variables (stage < Model) must note a y change")
    # advance
    f = P.fn(SI + "::advanceSystemToStage")
    g = f.d["params"][0][0]
    _must(chk, f, _assign(SI + "::currentSystemStage", lambda r: _is_var(r, g)), "EFFECT", "currentSystemStage=stg", "system stage advanced to stg on every path")
    f = P.fn(PSI + "::advanceToStage")
    g = f.d["params"][0][0]
    _must(chk, f, _assign(PSI + "::currentStage", lambda r: _is_var(r, g)), "EFFECT", "currentStage=g", "subsystem stage advanced to g")
    # when q/u/z are (re)allocated at Model stage the dependents must be notified
    f = P.fn(SI + "::advanceSystemToStage")
    for dep in ("qDependents", "uDependents", "zDependents"):
        chk.judge(any(True for _ in f.events(_notify(SI + "::" + dep))), "EFFECT", f.id + ":model-notify-" + dep, f.loc,
                  "allocation of the continuous variables notifies " + dep)
    # autoUpdateDiscreteVariables: swap only when up to date, then invalidate
    f = P.fn(SI + "::autoUpdateDiscreteVariables")
    swaps = list(f.calls(CEI + "::swapValue"))
    chk.judge(len(swaps) >= 1, "EFFECT", f.id + ":swaps", f.loc, "auto-update swaps the value of each auto-update variable")
    for b, i, e in swaps:
        site = "%s:%d" % (f.file, e["line"])
        cvar = var_of(call_obj(e))
        gb = guard_blocks(f, lambda c: c[0] == "call" and c[1] == CEI + "::isUpToDate" and var_of(c[2]) == cvar, 0)
        chk.judge(b in gb or any(b in _region(f, g0) for g0 in gb), "EFFECT", f.id + ":swap-only-if-up-to-date", site,
                  "swapValue must be guarded by isUpToDate() of the same cache entry")
        path = f.path_exists((b, i), "exit", lambda ev: is_call(ev, CEI + "::invalidate") and var_of(call_obj(ev)) == cvar)
        # paths that loop back to another swap are fine only if they pass invalidate first
        path2 = f.path_exists((b, i), lambda ev: is_call(ev, CEI + "::swapValue"), lambda ev: is_call(ev, CEI + "::invalidate") and var_of(call_obj(ev)) == cvar)
        chk.judge(path is None and path2 is None, "EFFECT", f.id + ":swap-then-invalidate", site,
                  "after swapping, the update cache entry must be invalidated (it now holds the old value)", path or path2)
        # the swapped variable is the one whose auto-update entry indexes the cache entry
        dvar = var_of(call_args(e)[1]) if len(call_args(e)) > 1 else None
        cd = [d for _, _, d in f.events(lambda d: d["k"] == "decl" and d["var"] == cvar)]
        ok = False
        if cd and dvar:
            idxv = [var_of(y[3]) if y[0] == "opc" else var_of(y[2]) for y in sx_find(cd[0]["init"], lambda y: (y[0] == "opc" and y[1] == "[]") or y[0] == "idx")]
            for iv in idxv:
                ivd = [d for _, _, d in f.events(lambda d: d["k"] == "decl" and d["var"] == iv)]
                if ivd and sx_find(ivd[0]["init"], lambda y: y[0] == "call" and y[1] == DVI + "::getAutoUpdateEntry" and var_of(y[2]) == dvar):
                    ok = True
        chk.judge(ok, "EFFECT", f.id + ":swap-pairs-var-with-its-entry", site,
                  "the cache entry swapped with variable dv is cacheInfo[dv.getAutoUpdateEntry()]")
    f = P.fn(CEI + "::swapValue")
    _must(chk, f, lambda e: is_call(e, DVI + "::swapValue") and field_of(call_args(e)[1]) == CEI + "::m_value", "EFFECT", "swap-m_value", "cache entry swaps its own value pointer with the variable")
    f = P.fn(DVI + "::swapValue")
    _must(chk, f, lambda e: e["k"] == "call" and e.get("fn", "").endswith("::swap") and field_of(call_obj(e)) == DVI + "::m_value", "EFFECT", "m_value.swap", "variable swaps value pointers")
    _must(chk, f, _assign(DVI + "::m_timeLastUpdated", lambda r: _is_var(r, f.d["params"][0][0])), "EFFECT", "m_timeLastUpdated", "time stamp updated on swap")
    _must(chk, f, _inc(DVI + "::m_valueVersion"), "EFFECT", "++m_valueVersion", "a swap changes the variable's value: its value version must change")
    # every swapped variable's dependents are notified before autoUpdateDiscreteVariables returns
    f = P.fn(SI + "::autoUpdateDiscreteVariables")
    nf = P.fn(DVI + "::noteValueSwapped")
    _must(chk, nf, _notify(DVI + "::m_dependents"), "EFFECT", "notify-dependents", "dependents of a swapped variable are invalidated")
    for b, i, e in list(f.calls(CEI + "::swapValue")):
        site = "%s:%d" % (f.file, e["line"])
        dvar = var_of(call_args(e)[1]) if len(call_args(e)) > 1 else None
        # the swapped variable is recorded (push_back(&dv)) on every path, and the recorded list is walked with noteValueSwapped
        rec = lambda q: q["k"] == "call" and q.get("fn", "").endswith("::push_back") and bool(sx_find(q["x"], lambda y: y[0] == "un" and y[1] == "&" and var_of(y[2]) == dvar))
        direct = lambda q: is_call(q, DVI + "::noteValueSwapped") and var_of(call_obj(q)) == dvar
        p1 = f.path_exists((b, i), "exit", lambda q: rec(q) or direct(q))
        chk.judge(p1 is None, "EFFECT", f.id + ":swapped-var-recorded", site, "every swapped variable is recorded for (or directly given) dependents notification", p1)
        walk = [(bb, ee) for bb, _, ee in f.calls(DVI + "::noteValueSwapped")]
        chk.judge(bool(walk) and all(_in_loop(f, bb) or var_of(call_obj(ee)) == dvar for bb, ee in walk), "EFFECT", f.id + ":swapped-vars-notify-dependents", site,
                  "noteValueSwapped() is applied to the swapped variables (loop over the recorded list)")
        # the notification loop comes after the swap loops (swaps are simultaneous)
        for bb, ee in walk:
            chk.judge(not _reaches(f, bb, b), "EFFECT", f.id + ":notify-after-all-swaps", site, "dependents are notified only after all swaps were made")
    # markCacheValueRealized / NotRealized forward to the entry
    for name, callee in ((SI + "::markCacheValueRealized", CEI + "::markAsUpToDate"), (SI + "::markCacheValueNotRealized", CEI + "::invalidate")):
        f = P.fn(name)
        _must(chk, f, lambda e, callee=callee: is_call(e, callee), "EFFECT", callee.split("::")[-1], "forwarded to the cache entry")
    chk.floor("EFFECT", 45)


def _loop_heads(fn):
    """Blocks that are loop condition blocks (terminator for/while/do)."""
    return {b for b, blk in fn.blocks.items() if blk.get("term") and blk["term"]["k"] in ("for", "while", "do", "forrange")}


def _in_loop(fn, b):
    """Is block b inside some natural loop (can reach itself)?"""
    seen = set()
    st = list(fn.succs(b))
    while st:
        x = st.pop()
        if x == b:
            return True
        if x in seen:
            continue
        seen.add(x)
        st.extend(fn.succs(x))
    return False


def _region(fn, g0):
    """Blocks dominated by block g0."""
    dom = fn.dominators()
    return {b for b in dom if g0 in dom[b]}


def _index_is_loop_var(fn, e):
    w = ev_write(e)
    lhs = w[0]
    idx = None
    if lhs[0] == "idx":
        idx = lhs[2]
    elif lhs[0] == "opc" and lhs[1] == "[]":
        idx = lhs[3]
    if idx is None:
        return False
    v = var_of(idx)
    if not v:
        return False
    # v must be written (inc/dec) inside a loop
    for b, i, ev in fn.events(lambda ev: ev["k"] in ("assign",) and var_of(ev["lhs"]) == v and ev["op"] in ("++", "--", "+=", "-=")):
        if _in_loop(fn, b):
            return True
    return False


# ------------------------------------------------------------------ copies

def copies(chk, P):
    chk.rule("COPY", "StateImpl::copyFrom first invalidates the copied stage versions and last re-registers prerequisites; "
             "State copy operations create/assign a distinct StateImpl; move transfers the pointer; dependents lists are not copied")
    f = P.fn(SI + "::copyFrom")
    src = f.d["params"][0][0]
    sub_assign = [(b, i, e) for b, i, e in f.events(lambda e: bool(ev_write(e)) and field_of(ev_write(e)[0]) == SI + "::subsystems")]
    chk.judge(len(sub_assign) >= 1, "COPY", f.id + ":copies-subsystems", f.loc, "subsystems are copied from the source")
    for b, i, e in sub_assign:
        path = f.path_exists(None, lambda ev: ev is e, lambda ev: is_call(ev, SI + "::invalidateCopiedStageVersions") and _is_var(call_args(ev)[0], src))
        chk.judge(path is None, "COPY", f.id + ":invalidate-first", "%s:%d" % (f.file, e["line"]),
                  "invalidateCopiedStageVersions(src) must precede copying on every path", path)
        path = f.path_exists((b, i), "exit", lambda ev: is_call(ev, SI + "::registerWithPrerequisitesAfterCopy"))
        chk.judge(path is None, "COPY", f.id + ":register-last", "%s:%d" % (f.file, e["line"]),
                  "registerWithPrerequisitesAfterCopy() must follow copying on every path", path)
    # back-pointer fix-up
    chk.judge(any(True for _ in f.events(lambda e: bool(ev_write(e)) and field_of(ev_write(e)[0]) == PSI + "::m_stateImpl" and ev_write(e)[2] == ["this"])),
              "COPY", f.id + ":backpointer", f.loc, "each copied subsystem's m_stateImpl is re-pointed to the destination")
    # value versions copied only together with y
    f2 = P.fn(SI + "::invalidateCopiedStageVersions")
    for v in ("qVersion", "uVersion", "zVersion"):
        _must(chk, f2, lambda e, v=v: bool(ev_write(e)) and field_of(ev_write(e)[0]) == SI + "::" + v and ev_write(e)[1] == "=" and
              bool(sx_find(ev_write(e)[2], lambda y: y[0] in ("op", "opc") and y[1] == "+")), "COPY", v + "=src+1", "destination value version set above the source's")
    for dl in ("qDependents", "uDependents", "zDependents"):
        _must(chk, f2, lambda e, dl=dl: is_call(e, LOD + "::clear") and field_of(call_obj(e)) == SI + "::" + dl, "COPY", dl + ".clear", "dependents lists are not copied")
    incs = [(b, e) for b, _, e in f2.events(lambda e: bool(ev_write(e)) and field_of(ev_write(e)[0]) == SI + "::systemStageVersions")]
    chk.judge(bool(incs) and all(_in_loop(f2, b) and bool(sx_find(ev_write(e)[2], lambda y: y[0] in ("op", "opc") and y[1] == "+")) for b, e in incs),
              "COPY", f2.id + ":stage-versions-above-source", f2.loc, "every copied system stage version is set above the source's")
    # PerSubsystemInfo::copyFrom: the destination's stage versions must be (re)assigned for EVERY stage: copied up to the target
    # stage, and raised above the source's for all later stages up to the end of the array -- otherwise a copied cache entry
    # computed at a later stage before the source was backed up reads as valid again in the copy
    pc = P.fn(PSI + "::copyFrom")
    vw = [(b, i, e) for b, i, e in pc.events(lambda e: bool(ev_write(e)) and field_of(ev_write(e)[0]) == PSI + "::stageVersions")]
    loops = pc.loops()
    heads = {}
    for b, i, e in vw:
        for h in pc.loops_of(b)[:1]:
            heads[h] = (b, e)
    chk.shape(len(heads) == 2, "COPY", pc.id + ":two-version-loops", pc.loc, "stage versions are written in two loops (copied part, invalidated part); found %d" % len(heads))
    covers_end = False
    starts_zero = False
    raised = False
    for h, (b, e) in heads.items():
        c = pc.blocks[h]["term"].get("cond")
        if sx_find(c, lambda y: y[0] == "enum" and y[1] == "SimTK::Stage::NValid") and c[0] == "op" and c[1] == "<":
            covers_end = True
            raised = bool(sx_find(ev_write(e)[2], lambda y: y[0] in ("op", "opc") and y[1] == "+")) and field_of(ev_write(e)[2][2] if ev_write(e)[2][0] in ("op", "opc") else None) == PSI + "::stageVersions"
        iv = var_of(c[2]) if isinstance(c, list) and len(c) > 2 else None
        d = [dd for _, _, dd in pc.events(lambda dd: dd["k"] == "decl" and dd["var"] == iv)]
        if any(_is_lit(dd["init"], "0") for dd in d):
            starts_zero = True
    chk.judge(starts_zero, "COPY", pc.id + ":versions-from-stage-0", pc.loc, "the copied part starts at stage 0")
    chk.judge(covers_end, "COPY", pc.id + ":versions-cover-all-stages", pc.loc,
              "the invalidated part must run to Stage::NValid (all stages above the target stage), not only to the source's current stage")
    chk.judge(raised, "COPY", pc.id + ":later-stage-versions-raised-above-source", pc.loc, "stages above the target get src.stageVersions[i] + 1")
    # StateImpl copy ctor / assignment
    cc = [m for m in P.methods_of(SI) if m.kind == "copyctor"]
    chk.require(len(cc) == 1, "StateImpl copy constructor not found")
    _must(chk, cc[0], lambda e: is_call(e, SI + "::copyFrom"), "COPY", "copyFrom", "copy constructor uses copyFrom")
    ca = [m for m in P.methods_of(SI) if m.kind == "copyassign"]
    chk.require(len(ca) == 1, "StateImpl copy assignment not found")
    self_ret = guard_blocks(ca[0], lambda c: bool(sx_find(c, lambda y: y[0] == "this")) and bool(sx_find(c, lambda y: y[0] == "un" and y[1] == "&")), 0)
    _must(chk, ca[0], lambda e: is_call(e, SI + "::copyFrom"), "COPY", "copyFrom", "copy assignment uses copyFrom", self_ret)
    cf = list(ca[0].calls(SI + "::copyFrom"))
    for b, i, e in cf:
        path = ca[0].path_exists(None, lambda ev: ev is e, lambda ev: is_call(ev, SI + "::invalidateJustSystemStage") and "SimTK::Stage::Topology" in sx_enums(ev["x"]))
        chk.judge(path is None, "COPY", ca[0].id + ":invalidate-system-before-copy", ca[0].loc, "destination system stage invalidated to Topology before copyFrom", path)
        path = ca[0].path_exists(None, lambda ev: ev is e, lambda ev: is_call(ev, PSI + "::invalidateStageJustThisSubsystem") and "SimTK::Stage::Topology" in sx_enums(ev["x"]))
        # the loop over subsystems may execute zero times when there are none: require presence in a loop
        has = [(bb, ee) for bb, _, ee in ca[0].calls(PSI + "::invalidateStageJustThisSubsystem") if "SimTK::Stage::Topology" in sx_enums(ee["x"])]
        chk.judge(bool(has) and all(_in_loop(ca[0], bb) for bb, ee in has), "COPY", ca[0].id + ":invalidate-subsystems-before-copy", ca[0].loc,
                  "every destination subsystem invalidated to Topology before copyFrom")
    # State handle
    S = "SimTK::State"
    cc = [m for m in P.methods_of(S) if m.kind == "copyctor"]
    chk.require(len(cc) == 1, "State copy constructor not found")
    m = cc[0]
    ok = any(True for _ in m.events(lambda e: bool(ev_write(e)) and field_of(ev_write(e)[0]) == S + "::impl" and
                                    bool(sx_find(ev_write(e)[2], lambda y: y[0] == "new" and y[1] == SI))))
    chk.judge(ok, "COPY", m.id + ":deep", m.loc, "State copy constructor allocates a new StateImpl (deep copy)")
    ok = not any(True for _ in m.events(lambda e: bool(ev_write(e)) and ev_write(e)[0][0] == "mem" and ev_write(e)[0][2] == S + "::impl" and
                                        isinstance(ev_write(e)[2], list) and ev_write(e)[2][0] == "mem" and ev_write(e)[2][2] == S + "::impl"))
    chk.judge(ok, "COPY", m.id + ":no-alias", m.loc, "State copy constructor never aliases the source's impl pointer")
    ca = [m for m in P.methods_of(S) if m.kind == "copyassign"]
    chk.require(len(ca) == 1, "State copy assignment not found")
    m = ca[0]
    alias = [e for _, _, e in m.events(lambda e: bool(ev_write(e)) and ev_write(e)[0][0] == "mem" and ev_write(e)[0][2] == S + "::impl" and
                                       isinstance(ev_write(e)[2], list) and ev_write(e)[2][0] == "mem" and ev_write(e)[2][2] == S + "::impl")]
    chk.judge(not alias, "COPY", m.id + ":no-alias", m.loc, "State copy assignment never stores the source's impl pointer")
    deep = [e for _, _, e in m.events(lambda e: (is_call(e, SI + "::clone")) or (is_call(e, SI + "::operator=")))]
    chk.judge(len(deep) >= 2, "COPY", m.id + ":deep", m.loc, "State copy assignment clones or deep-assigns the StateImpl on the copying paths")
    mv = [m for m in P.methods_of(S) if m.kind == "movector"]
    chk.require(len(mv) == 1, "State move constructor not found")
    m = mv[0]
    srcp = m.d["params"][0][0]
    _must(chk, m, lambda e: bool(ev_write(e)) and field_of(ev_write(e)[0]) == S + "::impl" and _is_var(lvalue_root(ev_write(e)[0])[1], srcp) and _is_lit(ev_write(e)[2], "null"),
          "COPY", "source-nulled", "moved-from State gives up its impl pointer")
    # the per-variable / per-entry dependents lists are ResetOnCopy members
    for cls in (DVI, CEI):
        cd = P.classes.get(cls)
        chk.require(cd is not None, cls + " class vanished")
        fl = [f for f in cd["fields"] if f["name"] == "m_dependents"]
        chk.require(bool(fl), cls + "::m_dependents vanished")
        for f in fl:
            chk.judge("ResetOnCopy<" in f.get("cty", f["ty"]), "COPY", cls + "::m_dependents:reset-on-copy", "%s:%d" % (cd["file"], f["line"]),
                      "the dependents list is a ResetOnCopy member (never copied with the State)")
    # the q/u/z dependents lists are never assigned from a source state
    for fn in P.methods_of(SI):
        for b, i, e in fn.events(lambda e: bool(ev_write(e)) and field_of(ev_write(e)[0]) in (SI + "::qDependents", SI + "::uDependents", SI + "::zDependents")):
            chk.violation("COPY", fn.id + ":assigns-dependents", "%s:%d" % (fn.file, e["line"]), "q/u/z dependents lists must not be assigned (copied)")
    chk.floor("COPY", 18)


# --------------------------------------------------------------- WHOWRITES

WRITERS = {
    PSI + "::currentStage": {PSI + "::restoreToStage", PSI + "::advanceToStage", PSI + "::copyFrom", PSI + "::initialize",
                             SI + "::updSubsystemStage"},
    PSI + "::stageVersions": {PSI + "::restoreToStage", PSI + "::copyFrom", PSI + "::initialize"},
    SI + "::currentSystemStage": {SI + "::invalidateJustSystemStage", SI + "::advanceSystemToStage", SI + "::updSystemStage"},
    SI + "::systemStageVersions": {SI + "::invalidateJustSystemStage", SI + "::invalidateCopiedStageVersions", SI + "::copyFrom",
                                   SI + "::StateImpl", SI + "::setSystemTopologyStageVersion"},
    SI + "::qVersion": {SI + "::noteQChange", SI + "::invalidateCopiedStageVersions", SI + "::copyFrom"},
    SI + "::uVersion": {SI + "::noteUChange", SI + "::invalidateCopiedStageVersions", SI + "::copyFrom"},
    SI + "::zVersion": {SI + "::noteZChange", SI + "::invalidateCopiedStageVersions", SI + "::copyFrom"},
    DVI + "::m_valueVersion": {DVI + "::updValue", DVI + "::swapValue"},
    CEI + "::m_valueVersion": {CEI + "::invalidate"},
    CEI + "::m_dependsOnVersionWhenLastComputed": {CEI + "::invalidate", CEI + "::markAsUpToDate"},
    CEI + "::m_isUpToDateWithPrerequisites": {CEI + "::invalidate", CEI + "::markAsUpToDate", CEI + "::registerWithPrerequisites"},
    SI + "::t": {SI + "::invalidateJustSystemStage", SI + "::advanceSystemToStage", SI + "::copyFrom", SI + "::updTime"},
    SI + "::y": {SI + "::invalidateJustSystemStage", SI + "::advanceSystemToStage", SI + "::copyFrom", SI + "::updY"},
}
# functions that may be called only by the tabled callers
CALLERS = {
    CEI + "::swapValue": {SI + "::autoUpdateDiscreteVariables"},
    DVI + "::swapValue": {CEI + "::swapValue"},
    SI + "::updSystemStage": set(),
    SI + "::updSubsystemStage": set(),
}


def whowrites(chk, P, writers=WRITERS, callers=CALLERS):
    chk.rule("WHOWRITES", "stage, stage-version and value-version fields are written (assigned, incremented, handed out or bound by "
             "non-const reference) only by the tabled functions; raw stage hand-outs and swapValue have only the tabled callers")
    seen = {f: set() for f in writers}
    for fn in P.all_fns():
        if fn.kind in ("ctor",) and fn.cls in (SI, PSI, DVI, CEI) and fn.name != SI + "::StateImpl":
            pass
        for b, i, e in fn.events(lambda e: e["k"] == "mem" and e["field"] in writers):
            if e["acc"] in ("w", "rw", "handout", "addr", "refbind", "refarg", "mcall"):
                seen[e["field"]].add((fn.name, "%s:%d" % (fn.file, e["line"])))
        if fn.kind in ("ctor", "copyctor", "movector"):
            continue
    for field, allowed in sorted(writers.items()):
        ws = seen[field]
        names = set(n for n, _ in ws)
        for n, site in sorted(ws):
            ctor_of_owner = n.split("::")[-1] == field.split("::")[-2]
            chk.judge(n in allowed or ctor_of_owner, "WHOWRITES", "%s<-%s" % (field.replace("SimTK::", ""), n.replace("SimTK::", "")), site,
                      "write access to %s outside the reviewed writer set %s" % (field, sorted(allowed)))
        owner, short = field.rsplit("::", 1)
        cd = P.classes.get(owner)
        chk.require(cd is not None and any(f["name"] == short for f in cd["fields"]), "WHOWRITES: field %s vanished (renamed?)" % field)
    for callee, allowed in sorted(callers.items()):
        P.fn(callee)  # anchor must exist
        found = set()
        for fn in P.all_fns():
            for b, i, e in fn.calls(callee):
                found.add((fn.name, "%s:%d" % (fn.file, e["line"])))
        if not found:
            chk.ok("WHOWRITES", "callers(%s)=0" % callee.replace("SimTK::", ""), "", "expected-zero rule: no caller")
        for n, site in sorted(found):
            chk.judge(n in allowed, "WHOWRITES", "%s<-called-by-%s" % (callee.replace("SimTK::", ""), n.replace("SimTK::", "")), site,
                      "%s may only be called from %s" % (callee, sorted(allowed) or "nowhere"))
    chk.floor("WHOWRITES", 25)


# ----------------------------------------------------------------- FORWARD

FORWARD_EXEMPT = {
    # State methods that are not one-line forwards, with reason
    "SimTK::State::State": "constructors/assignment handled by COPY",
    "SimTK::State::operator=": "handled by COPY",
    "SimTK::State::~State": "destructor",
    "SimTK::State::clear": "re-creates the StateImpl",
    "SimTK::State::getImpl": "accessor of the pimpl",
    "SimTK::State::updImpl": "accessor of the pimpl",
}


FORWARD_RENAMED = {"getPerSubsystemInfo": "getSubsystem"}  # State name -> StateImpl name (same thing, read)


def forward(chk, P):
    chk.rule("FORWARD", "every State method is a forward to the StateImpl method of the same name; const methods go through getImpl(), "
             "mutating StateImpl methods are reached through updImpl()")
    S = "SimTK::State"
    n = 0
    for m in sorted(P.methods_of(S), key=lambda f: (f.name, f.id)):
        if m.name in FORWARD_EXEMPT or m.kind in ("ctor", "copyctor", "movector", "dtor", "copyassign", "moveassign"):
            continue
        short = m.name.split("::")[-1]
        impl_calls = [(b, i, e) for b, i, e in m.calls() if e.get("fn", "").startswith(SI + "::")]
        inst = m.id
        if not impl_calls:
            # composed from other State methods (e.g. setQ(q) is updQ() = q): correct by construction
            # if every State method it uses is; nothing further to check here
            via_state = [e for _, _, e in m.calls() if e.get("fn", "").startswith(S + "::")]
            chk.judge(bool(via_state), "FORWARD", inst + ":composed", m.loc,
                      "State method reaches StateImpl neither directly nor through other State methods")
            continue
        same = [e for _, _, e in impl_calls if e["fn"].split("::")[-1] == FORWARD_RENAMED.get(short, short)]
        chk.judge(bool(same), "FORWARD", inst + ":same-name", m.loc,
                  "forwards to %s instead of StateImpl::%s" % (sorted(set(e["fn"] for _, _, e in impl_calls)), short))
        for e in same:
            # every normal path passes the forward
            path = m.path_exists(None, "exit", lambda ev: ev is e)
            if len(same) == 1:
                chk.judge(path is None, "FORWARD", inst + ":all-paths", m.loc, "a path returns without forwarding", path)
            obj = call_obj(e)
            via = obj[1].split("::")[-1] if isinstance(obj, list) and obj and obj[0] == "call" else "?"
            target_const = bool(e.get("cconst"))
            if not target_const:
                chk.judge(via == "updImpl", "FORWARD", inst + ":via-updImpl", m.loc, "non-const StateImpl method must be reached through updImpl(), got " + via)
            else:
                chk.judge(via in ("getImpl", "updImpl"), "FORWARD", inst + ":via-getImpl", m.loc, "StateImpl reached through " + via)
            # arguments forwarded in order
            params = [p[0] for p in m.d["params"]]
            args = [var_of(a) for a in call_args(e)]
            pv = [a for a in args if a in params]
            chk.judge(pv == [p for p in params if p in pv], "FORWARD", inst + ":arg-order", m.loc,
                      "parameters forwarded in a different order: %s vs %s" % (params, args))
        n += 1
    chk.floor("FORWARD", 300)


# --------------------------------------------------------------- mutations
_H = "SimTKcommon/Simulation/include/SimTKcommon/internal/StateImpl.h"
_C = "SimTKcommon/Simulation/src/State.cpp"
MUTATIONS = [
    dict(name="auto-update swap without version bump (pre-fix code)", file=_H,
         old="    {   m_value.swap(other); ++m_valueVersion; m_timeLastUpdated=updTime; }", new="    {   m_value.swap(other); m_timeLastUpdated=updTime; }",
         expect="swapValue(SimTK::Real,SimTK::ClonePtr<SimTK::AbstractValue> &):++m_valueVersion"),
    dict(name="auto-update swap without dependents notification (pre-fix code)", file=_C,
         old="    for (DiscreteVarInfo* dinfo : swapped)\n        dinfo->noteValueSwapped(*this);\n", new="", expect="swapped-vars-notify-dependents"),
    dict(name="seeded (sub-agent): invalidate() short-circuits when already out of date", file=_H,
         old="    void invalidate(const StateImpl& stateImpl) {\n        m_dependsOnVersionWhenLastComputed = StageVersion(0);",
         new="    void invalidate(const StateImpl& stateImpl) {\n        if (!m_isUpToDateWithPrerequisites)\n            return;\n        m_dependsOnVersionWhenLastComputed = StageVersion(0);",
         expect="CacheEntryInfo::invalidate(const SimTK::StateImpl &):notify-dependents"),
    dict(name="copy leaves later stage versions untouched (pre-fix code)", arm=True, file=_C,
         old="    for (int i=targetStage+1; i<Stage::NValid; ++i)\n        stageVersions[i] = src.stageVersions[i] + 1;",
         new="    for (int i=targetStage+1; i<=src.currentStage; ++i)\n        stageVersions[i] = src.stageVersions[i] + 1;", expect="versions-cover-all-stages"),
    dict(name="updQ() drops noteQChange", arm=True, file=_H,
         old="        invalidateAll(Stage::Position);\n        noteQChange();\n        return q;",
         new="        invalidateAll(Stage::Position);\n        return q;", expect="updQ()->q+noteQChange"),
    dict(name="updU(subsys) invalidates Dynamics instead of Velocity", file=_H,
         old="        invalidateAll(Stage::Velocity);\n        noteUChange();\n        return updSubsystem(subsys).u;",
         new="        invalidateAll(Stage::Dynamics);\n        noteUChange();\n        return updSubsystem(subsys).u;",
         expect="HANDOUT:SimTK::StateImpl::updU(SimTK::SubsystemIndex)->u"),
    dict(name="updTime() does not invalidate", file=_H,
         old="        invalidateAll(Stage::Time);\n        return t;", new="        return t;", expect="updTime()->t"),
    dict(name="updDiscreteVariable leaves auto-update entry valid", file=_H,
         old="            ce.invalidate(*this);\n        }\n    \n        // We're now marking", new="        }\n    \n        // We're now marking",
         expect="auto-update-entry-invalidated"),
    dict(name="updDiscreteVariable invalidates allocation stage", file=_H,
         old="invalidateAll(dv.getInvalidatedStage());", new="invalidateAll(dv.getAllocationStage());", expect="invalidates-own-stage"),
    dict(name="DiscreteVarInfo::updValue no version bump", arm=True, file=_H,
         old="       ++m_valueVersion;\n       m_timeLastUpdated=updTime; ", new="       m_timeLastUpdated=updTime; ", expect="updValue(const SimTK::StateImpl &,SimTK::Real):++m_valueVersion"),
    dict(name="CacheEntryInfo::invalidate keeps prerequisite flag", file=_H,
         old="        m_isUpToDateWithPrerequisites = false;\n        ++m_valueVersion;", new="        ++m_valueVersion;", expect="upToDate=false"),
    dict(name="CacheEntryInfo::invalidate does not notify dependents", file=_H,
         old="        ++m_valueVersion;\n        m_dependents.notePrerequisiteChange(stateImpl);\n    }\n\n    // Use this to make this entry contain a *copy* of the source value.\n    CacheEntryInfo&",
         new="        ++m_valueVersion;\n    }\n\n    // Use this to make this entry contain a *copy* of the source value.\n    CacheEntryInfo&", expect="CacheEntryInfo::invalidate(const SimTK::StateImpl &):notify-dependents"),
    dict(name="markAsUpToDate records computed-by stage version", file=_H,
         old="inline void CacheEntryInfo::\nmarkAsUpToDate(const StateImpl& stateImpl) {\n    const PerSubsystemInfo& subsys = stateImpl.getSubsystem(m_myKey.first);\n    assert(&subsys.getCacheEntryInfo(m_myKey.second) == this);\n    const StageVersion version = subsys.getStageVersion(m_dependsOnStage);",
         new="inline void CacheEntryInfo::\nmarkAsUpToDate(const StateImpl& stateImpl) {\n    const PerSubsystemInfo& subsys = stateImpl.getSubsystem(m_myKey.first);\n    assert(&subsys.getCacheEntryInfo(m_myKey.second) == this);\n    const StageVersion version = subsys.getStageVersion(m_computedByStage);",
         expect="version-source"),
    dict(name="invalidateJustSystemStage leaves stage at stg", file=_C,
         old="    currentSystemStage = stg.prev();", new="    currentSystemStage = stg;", expect="currentSystemStage=stg.prev()"),
    dict(name="restoreToStage forgets version bump", file=_C,
         old="    for (int i=currentStage; i > g; --i)\n        stageVersions[i]++;\n", new="", expect="++stageVersions[i]"),
    dict(name="copyFrom does not re-register prerequisites", file=_C,
         old="    registerWithPrerequisitesAfterCopy();\n}", new="}", expect="register-last"),
    dict(name="copyFrom skips invalidateCopiedStageVersions", file=_C,
         old="    invalidateCopiedStageVersions(src);\n", new="", expect="invalidate-first"),
    dict(name="auto-update does not invalidate swapped entry", file=_C,
         old="                cinfo.swapValue(getTime(), dinfo);\n                cinfo.invalidate(*this);", new="                cinfo.swapValue(getTime(), dinfo);",
         expect="swap-then-invalidate"),
    dict(name="auto-update swaps stale entries too", file=_C,
         old="            if (cinfo.isUpToDate(*this)) {", new="            {", expect="swap-only-if-up-to-date"),
    dict(name="State copy constructor is shallow", arm=True, file=_C,
         old="    impl = new StateImpl(*state.impl);", new="    impl = state.impl;", expect="State::State(const SimTK::State &)"),
    dict(name="new raw accessor for q", file=_H,
         old="    Vector& updU() {     // Stage::Velocity-1", new="    Vector& updQRaw() {return q;}\n    Vector& updU() {     // Stage::Velocity-1",
         expect="updQRaw"),
    dict(name="const accessor hands out subsystem z", file=_H,
         old="    Vector& updUWeights(SubsystemIndex subsys) {", new="    Vector& peekZ(SubsystemIndex subsys) const {return const_cast<PerSubsystemInfo&>(getSubsystem(subsys)).z;}\n    Vector& updUWeights(SubsystemIndex subsys) {",
         expect="peekZ"),
    dict(name="stray writer of qVersion", file=_H,
         old="        invalidateAll(Stage::Velocity);\n        noteUChange();\n        return u;", new="        invalidateAll(Stage::Velocity);\n        noteUChange(); --qVersion;\n        return u;",
         expect="WHOWRITES:StateImpl::qVersion<-StateImpl::updU"),
    dict(name="State::updU forwards to updQ", file=_H,
         old="inline Vector& State::updU() {\n    return updImpl().updU();", new="inline Vector& State::updU() {\n    return updImpl().updQ();", expect="FORWARD:SimTK::State::updU()"),
    dict(name="noteYChange forgets z", file=_H,
         old="{noteQChange();noteUChange();noteZChange();}", new="{noteQChange();noteUChange();}", expect="noteZChange"),
    dict(name="invalidateAll skips subsystems", file=_H,
         old="        invalidateJustSystemStage(g);\n        for (SubsystemIndex i(0); i<(int)subsystems.size(); ++i)\n            subsystems[i].invalidateStageJustThisSubsystem(g);\n    }\n\n    // Make sure the stage is no higher than g-1 for *any* subsystem and\n    // hence for the system stage also. Same",
         new="        invalidateJustSystemStage(g);\n    }\n\n    // Make sure the stage is no higher than g-1 for *any* subsystem and\n    // hence for the system stage also. Same",
         expect="invalidateAll(SimTK::Stage):each-subsystem"),
    dict(name="swapValue called outside auto-update", file=_H,
         old="        // We're now marking this variable as having been updated at the \n", new="        if (cx.isValid()) updCacheEntryInfo(CacheEntryKey(dk.first,cx)).swapValue(t, dv);\n        // We're now marking this variable as having been updated at the \n",
         expect="swapValue<-called-by"),
    dict(name="un-modeling does not bump q/u/z versions", file=_C,
         old="        noteYChange(); // bump the q,u,z version numbers\n", new="", expect="unmodel-notes-y"),
]
