"""C19 -- Integrators honour the step/report/final-time contract.

Typestate clauses of the step-communication status machine in both stepTo
implementations (DESIGN 3, C19): T1 EndOfSimulation <=> FinalTimeHasBeenReturned,
T2 refusal afterwards, T3 status written with every status-changing return,
T4 tMax bounded by scheduled/final time by data flow, T5 switch exhaustive."""
from ..facts import extract, units_matching, Program, AnalysisBroken, sx_find, sx_enums, sx_str
from ..match import (inline_predicates, ev_write, is_call, call_args, call_obj, field_of, var_of, guard_blocks, lvalue_root, branch_edges)
from .c18 import _is_lit, _is_var

IR = "SimTK::IntegratorRep"
AIR = "SimTK::AbstractIntegratorRep"
CP = "SimTK::CPodesIntegratorRep"
SETST = IR + "::setStepCommunicationStatus"
UNITS = r"SimTKmath/Integrators/src/(AbstractIntegratorRep|CPodesIntegrator|Integrator)\.cpp$"
HDR = r"SimTKmath/Integrators/src/.*\.h$"
FINAL = "FinalTimeHasBeenReturned"

# expected status written together with each returned step status; None = "no change" (state machine stays where it is)
EXPECT = {
    AIR: {"EndOfSimulation": {FINAL}, "ReachedEventTrigger": {"StepHasBeenReturnedWithEvent"},
          "StartOfContinuousInterval": {"StepHasBeenReturnedNoEvent"}, "var": {"StepHasBeenReturnedNoEvent"},
          "ReachedReportTime": {None, "StepHasBeenReturnedNoEvent"}, "ReachedScheduledEvent": {None},
          "InvalidSuccessfulStepStatus": {None, "any"}},
    CP: {"EndOfSimulation": {FINAL}, "ReachedEventTrigger": {"StepHasBeenReturnedWithEvent"},
         "StartOfContinuousInterval": {"StepHasBeenReturnedNoEvent"}, "ReachedStepLimit": {"StepHasBeenReturnedNoEvent"},
         "ReachedReportTime": {"StepHasBeenReturnedNoEvent"}, "ReachedScheduledEvent": {"StepHasBeenReturnedWithEvent"},
         "TimeHasAdvanced": {"StepHasBeenReturnedNoEvent"}, "cond": {"StepHasBeenReturnedNoEvent"}},
}


def step_method(P):
    """AbstractIntegratorRep's internal-step method, identified by what it does (not by its name): the one method of the class that both
    attempts a DAE step and reports triggered events"""
    c = [g for g in P.methods_of(AIR) if any(str(e.get("fn", "")).endswith("::attemptDAEStep") for _, _, e in g.calls()) and
         any(str(e.get("fn", "")).endswith("::setTriggeredEvents") for _, _, e in g.calls())]
    return c[0] if len(c) == 1 else None


def status_of(e):
    if not is_call(e, SETST):
        return None
    en = sx_enums(e["x"])
    return en[0].split("::")[-1] if en else "?"


def ret_label(r):
    v = r["val"]
    if v is None:
        return "void"
    en = [x.split("::")[-1] for x in sx_enums(v)]
    if isinstance(v, list) and v[0] == "enum":
        return en[0]
    if isinstance(v, list) and v[0] == "var":
        return "var"        # a status collected in a local variable (its name is irrelevant)
    if isinstance(v, list) and v[0] == "cond":
        return "cond"
    return en[0] if len(en) == 1 else sx_str(v)


def last_status_sets(fn, start_blocks, stop_blocks):
    """For every return: the set of 'last status written' over all paths from the start blocks (None if a path writes none)."""
    res = {}
    seen = set()
    stack = [(b, 0, None) for b in start_blocks]
    while stack:
        b, i, last = stack.pop()
        if (b, i, last) in seen:
            continue
        seen.add((b, i, last))
        blk = fn.blocks[b]
        dead = False
        for j in range(i, len(blk["ev"])):
            e = blk["ev"][j]
            if e["k"] == "throw" or (e["k"] == "call" and e.get("noreturn")):
                dead = True
                break
            s = status_of(e)
            if s:
                last = s
            if e["k"] == "ret":
                res.setdefault(id(e), (e, set()))[1].add(last)
                dead = True
                break
        if dead or blk.get("noreturn"):
            continue
        for s in fn.succs(b):
            if s in stop_blocks or (b, s) in fn.infeasible_edges():
                continue
            stack.append((s, 0, last))
    return list(res.values())


def run(chk, tier, overlays=()):
    units = units_matching(UNITS)
    P = Program(extract(units, hdr=HDR, overlays=overlays))
    chk.units += units
    chk.nfunctions += len(P.fns)
    chk.rule("TYPESTATE", "in both stepTo implementations: (T1) `return EndOfSimulation` is dominated by setStepCommunicationStatus(FinalTimeHasBeenReturned) and "
             "terminationReason = ReachedFinalTime and guarded by a comparison of the current time with the final time (or CPodes' TstopReturn); every such status write "
             "leads to that return; (T2) with status FinalTimeHasBeenReturned every path throws before any step or return; reinitialize(.., shouldTerminate) enters the same "
             "state; (T3) each returned step status is accompanied by exactly the tabled status write (or tabled 'no change'); (T5) the status switch is exhaustive; "
             "(T7) in AbstractIntegratorRep::stepTo every path to a further takeOneStep -- from entry and from the previous step -- compares getAdvancedTime() with the final "
             "time first (the default label of the exhaustive switch and the collect-a-reason-then-return idiom are accounted for): an advanced state at the final time is returned, never stepped from")
    chk.rule("REACHDEF", "(T4) the limit passed to takeOneStep / cpodes->step has only reaching definitions min(scheduledEventTime, finalTime[, reportTime]) "
             "-- the advanced state can never be asked to pass a scheduled event or the final time")
    for cls in (AIR, CP):
        typestate(chk, P, cls)
    reachdef(chk, P)
    reinit(chk, P)
    window(chk, P)
    chk.floor("TYPESTATE", 30)
    chk.floor("REACHDEF", 6)
    chk.floor("WINDOW", 6)


def typestate(chk, P, cls):
    f = P.fn(cls + "::stepTo")
    short = cls.split("::")[-1]
    # T1
    eos = [(b, i, r) for b, i, r in f.ret_events() if ret_label(r) == "EndOfSimulation"]
    chk.shape(len(eos) >= 1, "TYPESTATE", short + ":T1:has-EndOfSimulation-return", f.loc, "stepTo can return EndOfSimulation")
    for n, (b, i, r) in enumerate(eos):
        site = "%s:%d" % (f.file, r["line"])
        sets = [(bb, ii) for bb, ii, e in f.events(lambda e: status_of(e) == FINAL)]
        chk.judge(any(f.dominates(s, (b, i)) for s in sets), "TYPESTATE", "%s:T1:EndOfSimulation#%d:status" % (short, n), site,
                  "EndOfSimulation must be returned with status FinalTimeHasBeenReturned set on the same path")
        tr = [(bb, ii) for bb, ii, e in f.events(lambda e: bool(ev_write(e)) and (field_of(ev_write(e)[0]) or "").endswith("::terminationReason") and
                                                "SimTK::Integrator::ReachedFinalTime" in sx_enums(ev_write(e)[2]))]
        chk.judge(any(f.dominates(s, (b, i)) for s in tr), "TYPESTATE", "%s:T1:EndOfSimulation#%d:terminationReason" % (short, n), site,
                  "terminationReason = ReachedFinalTime must accompany EndOfSimulation")
        # guard: time >= finalTime, or TstopReturn with the final-time test
        def final_guard(c):
            fin_vars = {d["var"] for _, _, d in f.events(lambda d: d["k"] == "decl" and d.get("init") is not None and
                                                         bool(sx_find(d["init"], lambda y: y[0] == "mem" and y[2].endswith("::userFinalTime"))))}
            has_final = bool(sx_find(c, lambda y: (y[0] == "var" and y[1] in fin_vars) or (y[0] == "mem" and y[2].endswith("::userFinalTime"))))
            # CPodes reports its own stop time (tstop = final time) with TstopReturn
            tstop = bool(sx_find(c, lambda y: y[0] in ("enum", "gvar") and y[1].endswith("CPodes::TstopReturn")))
            return (has_final or tstop) and bool(sx_find(c, lambda y: y[0] == "op" and y[1] in (">=", "==", "<=", ">")))
        region = set()
        for g in guard_blocks(f, final_guard, 0):
            dom = f.dominators()
            region |= {x for x in dom if g in dom[x]}
        chk.judge(b in region, "TYPESTATE", "%s:T1:EndOfSimulation#%d:final-time-guard" % (short, n), site,
                  "EndOfSimulation is returned only under a comparison with the final time")
    # T1b: each FINAL write inside stepTo leads to return EndOfSimulation on all paths
    for bb, ii, e in f.events(lambda e: status_of(e) == FINAL):
        p = f.path_exists((bb, ii), lambda q: q["k"] == "ret" and ret_label(q) != "EndOfSimulation", lambda q: q["k"] == "ret" and ret_label(q) == "EndOfSimulation")
        chk.judge(p is None, "TYPESTATE", "%s:T1b:final-status=>EndOfSimulation" % short, "%s:%d" % (f.file, e["line"]),
                  "after entering FinalTimeHasBeenReturned the call must return EndOfSimulation", p)
    # T2: refusal
    def is_step(q):
        sm = step_method(P)
        return q["k"] == "call" and not q.get("fn", "").startswith("std::") and \
            ((sm is not None and q.get("fid") == sm.id) or q.get("fn", "").split("::")[-1] in ("takeOneStep", "step"))
    refuse_blocks = set()
    for b, blk in f.blocks.items():
        c = blk.get("case")
        if isinstance(c, list) and c[0] == "enum" and c[1].endswith("::" + FINAL):
            refuse_blocks.add(b)
    for g in guard_blocks(f, lambda c: c[0] == "op" and c[1] == "==" and bool(sx_find(c, lambda y: y[0] == "enum" and y[1].endswith("::" + FINAL))) and
                          bool(sx_find(c, lambda y: y[0] == "call" and y[1].endswith("::getStepCommunicationStatus"))), 0):
        refuse_blocks.add(g)
    chk.judge(len(refuse_blocks) == 1, "TYPESTATE", short + ":T2:refusal-branch", f.loc, "one branch handles status FinalTimeHasBeenReturned (found %d)" % len(refuse_blocks))
    for rb in refuse_blocks:
        p1 = f.path_exists((rb, -1), lambda q: q["k"] == "ret", lambda q: False)
        p2 = f.path_exists((rb, -1), is_step, lambda q: False)
        chk.judge(p1 is None and p2 is None, "TYPESTATE", short + ":T2:refusal-always-throws", f.loc,
                  "with status FinalTimeHasBeenReturned every path must throw before any return or integration step", p1 or p2)
    # T2b: the refusal test comes before any step on every path from entry
    steps = [(b, i, e) for b, i, e in f.events(is_step)]
    chk.shape(len(steps) >= 1, "TYPESTATE", short + ":has-step-call", f.loc, "stepTo advances through takeOneStep / cpodes->step")
    for b, i, e in steps:
        def tested(q):
            return q["k"] == "call" and q.get("fn", "").endswith("::getStepCommunicationStatus")
        p = f.path_exists(None, lambda q: q is e, tested)
        chk.judge(p is None, "TYPESTATE", short + ":T2:status-tested-before-step", "%s:%d" % (f.file, e["line"]),
                  "the status machine is consulted before every integration step", p)
    # T7: the advanced state is examined against the final time before every further step
    if cls == AIR:
        fin_vars = {d["var"] for _, _, d in f.events(lambda d: d["k"] == "decl" and d.get("init") is not None and
                                                     bool(sx_find(d["init"], lambda y: y[0] == "mem" and y[2].endswith("::userFinalTime"))))}
        def final_test(c):
            return bool(sx_find(c, lambda y: y[0] == "op" and y[1] in (">=", ">", "<", "<=") and
                                bool(sx_find(y, lambda z: z[0] == "call" and z[1].endswith("::getAdvancedTime"))) and
                                bool(sx_find(y, lambda z: (z[0] == "var" and z[1] in fin_vars) or (z[0] == "mem" and z[2].endswith("::userFinalTime"))))))
        tests = {b for b, blk in f.blocks.items() if blk.get("term") and blk["term"].get("cond") is not None and final_test(blk["term"]["cond"])}
        chk.shape(bool(tests) and bool(fin_vars), "TYPESTATE", short + ":T7:final-time-tests-exist", f.loc, "%d comparisons of getAdvancedTime() with the final time in stepTo" % len(tests))
        # the default label of the status switch is unreachable when the switch covers every enumerator (T5 below judges that)
        dflt = set()
        en7 = P.enums.get(IR + "::StepCommunicationStatus")
        for sb, blk in f.blocks.items():
            t7 = blk.get("term")
            if t7 and t7["k"] == "switch" and en7 is not None and sx_find(t7.get("cond"), lambda y: y[0] == "call" and y[1].endswith("::getStepCommunicationStatus")):
                have7 = {c[1].split("::")[-1] for c in t7["cases"] if isinstance(c, list) and c[0] == "enum"}
                want7 = {n.split("::")[-1] for n, v in en7["enumerators"] if not n.endswith("InvalidStepCommunicationStatus")}
                if have7 >= want7:
                    dflt |= {(sb, s7) for s7 in blk["succ"] if s7 >= 0 and f.blocks[s7].get("case") == "default"}
        # value correlation of the "collect a reason, then return it" idiom: a block that stores a real status in the variable tested by
        # `reason != InvalidSuccessfulStepStatus` can only continue to the return, never to the next step
        reason_vars = set()
        for bb, blk in f.blocks.items():
            t7 = blk.get("term")
            c7 = t7.get("cond") if t7 else None
            if isinstance(c7, list) and c7 and c7[0] == "op" and c7[1] == "!=" and var_of(c7[2]) and any(x.endswith("InvalidSuccessfulStepStatus") for x in sx_enums(c7[3])):
                ts = blk["succ"][0]
                if any(ev["k"] == "ret" and var_of(ev.get("val")) == var_of(c7[2]) for ev in f.blocks[ts]["ev"]):
                    reason_vars.add(var_of(c7[2]))
        bound = {bb for bb, blk in f.blocks.items() for ev in blk["ev"] if ev["k"] == "assign" and var_of(ev["lhs"]) in reason_vars and
                 sx_enums(ev.get("rhs")) and not any(x.endswith("InvalidSuccessfulStepStatus") for x in sx_enums(ev["rhs"]))}
        tests = tests | bound
        # the examination may also sit in a helper that is handed the final time: a call passing the final-time variable to a function that compares
        # getAdvancedTime() with that parameter on every path on which it answers "no reason to return" (InvalidSuccessfulStepStatus)
        def examines(q):
            if q.get("k") != "call" or not q.get("fid"):
                return False
            a = call_args(q)
            pos = [n for n, x in enumerate(a) if var_of(x) in fin_vars]
            if not pos:
                return False
            for g in P.by_id.get(q["fid"], []):
                ps = [p_[0] for p_ in g.d.get("params", [])]
                if not g.blocks or max(pos) >= len(ps):
                    continue
                pv = {ps[n] for n in pos}
                gt = {bb for bb, blk in g.blocks.items() if blk.get("term") and blk["term"].get("cond") is not None and
                      sx_find(blk["term"]["cond"], lambda y: y[0] == "op" and y[1] in (">=", ">", "<", "<=") and
                              bool(sx_find(y, lambda z: z[0] == "call" and z[1].endswith("::getAdvancedTime"))) and bool(sx_find(y, lambda z: z[0] == "var" and z[1] in pv)))}
                none_rets = [r for _, _, r in g.events(lambda r: r["k"] == "ret" and any(x.endswith("InvalidSuccessfulStepStatus") for x in sx_enums(r.get("val"))))]
                if gt and none_rets and all(g.path_exists(None, lambda r, r0=r0: r is r0, lambda r: False, avoid_blocks=gt, lift=0) is None for r0 in none_rets):
                    return True
            return False
        for n, (b, i, e) in enumerate(steps):
            p = f.path_exists(None, lambda q: q is e, examines, avoid_blocks=tests, avoid_edges=dflt, lift=0)
            p2 = f.path_exists((b, i), lambda q: q is e, examines, avoid_blocks=tests, avoid_edges=dflt, lift=0)
            chk.judge(p is None and p2 is None, "TYPESTATE", short + ":T7:final-time-tested-before-every-step#%d" % n, "%s:%d" % (f.file, e["line"]),
                      "a further internal step is taken on a path that never compared the advanced time with the final time: an advanced state that has reached the "
                      "final time (for instance the one behind a returned event window) would be stepped from instead of being returned as EndOfSimulation", p or p2)
    # T3: last status written per return
    sw = [b for b, blk in f.blocks.items() if blk.get("term") and blk["term"]["k"] == "switch" and
          sx_find(blk["term"].get("cond"), lambda y: y[0] == "call" and y[1].endswith("::getStepCommunicationStatus"))]
    starts = sw if sw else [f.entry]
    exp = EXPECT[cls]
    for r, sset in last_status_sets(f, starts, set(starts)):
        lab = ret_label(r)
        site = "%s:%d" % (f.file, r["line"])
        if lab not in exp:
            chk.violation("TYPESTATE", "%s:T3:return-%s:untabled" % (short, lab), site, "stepTo returns a status (%s) that is not in the reviewed table" % lab)
            continue
        allowed = exp[lab]
        ok = ("any" in allowed) or sset <= allowed
        chk.judge(ok, "TYPESTATE", "%s:T3:return-%s@%s" % (short, lab, "+".join(sorted(str(x) for x in sset))), site,
                  "returning %s must go with status %s; paths write %s" % (lab, sorted(str(x) for x in allowed), sorted(str(x) for x in sset)))
    if not sw:
        # entry-started analysis also has to see every return before the loop
        pass
    # T5 exhaustive switch (Abstract only has the switch)
    if sw:
        en = P.enums.get(IR + "::StepCommunicationStatus")
        chk.require(en is not None, "enum StepCommunicationStatus not found")
        t = f.blocks[sw[0]]["term"]
        have = sorted(c[1].split("::")[-1] for c in t["cases"] if isinstance(c, list) and c[0] == "enum")
        want = sorted(n.split("::")[-1] for n, v in en["enumerators"] if not n.endswith("InvalidStepCommunicationStatus"))
        chk.judge(have == want, "TYPESTATE", short + ":T5:switch-exhaustive", f.loc, "switch cases %s vs enumerators %s" % (have, want))


def reachdef(chk, P):
    # Abstract: takeOneStep(tMax, reportTime)
    f = P.fn(AIR + "::stepTo")
    sched = f.d["params"][1][0]
    rep = f.d["params"][0][0]
    sm = step_method(P)
    calls = [(b, i, e) for b, i, e in f.calls() if sm is not None and e.get("fid") == sm.id]
    chk.shape(len(calls) == 1, "REACHDEF", "Abstract:one-takeOneStep", f.loc, "one takeOneStep call site")
    for b, i, e in calls:
        a = call_args(e)
        tv = var_of(a[0])
        site = "%s:%d" % (f.file, e["line"])
        chk.judge(tv is not None, "REACHDEF", "Abstract:tMax-is-variable", site, "limit argument is a local variable")
        defs = [d for _, _, d in f.events(lambda d: d["k"] == "decl" and d["var"] == tv)]
        asg = [w for _, _, w in f.events(lambda w: w["k"] == "assign" and var_of(w["lhs"]) == tv)]
        def is_min_of(x, names):
            c = sx_find(x, lambda y: y[0] == "call" and y[1].endswith("std::min"))
            return bool(c) and sorted(var_of(z) or "?" for z in c[0][3]) == sorted(names)
        fin = [d for _, _, d in f.events(lambda d: d["k"] == "decl" and d.get("init") is not None and bool(sx_find(d["init"], lambda y: y[0] == "mem" and y[2].endswith("::userFinalTime"))))]
        FINV = fin[0]["var"] if fin else "?final"
        fin_ok = bool(fin) and fin[0]["init"][0] == "cond" and bool(sx_find(fin[0]["init"][1], lambda y: y[0] == "mem" and y[2].endswith("::userFinalTime"))) and \
            field_of(fin[0]["init"][3]) is not None and field_of(fin[0]["init"][3]).endswith("::userFinalTime")
        chk.judge(fin_ok, "REACHDEF", "Abstract:finalTime=userFinalTime-or-Infinity", site, "finalTime is userFinalTime unless unset (-1 => Infinity)")
        chk.judge(len(defs) == 1 and is_min_of(defs[0]["init"], [sched, FINV]), "REACHDEF", "Abstract:tMax=min(scheduled,final)", site,
                  "tMax is initialised to min(scheduledEventTime, finalTime)")
        ok = True
        for w in asg:
            rv = var_of(w["rhs"])
            rd = [d for _, _, d in f.events(lambda d: d["k"] == "decl" and d["var"] == rv)]
            ok = ok and w["op"] == "=" and bool(rd) and is_min_of(rd[0]["init"], [rep, tv])
        chk.judge(ok, "REACHDEF", "Abstract:tMax-only-lowered", site, "every later assignment to tMax is min(reportTime, tMax) (can only lower it)")
        chk.judge(var_of(a[1]) == rep, "REACHDEF", "Abstract:tReport-arg", site, "second argument is the report time")
    # CPodes: cpodes->step(tMax,...), stop time
    g = P.fn(CP + "::stepTo")
    sched = g.d["params"][1][0]
    rep = g.d["params"][0][0]
    steps = [(b, i, e) for b, i, e in g.calls() if e.get("fn", "").endswith("CPodes::step")]
    chk.shape(len(steps) == 1, "REACHDEF", "CPodes:one-step-call", g.loc, "one cpodes->step call site")
    for b, i, e in steps:
        a = call_args(e)
        tv = var_of(a[0])
        site = "%s:%d" % (g.file, e["line"])
        defs = [d for _, _, d in g.events(lambda d: d["k"] == "decl" and d["var"] == tv)]
        asg = [w for _, _, w in g.events(lambda w: w["k"] == "assign" and var_of(w["lhs"]) == tv)]
        c = sx_find(defs[0]["init"], lambda y: y[0] == "call" and y[1].endswith("std::min")) if defs else []
        chk.judge(len(defs) == 1 and bool(c) and sorted(var_of(z) or "?" for z in c[0][3]) == sorted([rep, sched]) and not asg, "REACHDEF", "CPodes:tMax=min(report,scheduled)", site,
                  "tout is min(reportTime, scheduledEventTime) and never reassigned")
    # CPodes final time: the stop time is set to userFinalTime in methodInitialize/reinitialize (tstop), checked by presence
    st = [fn.name for fn in P.methods_of(CP) for _, _, e in fn.calls() if e.get("fn", "").endswith("CPodes::setStopTime") and
          sx_find(e["x"], lambda y: y[0] == "mem" and y[2].endswith("::userFinalTime"))]
    chk.judge(bool(st), "REACHDEF", "CPodes:stop-time=userFinalTime", g.loc, "CPodes' tstop is set from userFinalTime (in %s)" % sorted(set(st)))


def window(chk, P):
    chk.rule("WINDOW", "AbstractIntegratorRep::takeOneStep: an event window (tLow,tHigh] is reported (setTriggeredEvents) only on paths that compared the pending report "
             "time with both window ends -- either the early exit guarded by !(tLow < tReport && tReport < tHigh) or the bisection loop, whose split point is tReport "
             "whenever tReport lies strictly inside the current window: a report time can then never be strictly inside a reported window")
    f = step_method(P)
    if not chk.shape(f is not None, "WINDOW", "internal-step-method", "", "the AbstractIntegratorRep method that attempts DAE steps and reports triggered events"):
        return
    trep = f.d["params"][1][0]
    sites = [(b, i, e) for b, i, e in f.calls(IR + "::setTriggeredEvents")]
    chk.shape(len(sites) >= 1, "WINDOW", "report-sites", f.loc, "sites that report an event window (found %d)" % len(sites))
    def mentions(c, lo, hi):
        return bool(sx_find(c, lambda y: y[0] == "var" and y[1] == trep)) and (bool(sx_find(c, lambda y: y[0] == "var" and y[1] == lo)) or bool(sx_find(c, lambda y: y[0] == "var" and y[1] == hi)))
    for n, (b, i, e) in enumerate(sites):
        a = call_args(e)
        lo, hi = var_of(a[0]), var_of(a[1])
        site = "%s:%d" % (f.file, e["line"])
        chk.judge(lo is not None and hi is not None and lo != hi, "WINDOW", "site%d:reports(tLow,tHigh)" % n, site, "window ends passed are two local variables")
        # conditions are read through local predicate lambdas (`auto inside = [&]{ return tLow < tReport && tReport < tHigh; }`)
        conds = {bb: inline_predicates(P, f, blk["term"]["cond"]) for bb, blk in f.blocks.items() if blk.get("term") and blk["term"].get("cond") is not None}
        lo_blocks = {bb for bb, c in conds.items() if
                     sx_find(c, lambda y: y[0] == "op" and y[1] == "<" and var_of(y[2]) == lo and var_of(y[3]) == trep) and f.blocks[bb]["term"]["k"] in ("&&", "||", "if", "cond")}
        hi_blocks = {bb for bb, c in conds.items() if
                     sx_find(c, lambda y: y[0] == "op" and y[1] == "<" and var_of(y[2]) == trep and var_of(y[3]) == hi)}
        p = f.path_exists(None, lambda q: q is e, lambda q: False, avoid_blocks=lo_blocks)
        chk.judge(bool(lo_blocks) and p is None, "WINDOW", "site%d:tLow<tReport-tested-on-every-path" % n, site,
                  "an event window is reported on a path that never compared the report time with the window's low end", p)
        chk.judge(bool(hi_blocks), "WINDOW", "site%d:tReport<tHigh-tested" % n, site, "the report time is also compared with the window's high end")
    # the bisection splits at tReport when it is inside
    mids = [d for _, _, d in f.events(lambda d: d["k"] == "decl" and d["init"] is not None and isinstance(d["init"], list) and d["init"][0] == "cond" and
                                      var_of(d["init"][2]) == trep)]
    chk.judge(len(mids) == 1 and _in_loop_decl(f, mids[0]), "WINDOW", "bisection-splits-at-tReport", f.loc,
              "inside the localisation loop the split point is tReport whenever tLow < tReport && tReport < tHigh")


def _in_loop_decl(f, d):
    for b, i, e in f.events(lambda q: q is d):
        return f.loop_depth(b) > 0
    return False


def reinit(chk, P):
    f = P.fn(IR + "::reinitialize")
    term = f.d["params"][1][0]
    gb = guard_blocks(f, lambda c: c == ["var", term], 0)
    sets = [b for b, _, e in f.events(lambda e: status_of(e) == FINAL)]
    chk.judge(len(sets) == 1 and sets[0] in gb, "TYPESTATE", "reinitialize:T2:terminate=>final-status", f.loc,
              "reinitialize(stage, shouldTerminate=true) puts the integrator into FinalTimeHasBeenReturned (stepping refused)")
    wr = [fn.name for fn in P.all_fns() for _, _, e in fn.events(lambda e: e["k"] == "mem" and e["field"] == IR + "::stepCommunicationStatus" and e["acc"] in ("w", "rw"))]
    chk.judge(set(wr) <= {IR + "::setStepCommunicationStatus", IR + "::initialize", IR + "::IntegratorRep", IR + "::invalidateIntegratorInternalState", IR + "::reinitialize"}, "TYPESTATE",
              "status-writers", f.loc, "stepCommunicationStatus is written only through its setter/initialisation (%s)" % sorted(set(wr)))


_A = "SimTKmath/Integrators/src/AbstractIntegratorRep.cpp"
_C = "SimTKmath/Integrators/src/CPodesIntegrator.cpp"
_I = "SimTKmath/Integrators/src/Integrator.cpp"
MUTATIONS = [
    dict(name="seeded (sub-agent): narrow step reported as event window without looking at the report time", file=_A,
         old="    if (    (tHigh-tLow) <= narrowestWindow \n        && !(tLow < tReport && tReport < tHigh)) \n    {", new="    if ((tHigh-tLow) <= narrowestWindow) {",
         expect="WINDOW:site0"),
    dict(name="seeded (sub-agent): the returned-event case no longer falls through to the examination of the advanced state", file=_A,
         old="              setUseInterpolatedState(false);\n              // Fall through to the next case.\n", new="              setUseInterpolatedState(false);\n              break;\n", expect="T7:final-time-tested-before-every-step"),
    dict(name="EndOfSimulation returned without latching the final status", arm=True, file=_A,
         old="                  setUseInterpolatedState(false);\n                  setStepCommunicationStatus(FinalTimeHasBeenReturned);\n                  terminationReason",
         new="                  setUseInterpolatedState(false);\n                  terminationReason", expect="T1:EndOfSimulation#0:status"),
    dict(name="stepping after final time silently continues", file=_A,
         old="              SimTK_ERRCHK2_ALWAYS(!\"EndOfSimulation already returned\",\n                  \"Integrator::stepTo()\",",
         new="              SimTK_ERRCHK2_ALWAYS(reportTime >= 0,\n                  \"Integrator::stepTo()\",", expect="T2:refusal-always-throws"),
    dict(name="event return forgets to mark the step as returned", file=_A,
         old="              setUseInterpolatedState(true);\n              setStepCommunicationStatus(StepHasBeenReturnedWithEvent);\n              return Integrator::ReachedEventTrigger;",
         new="              setUseInterpolatedState(true);\n              return Integrator::ReachedEventTrigger;", expect="T3:return-ReachedEventTrigger"),
    dict(name="tMax ignores the final time", arm=True, file=_A,
         old="      Real tMax = std::min(scheduledEventTime, finalTime);", new="      Real tMax = std::min(scheduledEventTime, reportTime);", expect="REACHDEF:Abstract:tMax=min(scheduled,final)"),
    dict(name="no-interpolation mode raises tMax to the report time", file=_A,
         old="      if (userAllowInterpolation == 0)\n          tMax = tReturn;", new="      if (userAllowInterpolation == 0)\n          tMax = reportTime;", expect="REACHDEF:Abstract:tMax-only-lowered"),
    dict(name="CPodes StartOfContinuousInterval without status (pre-fix code)", arm=True, file=_C,
         old="        setStepCommunicationStatus(StepHasBeenReturnedNoEvent);\n        return Integrator::StartOfContinuousInterval;", new="        return Integrator::StartOfContinuousInterval;",
         expect="CPodesIntegratorRep:T3:return-StartOfContinuousInterval"),
    dict(name="CPodes final-time return with NoEvent status", file=_C,
         old="                setStepCommunicationStatus(IntegratorRep::FinalTimeHasBeenReturned);\n                terminationReason = Integrator::ReachedFinalTime;\n                return Integrator::EndOfSimulation;",
         new="                setStepCommunicationStatus(IntegratorRep::StepHasBeenReturnedNoEvent);\n                terminationReason = Integrator::ReachedFinalTime;\n                return Integrator::EndOfSimulation;",
         expect="CPodesIntegratorRep:T1:EndOfSimulation"),
    dict(name="terminating handler does not stop the integrator", file=_I,
         old="    if (shouldTerminate) {\n        setStepCommunicationStatus(FinalTimeHasBeenReturned);", new="    if (shouldTerminate) {", expect="reinitialize:T2"),
]
