"""C21 -- Integrators keep constrained states on the manifold.

ORDER automaton over every DAE step / interpolated-state / back-up body:
prescribeQ < realize(Position) < projectQ < prescribeU < realize(Velocity) <
projectU on every path to an accepting return; writes to the state reset the
automaton.  Helper summaries are verified with the same automaton."""
from ..facts import extract, units_matching, Program, AnalysisBroken, sx_find, sx_enums, sx_str
from ..match import (known_edges, only_via, ev_write, is_call, call_args, call_obj, field_of, var_of, guard_blocks, lvalue_root, branch_edges)
from .c18 import _is_lit

IR = "SimTK::IntegratorRep"
AIR = "SimTK::AbstractIntegratorRep"
UNITS = r"SimTKmath/Integrators/src/[A-Za-z0-9]+\.cpp$"
HDR = r"SimTKmath/Integrators/src/.*\.h$"
PIPE = ["prescribeQ", "realizePosition", "projectQ", "prescribeU", "realizeVelocity", "projectU"]
NOPROJ = ["prescribeQ", "realizePosition", "prescribeU", "realizeVelocity"]
WRITE_QY = ("updY", "updQ", "setY", "setQ")
WRITE_T = ("updTime", "setTime")
# functions in which a bare time write re-assigns the time the state already has (value reasoning, tabled)
TIME_WRITE_SAME_VALUE = {"SimTK::CPodesIntegratorRep::stepTo": "on these branches tret is the time last returned / the current time (tMax == getState().getTime())"}
WRITE_U = ("updU", "setU")
# known finding key (DESIGN section 5, F6)
KF = "ORDER:SimTK::AbstractIntegratorRep::attemptDAEStep:return-before-projection"


class Pipe:
    """Classifies events of one function with respect to one State object."""

    def __init__(self, P, fn, statevars, summaries):
        self.P, self.fn, self.sv, self.summ = P, fn, set(statevars), summaries

    def is_state(self, x):
        if x is None:
            return False
        v = var_of(x)
        if v in self.sv:
            return True
        if isinstance(x, list) and x and x[0] == "call" and x[1].split("::")[-1] in self.sv:
            return True
        f = field_of(x)
        return f is not None and f.split("::")[-1] in self.sv

    def classify(self, e):
        """-> list of pipeline tokens / ('write', 'qy'|'u') / ('summary', k)"""
        if e["k"] != "call":
            return None
        n = e.get("fn", "")
        short = n.split("::")[-1]
        a = call_args(e)
        if short in ("prescribeQ", "prescribeU") and n.startswith("SimTK::System::") and a and self.is_state(a[0]):
            return short
        if short == "realize" and n.startswith("SimTK::System::") and a and self.is_state(a[0]):
            en = [x.split("::")[-1] for x in sx_enums(a[1])] if len(a) > 1 else []
            if en == ["Position"]:
                return "realizePosition"
            if en == ["Velocity"]:
                return "realizeVelocity"
            if en and en[0] in ("Dynamics", "Acceleration", "Report"):
                return "realizeVelocity+"
            return None
        if short in ("projectQ", "projectU") and n.startswith("SimTK::System::") and a and self.is_state(a[0]):
            return short
        if short == "localProjectQAndQErrEstNoThrow" and a and self.is_state(a[0]):
            return "projectQ"
        if short == "localProjectUAndUErrEstNoThrow" and a and self.is_state(a[0]):
            return "projectU"
        if short == "realizeStateDerivatives" and a and self.is_state(a[0]):
            return "realizeVelocity+"
        if n.startswith("SimTK::State::") and short in WRITE_QY and self.is_state(call_obj(e)):
            return ("write", "qy")
        if n.startswith("SimTK::State::") and short in WRITE_U and self.is_state(call_obj(e)):
            return ("write", "u")
        if n.startswith("SimTK::State::") and short in WRITE_T and self.is_state(call_obj(e)):
            return None if self.fn.name in TIME_WRITE_SAME_VALUE else ("write", "qy")
        if n == "SimTK::State::operator=" and e.get("op") == "=" and self.is_state(e["x"][2]):
            return ("write", "qy")
        if short in self.summ:
            s = self.summ[short]
            if s.get("arg") is None or (a and self.is_state(a[s["arg"]])):
                return ("summary", s["k"])
        return None


def step(k, tok, seq):
    if tok is None:
        return k
    if isinstance(tok, tuple):
        if tok[0] == "write":
            if tok[1] == "qy":
                return 0
            # u changed: position part stays valid, velocity part must be redone
            lim = seq.index("prescribeU") if "prescribeU" in seq else 0
            return min(k, lim)
        if tok[0] == "summary":
            return tok[1] if seq is PIPE else min(tok[1], len(seq))
    if tok == "realizeVelocity+":
        tok = "realizeVelocity"
    if k < len(seq) and seq[k] == tok:
        return k + 1
    return k


def run_automaton(fn, pipe, seq, k0, accept_ret):
    """Explore (block, idx, k).  Returns list of (ret event, k, path) for every accepting return
    reachable with k < len(seq)."""
    bad = []
    seen = set()
    stack = [(fn.entry, 0, k0, (fn.entry,))]
    while stack:
        b, i, k, path = stack.pop()
        if (b, i, k) in seen:
            continue
        seen.add((b, i, k))
        blk = fn.blocks[b]
        dead = False
        for j in range(i, len(blk["ev"])):
            e = blk["ev"][j]
            if e["k"] == "throw" or (e["k"] == "call" and e.get("noreturn")):
                dead = True
                break
            k = step(k, pipe.classify(e), seq)
            if e["k"] == "ret":
                if accept_ret(b, e) and k < len(seq):
                    bad.append((e, k, list(path)))
                dead = True
                break
        if dead or blk.get("noreturn"):
            continue
        if b == fn.exit:
            continue
        succ = fn.succs(b)
        if not succ and b != fn.exit:
            continue
        for s in succ:
            if (b, s) in fn.infeasible_edges():
                continue
            if s == fn.exit and not any(ev["k"] == "ret" for ev in blk["ev"]):
                # falling off the end of a void function: treat as accepting return
                if accept_ret(b, None) and k < len(seq):
                    bad.append((None, k, list(path)))
                continue
            stack.append((s, 0, k, path + (s,)))
    return bad


def statevars_of(fn, names=("updAdvancedState", "getAdvancedState", "updInterpolatedState")):
    vs = set()
    for _, _, d in fn.events(lambda d: d["k"] == "decl" and d["init"] is not None):
        c = sx_find(d["init"], lambda y: y[0] == "call" and y[1].split("::")[-1] in names)
        if c and d["ty"].rstrip().endswith("&"):
            vs.add(d["var"])
    return vs


def run(chk, tier, overlays=()):
    units = units_matching(UNITS)
    P = Program(extract(units, hdr=HDR, overlays=overlays))
    chk.units += units
    chk.nfunctions += len(P.fns)
    chk.rule("ORDER", "pipeline automaton prescribeQ < realize(Position) < projectQ < prescribeU < realize(Velocity) < projectU per State object: "
             "every accepting return of every attemptDAEStep / createInterpolatedState / backUpAdvancedStateByInterpolation / project callback is "
             "reached only with the whole pipeline completed since the last write to q/y/t (u writes require the velocity half again); "
             "interpolated states may skip projections only under userProjectInterpolatedStates == 0")
    chk.rule("HELPER", "the projection helpers set the required accuracy to getConstraintToleranceInUse() before projecting, return false on a "
             "non-Succeeded exit status, and realizeAndProjectKinematicsWithThrow performs the full pipeline (verified by the same automaton)")
    summaries = helpers(chk, P)
    dae_steps(chk, P, summaries)
    ode_steps(chk, P, summaries)
    interpolation(chk, P, summaries)
    cpodes(chk, P, summaries)
    initialize(chk, P, summaries)
    all_writers(chk, P, summaries)
    chk.floor("ORDER", 20)
    chk.floor("HELPER", 8)


def helpers(chk, P):
    summ = {}
    # realizeAndProjectKinematicsWithThrow(State& s, ...): full pipeline on s
    f = P.fn(IR + "::realizeAndProjectKinematicsWithThrow")
    s = f.d["params"][0][0]
    pipe = Pipe(P, f, [s], {})
    bad = run_automaton(f, pipe, PIPE, 0, lambda b, e: True)
    chk.judge(not bad, "HELPER", "realizeAndProjectKinematicsWithThrow:full-pipeline", f.loc,
              "helper completes only %s of the pipeline on some path" % ([PIPE[:b[1]] for b in bad][:1]), bad[0][2] if bad else None)
    if not bad:
        summ["realizeAndProjectKinematicsWithThrow"] = dict(k=6, arg=0)
    for name, upto in (("setAdvancedStateAndRealizeKinematics", 2), ("setAdvancedStateAndRealizeDerivatives", 2)):
        f = P.fn(IR + "::" + name)
        pipe = Pipe(P, f, statevars_of(f) | {"advancedState"}, {"setAdvancedState": dict(k=0, arg=None)})
        bad = run_automaton(f, pipe, PIPE[:upto], 0, lambda b, e: True)
        chk.judge(not bad, "HELPER", name + ":prescribeQ<realizePosition", f.loc, "sets the advanced state and then prescribes q and realizes Position on every path",
                  bad[0][2] if bad else None)
        # it must write the state first (so that the summary 'k=2 after a fresh write' is right)
        chk.judge(any(True for _ in f.calls(IR + "::setAdvancedState")), "HELPER", name + ":writes-state", f.loc, "state is set through setAdvancedState")
        if not bad:
            summ[name] = dict(k=upto, arg=None)
    # accuracy and failure handling in the three projecting helpers
    for name, proj in (("localProjectQAndQErrEstNoThrow", "projectQ"), ("localProjectUAndUErrEstNoThrow", "projectU"),
                       ("realizeAndProjectKinematicsWithThrow", None)):
        f = P.fn(IR + "::" + name)
        projs = [(b, i, e) for b, i, e in f.calls() if e.get("fn", "") in ("SimTK::System::projectQ", "SimTK::System::projectU")]
        chk.judge(len(projs) >= (2 if proj else 2), "HELPER", name + ":projects", f.loc, "calls System::project*")
        for b, i, e in projs:
            site = "%s:%d" % (f.file, e["line"])
            a = call_args(e)
            ov = var_of(a[2]) if len(a) > 2 else None
            def acc_ok(q, ov=ov):
                if not is_call(q, "SimTK::ProjectOptions::setRequiredAccuracy") or var_of(call_obj(q)) != ov:
                    return False
                return bool(sx_find(q["x"], lambda y: y[0] == "call" and y[1].endswith("::getConstraintToleranceInUse")))
            p = f.path_exists(None, lambda q: q is e, acc_ok)
            chk.judge(p is None, "HELPER", "%s:%s:accuracy=constraintToleranceInUse" % (name, e["fn"].split("::")[-1]), site,
                      "projection options must carry getConstraintToleranceInUse() as required accuracy", p)
            if proj:
                chk.judge(e["fn"].endswith("::" + proj), "HELPER", "%s:%s:right-level" % (name, e["fn"].split("::")[-1]), site, "helper projects the level its name says")
                chk.judge(var_of(a[0]) == f.d["params"][0][0], "HELPER", "%s:%s:state-arg" % (name, e["fn"].split("::")[-1]), site, "projects the State it was given")
        if proj:
            # failure => false
            rets = f.ret_events()
            tr = [(b, i, r) for b, i, r in rets if _is_lit(r["val"], "true")]
            fl = [(b, i, r) for b, i, r in rets if _is_lit(r["val"], "false")]
            chk.judge(len(tr) == 1 and len(fl) >= 1, "HELPER", name + ":returns", f.loc, "one `return true` and a `return false`")
            gb = branch_edges(f, lambda c: c[0] == "op" and c[1] == "!=" and bool(sx_find(c, lambda y: y[0] == "call" and y[1].endswith("::getExitStatus"))) and
                              bool(sx_find(c, lambda y: y[0] == "enum" and y[1].endswith("ProjectResults::Succeeded"))), 0)
            ok = bool(gb) and all(any(ev["k"] == "ret" and _is_lit(ev["val"], "false") for ev in f.blocks[t]["ev"]) for _, t in gb)
            chk.judge(ok, "HELPER", name + ":failure-returns-false", f.loc, "exit status != Succeeded returns false")
            for b, i, r in tr:
                p = f.path_exists(None, lambda q: q is r, lambda q: q["k"] == "call" and q.get("fn", "").endswith("::getExitStatus"))
                chk.judge(p is None, "HELPER", name + ":success-only-after-status-check", f.loc, "`return true` only after the exit status was examined", p)
            # options: LocalOnly + DontThrow
            for opt in ("LocalOnly", "DontThrow"):
                chk.judge(any("SimTK::ProjectOptions::" + opt in sx_enums(e["x"]) for _, _, e in f.calls("SimTK::ProjectOptions::setOption")), "HELPER",
                          "%s:option-%s" % (name, opt), f.loc, "option %s set" % opt)
    summ["localProjectQAndQErrEstNoThrow"] = None
    summ.pop("localProjectQAndQErrEstNoThrow")
    return summ


def dae_steps(chk, P, summ):
    fns = [f for f in P.all_fns() if f.name.endswith("::attemptDAEStep")]
    chk.shape(len(fns) >= 5, "ORDER", "attemptDAEStep-bodies=5", "", "default + ExplicitEuler + SemiExplicitEuler + SemiExplicitEuler2 + Verlet (found %d)" % len(fns))
    for f in sorted(fns, key=lambda f: f.id):
        sv = statevars_of(f)
        chk.require(bool(sv), "no advanced-state variable found in " + f.id)
        s2 = dict(summ)
        k0 = 0
        if f.name == AIR + "::attemptDAEStep":
            # the ODE step ends with setAdvancedStateAndRealizeKinematics/Derivatives (checked by ode_steps): q prescribed, Position realized
            s2["attemptODEStep"] = dict(k=2, arg=None)
        pipe = Pipe(P, f, sv, s2)
        bad = run_automaton(f, pipe, PIPE, k0, lambda b, e: e is None or not _is_lit(e["val"], "false"))
        seen = set()
        if not bad:
            chk.ok("ORDER", f.name + ":accepting-returns", f.loc, "every accepting return completes the pipeline")
        for e, k, path in bad:
            line = e["line"] if e else f.d["endline"]
            key = "%s:return-before-%s" % (f.name, "projection" if k <= 2 else PIPE[k])
            if key in seen:
                continue
            seen.add(key)
            chk.violation("ORDER", key, "%s:%d" % (f.file, line),
                          "accepting return reached with only %s done: the returned state was not projected onto the constraint manifold" % (PIPE[:k] or "nothing"), path)
        # the tolerance: projection calls pass the advanced state
        for b, i, e in f.calls():
            if e.get("fn", "").split("::")[-1] in ("localProjectQAndQErrEstNoThrow", "localProjectUAndUErrEstNoThrow"):
                chk.judge(pipe.is_state(call_args(e)[0]), "ORDER", "%s:%s:on-advanced" % (f.name, e["fn"].split("::")[-1]), "%s:%d" % (f.file, e["line"]),
                          "projection is applied to the advanced state")
                # a failed projection returns false: the call is the (negated) condition of a branch whose true side returns false
                ed = branch_edges(f, lambda c, e=e: c[0] == "un" and c[1] == "!" and c[2] == e["x"], 0)
                ok = bool(ed) and all(any(ev["k"] == "ret" and _is_lit(ev["val"], "false") for ev in f.blocks[t]["ev"]) for _, t in ed)
                chk.judge(ok, "ORDER", "%s:%s:failure=>false" % (f.name, e["fn"].split("::")[-1]), "%s:%d" % (f.file, e["line"]), "a failed projection rejects the step")


def ode_steps(chk, P, summ):
    fns = [f for f in P.all_fns() if f.name.endswith("::attemptODEStep")]
    chk.shape(len(fns) >= 4, "ORDER", "attemptODEStep-bodies>=4", "", "RK2, RK3, RKF, RKM (found %d)" % len(fns))
    for f in sorted(fns, key=lambda f: f.id):
        # raw writes of the advanced state are not allowed: only through the setAdvancedStateAndRealize* helpers
        sv = statevars_of(f) | {"advancedState"}
        pipe = Pipe(P, f, sv, {})
        raw = [(b, i, e) for b, i, e in f.calls() if isinstance(pipe.classify(e), tuple) and pipe.classify(e)[0] == "write"]
        chk.judge(not raw, "ORDER", f.name + ":no-raw-state-writes", f.loc, "the advanced state is only set through setAdvancedStateAndRealize{Kinematics,Derivatives}")
        sets = [(b, i, e) for b, i, e in f.calls() if e.get("fn", "").split("::")[-1] in ("setAdvancedStateAndRealizeKinematics", "setAdvancedStateAndRealizeDerivatives")]
        rets = [(b, i, r) for b, i, r in f.ret_events() if not _is_lit(r["val"], "false")]
        if not rets:
            chk.ok("ORDER", f.name + ":never-accepts", f.loc, "body has no accepting return (unimplemented default)")
            continue
        ok = bool(sets) and bool(rets)
        path = None
        for b, i, r in rets:
            path = f.path_exists(None, lambda q: q is r, lambda q: q["k"] == "call" and q.get("fn", "").split("::")[-1] in
                                 ("setAdvancedStateAndRealizeKinematics", "setAdvancedStateAndRealizeDerivatives"))
            ok = ok and path is None
        chk.judge(ok, "ORDER", f.name + ":final-state-prescribed", f.loc, "every accepting return is preceded by a setAdvancedStateAndRealize* call", path)
        # the last one on each path is at time t1 (the step end): its first argument is the t1 parameter
        t1 = f.d["params"][0][0]
        last_ok = True
        for b, i, r in rets:
            # walk back: there must be no path from a set(.. not t1 ..) to the return avoiding a set(t1, ..)
            for sb, si, se in sets:
                if var_of(call_args(se)[0]) == t1:
                    continue
                p = f.path_exists((sb, si), lambda q: q is r, lambda q: q["k"] == "call" and q.get("fn", "").split("::")[-1].startswith("setAdvancedStateAndRealize") and
                                  var_of(call_args(q)[0]) == t1)
                if p is not None:
                    last_ok = False
                    path = p
        chk.judge(last_ok, "ORDER", f.name + ":final-state-at-t1", f.loc, "the last state set before an accepting return is at the step end time t1", path)


def interpolation(chk, P, summ):
    for short, floor in (("createInterpolatedState", 5), ("backUpAdvancedStateByInterpolation", 4)):
        fns = [f for f in P.all_fns() if f.name.endswith("::" + short) and f.cls != IR]
        chk.shape(len(fns) >= floor, "ORDER", "%s-bodies>=%d" % (short, floor), "", "found %d" % len(fns))
        for f in sorted(fns, key=lambda f: f.id):
            sv = statevars_of(f)
            if short == "createInterpolatedState":
                sv = {v for v in sv if any(True for _, _, d in f.events(lambda d: d["k"] == "decl" and d["var"] == v and
                                                                       sx_find(d["init"], lambda y: y[0] == "call" and y[1].endswith("::updInterpolatedState"))))}
            else:
                sv = {v for v in sv if any(True for _, _, d in f.events(lambda d: d["k"] == "decl" and d["var"] == v and
                                                                       sx_find(d["init"], lambda y: y[0] == "call" and y[1].endswith("::updAdvancedState"))))}
            chk.require(bool(sv), "no target state variable in " + f.id)
            pipe = Pipe(P, f, sv, summ)
            # `interp = advanced` also writes the state: treat assignment to the state var as a write
            noproj_region = set()
            if short == "createInterpolatedState":
                isf = lambda x: (field_of(x) or "").endswith("::userProjectInterpolatedStates")
                ke = known_edges(f, lambda c: isinstance(c, list) and ((c[0] == "op" and c[1] == "==" and isf(c[2]) and _is_lit(c[3], "0")) or (c[0] == "un" and c[1] == "!" and isf(c[2]))),
                                 lambda c: isinstance(c, list) and ((c[0] == "op" and c[1] == "!=" and isf(c[2]) and _is_lit(c[3], "0")) or isf(c)))
                noproj_region = {b for b in f.blocks if only_via(f, b, ke)}     # `if (x == 0) A` and `if (x != 0) B else A` alike
            bad_full = run_automaton(f, pipe, PIPE, 0, lambda b, e: b not in noproj_region)
            bad_np = run_automaton(f, pipe, NOPROJ, 0, lambda b, e: b in noproj_region)
            chk.judge(not bad_full, "ORDER", f.name + ":projected-paths", f.loc,
                      "a state produced by interpolation is handed back without the full prescribe/realize/project pipeline (reached %s)" %
                      ([PIPE[:x[1]] for x in bad_full][:1]), bad_full[0][2] if bad_full else None)
            if short == "createInterpolatedState":
                chk.judge(bool(noproj_region), "ORDER", f.name + ":noproj-guard", f.loc, "projection may be skipped only under userProjectInterpolatedStates == 0")
                chk.judge(not bad_np, "ORDER", f.name + ":unprojected-path-still-prescribes", f.loc,
                          "even without projection the interpolated state is prescribed and realized through Velocity", bad_np[0][2] if bad_np else None)


WRITER_EXEMPT = {
    "setAdvancedState": "primitive setter; its callers are checked",
    "setAdvancedStateAndRealizeKinematics": "helper verified in HELPER (prescribes q, realizes Position; projection is its caller's job)",
    "setAdvancedStateAndRealizeDerivatives": "helper verified in HELPER",
    "attemptODEStep": "intermediate ODE stages; the final state is checked by final-state-prescribed and the enclosing attemptDAEStep",
    "attemptDAEStep": "checked above with accepting-return semantics",
    "createInterpolatedState": "checked above", "backUpAdvancedStateByInterpolation": "checked above",
}


# functions whose advanced-state writes need only part of the pipeline, with the reason
WRITER_LEVEL = {
    "SimTK::CPodesIntegratorRep::stepTo": (2, "the y written here comes out of cpodes->step(), already projected by the registered projection callback "
                                              "(checked by the CPodes ORDER rule); it must still be prescribed and realized (setAdvancedStateAndRealizeKinematics)"),
}


def all_writers(chk, P, summ):
    """Any other integrator method that overwrites the advanced state (directly or by State assignment) must complete the pipeline
    before every normal return: the advanced state is what is propagated through the rest of the trajectory."""
    n = 0
    for f in sorted(P.all_fns(), key=lambda f: f.id):
        if not (f.cls and f.cls.endswith("IntegratorRep")):
            continue
        short = f.name.split("::")[-1]
        if short in WRITER_EXEMPT:
            continue
        sv = {v for v in statevars_of(f, names=("updAdvancedState",))} | {"updAdvancedState", "advancedState"}
        pipe = Pipe(P, f, sv, summ)
        writes = [(b, i, e) for b, i, e in f.calls() if isinstance(pipe.classify(e), tuple) and pipe.classify(e)[0] == "write"]
        writes += [(b, i, e) for b, i, e in f.calls() if e.get("fn", "").split("::")[-1] in ("setAdvancedState",)]
        if not writes:
            continue
        n += 1
        s2 = dict(summ)
        s2["setAdvancedState"] = dict(k=0, arg=None)
        pipe = Pipe(P, f, sv, s2)
        # start "complete": the state the function received is on the manifold; only its own writes create obligations
        need, why = WRITER_LEVEL.get(f.name, (len(PIPE), ""))
        bad = run_automaton(f, pipe, PIPE[:need], need, lambda b, e: True)
        chk.judge(not bad, "ORDER", f.name + ":advanced-state-writes-projected", f.loc,
                  "%s overwrites the advanced state and can return without the prescribe/realize/project pipeline (reached only %s)" %
                  (short, [PIPE[:x[1]] for x in bad][:1]), bad[0][2] if bad else None)
    chk.shape(n >= 1, "ORDER", "advanced-state-writers-found", "", "other writers of the advanced state examined: %d" % n)


def cpodes(chk, P, summ):
    cands = [f for f in P.all_fns() if f.name.endswith("CPodesSystemImpl::project")]
    chk.shape(len(cands) == 1, "ORDER", "CPodes:project-callback", "", "CPodes projection callback found")
    for f in cands:
        sv = statevars_of(f)
        pipe = Pipe(P, f, sv, summ)
        # accepting = returns that are not the RecoverableError value
        def acc(b, e):
            return e is not None and not sx_find(e["val"], lambda y: y[0] in ("enum", "gvar") and "RecoverableError" in y[1])
        bad = run_automaton(f, pipe, PIPE, 0, acc)
        chk.judge(not bad, "ORDER", f.name + ":pipeline", f.loc, "CPodes' projection callback reports success without the full pipeline (reached %s)" %
                  ([PIPE[:x[1]] for x in bad][:1]), bad[0][2] if bad else None)
    mi = [f for f in P.all_fns() if f.name.endswith("CPodesIntegratorRep::methodInitialize")]
    for f in mi:
        chk.judge(any(True for _, _, e in f.calls() if e.get("fn", "").endswith("::projDefine")), "ORDER", f.name + ":projDefine", f.loc,
                  "the projection callback is registered with CPodes")


def initialize(chk, P, summ):
    f = P.fn(IR + "::initialize")
    calls = [e for _, _, e in f.calls(IR + "::realizeAndProjectKinematicsWithThrow")]
    chk.judge(len(calls) >= 1 and any("SimTK::ProjectOptions::ForceProjection" in sx_enums(e["x"]) for e in calls), "ORDER", "initialize:force-projection", f.loc,
              "initialize() projects the initial state with ForceProjection")


_A = "SimTKmath/Integrators/src/AbstractIntegratorRep.cpp"
_H = "SimTKmath/Integrators/src/IntegratorRep.h"
_V = "SimTKmath/Integrators/src/VerletIntegrator.cpp"
_E = "SimTKmath/Integrators/src/ExplicitEulerIntegrator.cpp"
_S2 = "SimTKmath/Integrators/src/SemiExplicitEuler2Integrator.cpp"
_RKM = "SimTKmath/Integrators/src/RungeKuttaMersonIntegrator.cpp"
_CP = "SimTKmath/Integrators/src/CPodesIntegrator.cpp"
MUTATIONS = [
    dict(name="seeded (sub-agent): event localisation adopts the interpolated state as advanced state", file=_A,
         old="        backUpAdvancedStateByInterpolation(tHigh);\n        // Failure to realize here", new="        if (sidePrevIter < 0 && getInterpolatedState().getTime() == tHigh)\n            updAdvancedState() = getInterpolatedState();\n        else\n            backUpAdvancedStateByInterpolation(tHigh);\n        // Failure to realize here",
         expect="takeOneStep:advanced-state-writes-projected"),
    dict(name="default DAE step skips velocity projection", arm=True, file=_A,
         old="    if (!localProjectUAndUErrEstNoThrow(advanced, yErrEst, anyChanges,\n                                        projectionLimit))\n        return false; // convergence failure for this step\n\n    // ODE step and projection",
         new="    // ODE step and projection", expect="ORDER:SimTK::AbstractIntegratorRep::attemptDAEStep:return-before-projectU"),
    dict(name="Verlet refines u after the velocity projection", file=_V,
         old="    uErrEst *= h; zErrEst *= h; // everything is 3rd order in h now", new="    advanced.updU() -= uErrEst; uErrEst *= h; zErrEst *= h;",
         expect="ORDER:SimTK::VerletIntegratorRep::attemptDAEStep:return-before"),
    dict(name="ExplicitEuler forgets prescribeU before realizing Velocity", file=_E,
         old="    system.prescribeU(advanced);\n    system.realize(advanced, Stage::Velocity);\n", new="    system.realize(advanced, Stage::Velocity);\n", occurrence=0,
         expect="ORDER:SimTK::ExplicitEulerIntegratorRep::attemptDAEStep"),
    dict(name="backUp by interpolation no longer projects", arm=True, file=_A,
         old="    realizeAndProjectKinematicsWithThrow(advanced, ProjectOptions::LocalOnly);\n}", new="    system.realize(advanced, Stage::Velocity);\n}",
         expect="ORDER:SimTK::AbstractIntegratorRep::backUpAdvancedStateByInterpolation"),
    dict(name="projection helper uses the integration accuracy", file=_H,
         old="        ProjectOptions options;\n        options.setRequiredAccuracy(getConstraintToleranceInUse());\n        options.setProjectionLimit(projectionLimit);\n        options.setOption(ProjectOptions::LocalOnly);\n        options.setOption(ProjectOptions::DontThrow);\n        if (userProjectEveryStep==1) \n            options.setOption(ProjectOptions::ForceProjection);\n        if (userUseInfinityNorm==1)\n            options.setOption(ProjectOptions::UseInfinityNorm);\n        if (userForceFullNewton==1)\n            options.setOption(ProjectOptions::ForceFullNewton);\n\n        anyChanges = false;\n        ProjectResults results;\n        // Nothing happens here if velocity",
         new="        ProjectOptions options;\n        options.setRequiredAccuracy(getAccuracyInUse());\n        options.setProjectionLimit(projectionLimit);\n        options.setOption(ProjectOptions::LocalOnly);\n        options.setOption(ProjectOptions::DontThrow);\n        if (userProjectEveryStep==1) \n            options.setOption(ProjectOptions::ForceProjection);\n        if (userUseInfinityNorm==1)\n            options.setOption(ProjectOptions::UseInfinityNorm);\n        if (userForceFullNewton==1)\n            options.setOption(ProjectOptions::ForceFullNewton);\n\n        anyChanges = false;\n        ProjectResults results;\n        // Nothing happens here if velocity",
         expect="HELPER:localProjectUAndUErrEstNoThrow:projectU:accuracy"),
    dict(name="Q projection failure ignored", file=_H,
         old="        if (results.getExitStatus() != ProjectResults::Succeeded) {\n            ++statsQProjectionFailures;\n            return false;\n        }",
         new="        if (results.getExitStatus() != ProjectResults::Succeeded) {\n            ++statsQProjectionFailures;\n        }", expect="HELPER:localProjectQAndQErrEstNoThrow:failure-returns-false"),
    dict(name="realizeAndProject helper projects u before prescribing it", file=_H,
         old="        system.prescribeU(s);\n        system.realize(s, Stage::Velocity);\n\n        results.clear();", new="        system.realize(s, Stage::Velocity);\n\n        results.clear();",
         expect="HELPER:realizeAndProjectKinematicsWithThrow:full-pipeline"),
    dict(name="interpolated state without projection also skips prescribeU", file=_S2,
         old="        system.realize(interp, Stage::Position);\n        system.prescribeU(interp);\n        system.realize(interp, Stage::Velocity);\n        return;",
         new="        system.realize(interp, Stage::Position);\n        system.realize(interp, Stage::Velocity);\n        return;", expect="unprojected-path-still-prescribes"),
]
