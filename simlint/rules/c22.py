"""C22 -- Events are detected, localised and handled in time order.

SWITCH (TimeStepper dispatch), PAIRIDX (handler/id parallel arrays), CAUSE
guards and REACHDEF on findEventCandidates (DESIGN 3, C22)."""
from ..facts import extract, units_matching, Program, AnalysisBroken, sx_find, sx_enums, sx_str
from ..match import (ev_write, is_call, call_args, call_obj, field_of, var_of, guard_blocks, lvalue_root, branch_edges, known_edges, only_via)
from .c18 import _is_lit, _is_var

TS = "SimTK::TimeStepperRep"
DG = "SimTK::DefaultSystemSubsystem::Guts"
IR = "SimTK::IntegratorRep"
UNITS = r"SimTKmath/Integrators/src/(TimeStepper|AbstractIntegratorRep)\.cpp$|SimTKcommon/Simulation/src/System\.cpp$"
HDR = r"SimTKmath/Integrators/src/.*\.h$"
# status -> (cause, id list expression kind)
DISPATCH = {
    "ReachedScheduledEvent": ("Scheduled", "var:scheduledEventIds"),
    "ReachedEventTrigger": ("Triggered", "call:getTriggeredEvents"),
    "TimeHasAdvanced": ("TimeAdvanced", "empty"),
    "EndOfSimulation": ("Termination", "empty"),
}
NO_HANDLER = {"ReachedStepLimit": "no state change: returns or continues", "StartOfContinuousInterval": "no state change",
              "ReachedReportTime": "reports only (reportEvents on the const state)"}
FAMILY = {
    "triggeredEventHandlers": {"triggeredEventIds", "triggeredEventIndices"},
    "triggeredEventReporters": {"triggeredReportIds", "triggeredReportIndices"},
    "scheduledEventHandlers": {"scheduledEventIds"},
    "scheduledEventReporters": {"scheduledReportIds"},
}
ALLINFO = set().union(*FAMILY.values())


def run(chk, tier, overlays=()):
    units = units_matching(UNITS)
    P = Program(extract(units, hdr=HDR, overlays=overlays))
    chk.units += units
    chk.nfunctions += len(P.fns)
    dispatch(chk, P)
    pairidx(chk, P)
    candidates(chk, P)
    clones(chk, P)
    ties(chk, P)
    deadcond(chk, P)
    # "reports and events are delivered in time order": a pending report must never lie strictly inside a reported event window,
    # otherwise the handler at tHigh runs before the report due earlier -- the WINDOW rule is shared with C19 (same function, same clause)
    from .c19 import window as _window
    _window(chk, P)
    chk.floor("WINDOW", 6)
    chk.floor("SWITCH", 20)
    chk.floor("CLONE", 4)
    chk.floor("PAIRIDX", 14)
    chk.floor("REACHDEF", 6)


def dispatch(chk, P):
    chk.rule("SWITCH", "TimeStepperRep::stepTo: the switch over Integrator::SuccessfulStepStatus has a case for every enumerator; each handler-invoking case calls "
             "System::handleEvents on integ->updAdvancedState() with the cause and id list tabled for that status; lowestModified and shouldTerminate are taken "
             "from that call's results and every path from a handleEvents call to the next loop iteration or return passes integ->reinitialize(lowestModified, shouldTerminate)")
    f = P.fn(TS + "::stepTo")
    en = P.enums.get("SimTK::Integrator::SuccessfulStepStatus")
    chk.require(en is not None, "enum Integrator::SuccessfulStepStatus not found")
    want = sorted(n.split("::")[-1] for n, v in en["enumerators"] if not n.endswith("InvalidSuccessfulStepStatus"))
    dom = f.dominators()
    # the status variable: the local that receives integ->stepTo(...)
    svs = [d["var"] for _, _, d in f.events(lambda d: d["k"] == "decl" and d.get("init") is not None and bool(sx_find(d["init"], lambda y: y[0] == "call" and y[1] == "SimTK::Integrator::stepTo")))]
    if not chk.shape(len(svs) == 1, "SWITCH", "stepTo:status-variable", f.loc, "one local receives the status returned by integ->stepTo (found %s)" % svs):
        return
    sv = svs[0]
    # the dispatch on it: a switch, or an if / else-if chain of `status == Enumerator` tests (both forms are read into case blocks)
    sw = [(b, blk["term"]) for b, blk in f.blocks.items() if blk.get("term") and blk["term"]["k"] == "switch" and var_of(blk["term"].get("cond")) == sv]
    caseblocks = {}
    if len(sw) == 1:
        swb, t = sw[0]
        have = sorted(c[1].split("::")[-1] for c in t["cases"] if isinstance(c, list) and c[0] == "enum")
        for b, blk in f.blocks.items():
            c = blk.get("case")
            if isinstance(c, list) and c[0] == "enum":
                caseblocks[c[1].split("::")[-1]] = b
    else:
        for b, blk in f.blocks.items():
            t = blk.get("term")
            c = t.get("cond") if t else None
            if t and t["k"] == "if" and isinstance(c, list) and c[0] == "op" and c[1] == "==" and var_of(c[2]) == sv and len(sx_enums(c[3])) == 1 and blk["succ"][0] >= 0:
                caseblocks[sx_enums(c[3])[0].split("::")[-1]] = blk["succ"][0]
        have = sorted(caseblocks)
        if not chk.shape(len(have) >= 2, "SWITCH", "stepTo:dispatch-on-the-step-status", f.loc, "a switch or an if-chain over the status variable %s (tests found: %s)" % (sv, have)):
            return
    chk.judge(have == want, "SWITCH", "exhaustive", f.loc, "cases %s vs enumerators %s" % (have, want))
    chk.ok("SWITCH", "switch-on-stepTo-status", f.loc, "the dispatch examines the status returned by integ->stepTo")
    # roles of the locals (never their names): id lists / next times are the out-arguments of calcTimeOfNextScheduledEvent / ...Report,
    # lowestModified / shouldTerminate are the two arguments of the one reinitialize call
    role = {}
    for call, kid, kt in (("calcTimeOfNextScheduledEvent", "scheduledEventIds", "nextScheduledEvent"), ("calcTimeOfNextScheduledReport", "scheduledReportIds", "nextScheduledReport")):
        cs0 = [e for _, _, e in f.calls("SimTK::System::" + call)]
        chk.shape(len(cs0) == 1 and var_of(call_args(cs0[0])[1]) and var_of(call_args(cs0[0])[2]), "SWITCH", "%s:one-call-with-out-arguments" % call, f.loc, "found %d" % len(cs0))
        if len(cs0) == 1:
            role[kt], role[kid] = var_of(call_args(cs0[0])[1]), var_of(call_args(cs0[0])[2])
    r0 = [e for _, _, e in f.calls("SimTK::Integrator::reinitialize")]
    if len(r0) == 1 and len(call_args(r0[0])) >= 2:
        role["lowestModified"], role["shouldTerminate"] = var_of(call_args(r0[0])[0]), var_of(call_args(r0[0])[1])
    chk.shape(len({v for v in role.values() if v}) == 6, "SWITCH", "local-roles-resolved", f.loc, "roles: %s" % role)
    # dispatch sites: direct System::handleEvents calls, or calls of a local wrapper (lambda / private helper) that forwards its (cause, ids)
    # parameters to one handleEvents call on integ->updAdvancedState() and stores both results -- a site is described by (state, cause, ids, results)
    def describe(g, e, amap=None):
        a = call_args(e)
        rv = var_of(a[4]) if len(a) > 4 else None
        lmv, stv = role.get("lowestModified"), role.get("shouldTerminate")
        lmw = [w for _, _, w in g.events(lambda w: bool(ev_write(w)) and var_of(ev_write(w)[0]) is not None and var_of(ev_write(w)[0]) == lmv)]
        stw = [w for _, _, w in g.events(lambda w: bool(ev_write(w)) and var_of(ev_write(w)[0]) is not None and var_of(ev_write(w)[0]) == stv)]
        return dict(state=a[0], cause=a[1], ids=a[2], rv=rv, lmw=lmw, stw=stw, g=g)
    hsites = []
    for b, i, e in f.calls("SimTK::System::handleEvents"):
        d = describe(f, e)
        blk_l = [w for bb, _, w in f.events(lambda w: w in d["lmw"]) if bb == b]
        blk_s = [w for bb, _, w in f.events(lambda w: w in d["stw"]) if bb == b]
        d.update(b=b, i=i, e=e, lmw=blk_l, stw=blk_s)
        hsites.append(d)
    wrappers = {}
    for g in P.all_fns():
        if g is f or not g.blocks:
            continue
        hs = [e for _, _, e in g.calls("SimTK::System::handleEvents")]
        ps = [p_[0] for p_ in g.d.get("params", [])]
        if len(hs) == 1 and len(ps) >= 2 and var_of(call_args(hs[0])[1]) in ps and var_of(call_args(hs[0])[2]) in ps:
            wrappers[g.id] = (g, hs[0], ps.index(var_of(call_args(hs[0])[1])), ps.index(var_of(call_args(hs[0])[2])))
    for b, i, e in f.calls():
        w = wrappers.get(e.get("fid"))
        if not w:
            continue
        g, h, kc, ki = w
        a = call_args(e)
        if e.get("op") == "()":
            a = a[1:]           # the callee object comes first for operator()
        d = describe(g, h)
        d.update(b=b, i=i, e=e, cause=a[kc], ids=a[ki], via=g.name)
        hsites.append(d)
    hcalls = [(d["b"], d["i"], d["e"]) for d in hsites]
    chk.shape(len(hcalls) == len(DISPATCH), "SWITCH", "handleEvents-sites=%d" % len(DISPATCH), f.loc, "found %d dispatch sites (direct or through a forwarding wrapper)" % len(hcalls))
    reinit = [(b, i, e) for b, i, e in f.calls("SimTK::Integrator::reinitialize")]
    chk.shape(len(reinit) == 1, "SWITCH", "one-reinitialize", f.loc, "one reinitialize site after the switch")
    for status, (cause, ids) in sorted(DISPATCH.items()):
        cb = caseblocks.get(status)
        if cb is None:
            chk.violation("SWITCH", "case:" + status, f.loc, "no case for " + status)
            continue
        mine = [(b, i, e) for b, i, e in hcalls if cb in dom.get(b, ())]
        # nearest case only
        mine = [(b, i, e) for b, i, e in mine if not any(ob != cb and ob in dom.get(b, ()) and cb in dom.get(ob, ()) for ob in caseblocks.values())]
        site = "%s:%d" % (f.file, f.blocks[cb]["ev"][0]["line"] if f.blocks[cb]["ev"] else f.line)
        chk.judge(len(mine) == 1, "SWITCH", "case:%s:one-handleEvents" % status, site, "exactly one handleEvents call in the case (found %d)" % len(mine))
        if len(mine) != 1:
            continue
        b, i, e = mine[0]
        d = [x for x in hsites if x["e"] is e][0]
        a = [d["state"], d["cause"], d["ids"]]
        site = "%s:%d" % (f.file, e["line"])
        chk.judge(bool(sx_find(a[0], lambda y: y[0] == "call" and y[1].endswith("::updAdvancedState"))), "SWITCH", "case:%s:on-advanced-state" % status, site,
                  "handlers act on integ->updAdvancedState()")
        got = [x.split("::")[-1] for x in sx_enums(a[1])]
        chk.judge(got == [cause], "SWITCH", "case:%s:cause=%s" % (status, cause), site, "cause passed is %s" % got)
        if ids == "empty":
            okid = isinstance(a[2], list) and a[2][0] == "ctor" and not a[2][2]
        elif ids.startswith("var:"):
            okid = var_of(a[2]) is not None and var_of(a[2]) == role.get(ids[4:])
        else:
            okid = bool(sx_find(a[2], lambda y: y[0] == "call" and y[1].endswith("::" + ids[5:])))
        chk.judge(okid, "SWITCH", "case:%s:ids=%s" % (status, ids), site, "id list passed is %s" % sx_str(a[2]))
        rv, lm, st = d["rv"], d["lmw"], d["stw"]
        ok1 = len(lm) == 1 and bool(sx_find(ev_write(lm[0])[2], lambda y: y[0] == "call" and y[1].endswith("::getLowestModifiedStage") and var_of(y[2]) == rv))
        ok2 = len(st) == 1 and bool(sx_find(ev_write(st[0])[2], lambda y: y[0] == "call" and y[1].endswith("::getExitStatus") and var_of(y[2]) == rv)) and \
            "SimTK::HandleEventsResults::ShouldTerminate" in sx_enums(ev_write(st[0])[2])
        chk.judge(ok1, "SWITCH", "case:%s:lowestModified<-results" % status, site, "lowestModified is taken from this call's results")
        chk.judge(ok2, "SWITCH", "case:%s:shouldTerminate<-results" % status, site, "shouldTerminate is exit status == ShouldTerminate of this call's results")
        if reinit:
            rb, ri, re_ = reinit[0]
            p1 = f.path_exists((b, i), lambda q: q["k"] == "ret", lambda q: q is re_)
            p2 = f.path_exists((b, i), lambda q: q["k"] == "call" and q.get("fn") == "SimTK::Integrator::stepTo", lambda q: q is re_)
            chk.judge(p1 is None and p2 is None, "SWITCH", "case:%s:reinitialize-follows" % status, site,
                      "integration must restart from the state the handlers produced: reinitialize() on every path after handleEvents", p1 or p2)
    if reinit:
        a = call_args(reinit[0][2])
        # both are locals declared before the loop and written only from handler results (checked per case above) or initialised
        dl = {d["var"]: d for _, _, d in f.events(lambda d: d["k"] == "decl")}
        chk.judge(var_of(a[0]) in dl and var_of(a[1]) in dl and "Stage" in str(dl[var_of(a[0])].get("ty", "")) and str(dl[var_of(a[1])].get("ty", "")) == "bool", "SWITCH",
                  "reinitialize(lowestModified,shouldTerminate)", f.loc, "reinitialize receives the Stage and bool locals that the cases fill from the handler results")
    # scheduled reports
    rep = [(b, i, e) for b, i, e in f.calls("SimTK::System::reportEvents")]
    chk.judge(len(rep) == 1 and "ReachedReportTime" in caseblocks and caseblocks["ReachedReportTime"] in dom.get(rep[0][0], ()), "SWITCH", "case:ReachedReportTime:reportEvents", f.loc,
              "scheduled reports are dispatched in the ReachedReportTime case")
    if rep:
        a = call_args(rep[0][2])
        chk.judge([x.split("::")[-1] for x in sx_enums(a[1])] == ["Scheduled"] and var_of(a[2]) is not None and var_of(a[2]) == role.get("scheduledReportIds"), "SWITCH", "case:ReachedReportTime:cause+ids", f.loc,
                  "reportEvents(state, Scheduled, scheduledReportIds)")
    # the id lists come from the matching calcTimeOfNextScheduled* call, the times feed stepTo
    for call, ids, tvar in (("calcTimeOfNextScheduledEvent", "scheduledEventIds", "nextScheduledEvent"), ("calcTimeOfNextScheduledReport", "scheduledReportIds", "nextScheduledReport")):
        cs = [e for _, _, e in f.calls("SimTK::System::" + call)]
        chk.judge(len(cs) == 1 and role.get(tvar) and role.get(ids) and role[tvar] != role[ids] and
                  len({role.get(k) for k in ("scheduledEventIds", "scheduledReportIds", "nextScheduledEvent", "nextScheduledReport")}) == 4, "SWITCH", "%s->(%s,%s)" % (call, tvar, ids), f.loc,
                  "next time and id list obtained together, in variables of their own")
    st = [e for _, _, e in f.calls("SimTK::Integrator::stepTo")]
    if st:
        a = call_args(st[0])
        rd = [d for _, _, d in f.events(lambda d: d["k"] == "decl" and d["var"] == var_of(a[0]))]
        ed = [d for _, _, d in f.events(lambda d: d["k"] == "decl" and d["var"] == var_of(a[1]))]
        def mins(d, names):
            c = sx_find(d[0]["init"], lambda y: y[0] == "call" and y[1].endswith("std::min")) if d else []
            return bool(c) and sorted(var_of(z) or "?" for z in c[0][3]) == sorted(names)
        tparam = f.d["params"][0][0]
        chk.judge(mins(rd, [role.get("nextScheduledReport") or "?r", tparam]) and mins(ed, [role.get("nextScheduledEvent") or "?e", tparam]), "SWITCH", "stepTo(min(report,t),min(event,t))", f.loc,
                  "the integrator is asked to stop at the next scheduled report / event (or the requested time)")


def _info_field(x):
    """CachedEventInfo member at the root of info.X[...]"""
    for y in sx_find(x, lambda y: y[0] == "mem" and y[2].split("::")[-1] in ALLINFO):
        return y[2].split("::")[-1]
    return None


def pairidx(chk, P):
    chk.rule("PAIRIDX", "in DefaultSystemSubsystemGuts every loop over one of the four handler/reporter arrays touches only the CachedEventInfo arrays of the same "
             "family (triggeredEventHandlers<->triggeredEventIds/Indices, ...Reporters<->triggeredReportIds/Indices, scheduledEventHandlers<->scheduledEventIds, "
             "scheduledEventReporters<->scheduledReportIds) and only that handler array; triggered loops run under cause == Triggered, scheduled ones under cause == Scheduled")
    n = 0
    for fn in sorted(P.methods_of(DG), key=lambda f: f.id):
        loops = fn.loops()
        for h, body in sorted(loops.items()):
            t = fn.blocks[h].get("term")
            if not t or "cond" not in t:
                continue
            arrs = [y[2].split("::")[-1] for y in sx_find(t["cond"], lambda y: y[0] == "mem" and y[2].split("::")[-1] in FAMILY)]
            if len(set(arrs)) != 1:
                continue
            H = arrs[0]
            infos = set()
            others = set()
            line = t["line"]
            for b in body:
                for e in fn.blocks[b]["ev"]:
                    if e["k"] == "mem":
                        s = e["field"].split("::")[-1]
                        if s in ALLINFO:
                            infos.add(s)
                        if s in FAMILY and s != H:
                            others.add(s)
            if not infos and not others:
                continue
            n += 1
            inst = "%s:loop(%s)" % (fn.name.split("::")[-1], H)
            site = "%s:%d" % (fn.file, line)
            chk.judge(infos <= FAMILY[H], "PAIRIDX", inst, site, "loop over %s uses id/index arrays %s (allowed %s): a mismatch dispatches the wrong handler for an id" %
                      (H, sorted(infos), sorted(FAMILY[H])))
            chk.judge(not others, "PAIRIDX", inst + ":one-array", site, "loop over %s also indexes %s" % (H, sorted(others)))
            # cause guard (only in functions that have a cause parameter)
            cp = [p[0] for p in fn.d["params"] if "Event::Cause" in p[1]]
            if cp:
                want = "Triggered" if H.startswith("triggered") else "Scheduled"
                region = set()
                for g in guard_blocks(fn, lambda c: bool(sx_find(c, lambda y: y[0] == "var" and y[1] == cp[0])) and
                                      any(x.endswith("::" + want) for x in sx_enums(c)) and bool(sx_find(c, lambda y: y[0] in ("op", "opc") and y[1] == "==")), 0):
                    dom = fn.dominators()
                    region |= {x for x in dom if g in dom[x]}
                chk.judge(h in region, "PAIRIDX", inst + ":cause==" + want, site, "loop over %s must run only for cause == %s" % (H, want))
    # registration order = id order: realizeTopology pushes ids in the loop over the matching array
    return n


def candidates(chk, P):
    chk.rule("REACHDEF", "IntegratorRep::findEventCandidates: the transition recorded for a candidate is "
             "maskTransition(classifyTransition(sign(eLow[e]), sign(eHigh[e])), eventTriggerInfo[e].calcTransitionMask()) for the same index e, and the candidate "
             "is pushed (index, time estimate, transition) only under transitionSeen != NoEventTrigger")
    f = P.fn(IR + "::findEventCandidates")
    d = [x for _, _, x in f.events(lambda x: x["k"] == "decl" and x["init"] is not None and sx_find(x["init"], lambda y: y[0] == "call" and y[1].endswith("::maskTransition")))]
    chk.shape(len(d) == 1, "REACHDEF", "transitionSeen-decl", f.loc, "one masked transition computation")
    if not d:
        return
    tv = d[0]["var"]
    m = sx_find(d[0]["init"], lambda y: y[0] == "call" and y[1].endswith("::maskTransition"))[0]
    cl = sx_find(m[3][0], lambda y: y[0] == "call" and y[1].endswith("::classifyTransition"))
    site = "%s:%d" % (f.file, d[0]["line"])
    ok = bool(cl)
    ev = None
    if cl:
        a = cl[0][3]
        def sign_of(x, vec):
            s = sx_find(x, lambda y: y[0] == "call" and y[1].endswith("sign"))
            if not s:
                return None
            inner = s[0][3][0]
            r = sx_find(inner, lambda y: y[0] == "var" and y[1] == vec)
            ix = sx_find(inner, lambda y: y[0] == "var" and y[1] not in (vec,))
            return ix[0][1] if r and ix else None
        lo, hi = f.d["params"][4][0], f.d["params"][6][0]
        e1, e2 = sign_of(a[0], lo), sign_of(a[1], hi)
        ok = e1 is not None and e1 == e2
        ev = e1
    chk.judge(ok, "REACHDEF", "classify(sign(eLow[e]),sign(eHigh[e]))", site, "transition classified from the low then the high trigger value of the same event")
    mk = sx_find(m[3][1], lambda y: y[0] == "call" and y[1].endswith("::calcTransitionMask"))
    okm = bool(mk) and bool(sx_find(mk[0][2], lambda y: y[0] == "mem" and y[2].endswith("::eventTriggerInfo"))) and bool(sx_find(mk[0][2], lambda y: y[0] == "var" and y[1] == ev))
    chk.judge(okm, "REACHDEF", "mask=eventTriggerInfo[e].calcTransitionMask()", site, "masked with the monitored directions of the same event")
    gb = set()
    for g in guard_blocks(f, lambda c: c[0] in ("op", "opc") and c[1] == "!=" and bool(sx_find(c, lambda y: y[0] == "var" and y[1] == tv)) and
                          any(x.endswith("NoEventTrigger") for x in sx_enums(c)), 0):
        dom = f.dominators()
        gb |= {x for x in dom if g in dom[x]}
    pushes = [(b, i, e) for b, i, e in f.calls() if e.get("fn", "").endswith("::push_back")]
    # the three output arrays by parameter position (never by name): candidates, timeEstimates, transitions are the non-const Array_& parameters, in that order
    outs = [p_[0] for p_ in f.d["params"] if "Array_<" in p_[1] and p_[1].rstrip().endswith("&") and not p_[1].lstrip().startswith("const")]
    role = dict(zip(outs, ("candidates", "timeEstimates", "transitions"))) if len(outs) == 3 else {}
    chk.shape(len(role) == 3, "REACHDEF", "three-output-arrays", f.loc, "output array parameters: %s" % outs)
    names = sorted(role.get(var_of(call_obj(e)), "?") for _, _, e in pushes)
    chk.judge(names == ["candidates", "timeEstimates", "transitions"], "REACHDEF", "three-parallel-pushes", f.loc, "index, time estimate and transition pushed together: %s" % names)
    for b, i, e in pushes:
        chk.judge(b in gb, "REACHDEF", "push(%s):only-if-transition-seen" % role.get(var_of(call_obj(e)), "?"), "%s:%d" % (f.file, e["line"]),
                  "a candidate is listed only when its trigger changed sign in a monitored direction")
    for b, i, e in pushes:
        who = role.get(var_of(call_obj(e)))
        a = call_args(e)[0]
        if who == "candidates":
            chk.judge(var_of(a) == ev, "REACHDEF", "push(candidates)=e", "%s:%d" % (f.file, e["line"]), "the event index pushed is e")
        if who == "transitions":
            chk.judge(var_of(a) == tv, "REACHDEF", "push(transitions)=transitionSeen", "%s:%d" % (f.file, e["line"]), "the transition pushed is the one computed for e")
    # the three output arrays are cleared first
    for pv, nm in sorted(role.items(), key=lambda kv: kv[1]):
        cl = [(b, i, e) for b, i, e in f.calls() if e.get("fn", "").endswith("::clear") and var_of(call_obj(e)) == pv]
        ok = bool(cl) and all(f.path_exists(None, lambda q, pe=pe: q is pe, lambda q, c0=cl[0][2]: q is c0) is None for _, _, pe in pushes)
        chk.judge(ok, "REACHDEF", "clear(%s)-first" % nm, f.loc, "outputs cleared before candidates are collected")


import json as _json

RENAME = [("scheduledEventHandlers", "H"), ("scheduledEventReporters", "H"), ("scheduledEventIds", "IDS"), ("scheduledReportIds", "IDS"),
          ("ScheduledEventHandler", "HT"), ("ScheduledEventReporter", "HT"),
          ("calcTimeOfNextScheduledEvent", "CALC"), ("calcTimeOfNextScheduledReport", "CALC"),
          ("triggeredEventHandlers", "TH"), ("triggeredEventReporters", "TH"), ("triggeredEventIds", "TIDS"), ("triggeredReportIds", "TIDS")]


def _trace(fn):
    """normalised event trace of a function: per reachable block (CFG order) the calls / assignments / branch conditions, with the
    sibling renaming applied; compares structure and operators, not source text or positions"""
    out = []
    for b in sorted(fn.reachable(), reverse=True):
        blk = fn.blocks[b]
        row = []
        for e in blk["ev"]:
            if e["k"] == "call" and not e.get("ctor"):
                row.append("call " + _json.dumps(e["x"]))
            elif e["k"] == "assign":
                row.append("assign %s %s %s" % (_json.dumps(e["lhs"]), e["op"], _json.dumps(e["rhs"])))
            elif e["k"] == "ret":
                row.append("ret " + _json.dumps(e["val"]))
        t = blk.get("term")
        if t:
            row.append("branch %s %s" % (t["k"], _json.dumps(t.get("cond"))))
        row.append("succ %d" % len([s for s in blk["succ"] if s >= 0]))
        txt = "\n".join(row)
        for a, bb in RENAME:
            txt = txt.replace(a, bb)
        out.append(txt)
    return out


def clones(chk, P):
    chk.rule("CLONE", "sibling implementations of one interface agree: calcTimeOfNextScheduledEventImpl and ...ReportImpl (in DefaultSystemSubsystem::Guts and in "
             "System::Guts) have identical normalised event traces (same calls, assignments, comparison operators and branch structure) modulo the renaming "
             "handlers<->reporters, eventIds<->reportIds")
    for cls in (DG, "SimTK::System::Guts"):
        a = P.fn(cls + "::calcTimeOfNextScheduledEventImpl")
        b = P.fn(cls + "::calcTimeOfNextScheduledReportImpl")
        ta, tb = _trace(a), _trace(b)
        diff = None
        if len(ta) != len(tb):
            diff = "different number of basic blocks (%d vs %d)" % (len(ta), len(tb))
        else:
            for k, (x, y) in enumerate(zip(ta, tb)):
                if x != y:
                    xl, yl = x.split("\n"), y.split("\n")
                    d = [(p, q) for p, q in zip(xl, yl) if p != q] or [(xl[-1], yl[-1])]
                    diff = "block %d differs: %s  vs  %s" % (k, d[0][0][:160], d[0][1][:160])
                    break
        chk.judge(diff is None, "CLONE", "%s::calcTimeOfNextScheduledEventImpl~ReportImpl" % cls.replace("SimTK::", ""), a.loc,
                  "the event and report versions disagree: %s" % diff)
        chk.ok("CLONE", "%s:trace-length=%d" % (cls.replace("SimTK::", ""), len(ta)), a.loc)


def ties(chk, P):
    chk.rule("TIES", "in all four calcTimeOfNextScheduled*Impl bodies events due at exactly the same time accumulate: an id is appended under `time <= tNextEvent` "
             "and the accumulated list is cleared only under the strict `time < tNextEvent`")
    for cls in (DG, "SimTK::System::Guts"):
        for nm in ("calcTimeOfNextScheduledEventImpl", "calcTimeOfNextScheduledReportImpl"):
            f = P.fn(cls + "::" + nm)
            tn = f.d["params"][1][0]
            ids = f.d["params"][2][0]
            def cmp_region(op):
                """blocks that execute only when `time <op> tNextEvent` is known to hold -- nested `if`, `if (!(...)) continue;` guard,
                conjunction with further tests and the mirrored spelling `tNextEvent >= time` are read alike"""
                flip = {"<=": ">=", "<": ">"}[op]
                nop, nflip = {"<=": (">", "<"), "<": (">=", "<=")}[op]
                def states(c, o, fo):
                    return isinstance(c, list) and len(c) == 4 and c[0] in ("op", "opc") and \
                        ((c[1] == o and var_of(c[2]) not in (None, tn) and var_of(c[3]) == tn) or (c[1] == fo and var_of(c[2]) == tn and var_of(c[3]) not in (None, tn)))
                edges = known_edges(f, lambda c: states(c, op, flip), lambda c: states(c, nop, nflip))
                return {b for b in f.blocks if only_via(f, b, edges)}
            le, lt = cmp_region("<="), cmp_region("<")
            pushes = [(b, e) for b, _, e in f.calls() if e.get("fn", "").endswith("::push_back") and var_of(call_obj(e)) == ids]
            clears = [(b, e) for b, _, e in f.calls() if e.get("fn", "").endswith("::clear") and var_of(call_obj(e)) == ids and f.loop_depth(b) > 0]
            inst = "%s::%s" % (cls.replace("SimTK::", ""), nm)
            chk.judge(bool(pushes) and all(b in le for b, e in pushes), "TIES", inst + ":append-under-<=", f.loc, "ids are appended under time <= tNextEvent (ties accumulate)")
            chk.judge(bool(clears) and all(b in lt for b, e in clears), "TIES", inst + ":clear-only-under-<", f.loc, "the accumulated ids are cleared only when a strictly earlier time is found")


def deadcond(chk, P):
    chk.rule("DEADCOND", "no branch compares two variables with <, > or != immediately after one was assigned from the other (a stated belief that can never hold: the "
             "guarded statement -- clearing stale event ids -- would be dead code); checked in the event scheduling/dispatch functions")
    n = 0
    fams = [f for f in P.all_fns() if f.name.split("::")[-1] in ("calcTimeOfNextScheduledEventImpl", "calcTimeOfNextScheduledReportImpl", "handleEventsImpl", "reportEventsImpl",
                                                              "findEventCandidates", "stepTo") and ("Guts" in f.name or "TimeStepperRep" in f.name or "IntegratorRep" in f.name)]
    for f in fams:
        for b, blk in f.blocks.items():
            t = blk.get("term")
            if not t or "cond" not in t or not isinstance(t["cond"], list):
                continue
            for c in sx_find(t["cond"], lambda y: y[0] == "op" and y[1] in ("<", ">", "!=") and var_of(y[2]) and var_of(y[3])):
                va, vb = var_of(c[2]), var_of(c[3])
                n += 1
                # walk back in the block: an assignment vb = va (or va = vb) with no later write to either
                last = None
                for e in blk["ev"]:
                    w = ev_write(e)
                    if w and var_of(w[0]) in (va, vb):
                        last = (var_of(w[0]), var_of(w[2]) if w[2] is not None else None, w[1])
                bad = last is not None and last[2] == "=" and {last[0], last[1]} == {va, vb}
                chk.judge(not bad, "DEADCOND", "%s:%s%s%s" % (f.name.replace("SimTK::", ""), va, c[1], vb), "%s:%d" % (f.file, t["line"]),
                          "`%s %s %s` is tested right after `%s = %s`: it can never be true" % (va, c[1], vb, last[0] if last else "?", last[1] if last else "?"))
    chk.shape(n >= 4, "DEADCOND", "comparisons-examined", "", "variable/variable comparisons examined: %d" % n)


_T = "SimTKmath/Integrators/src/TimeStepper.cpp"
_S = "SimTKcommon/Simulation/src/System.cpp"
_H = "SimTKmath/Integrators/src/IntegratorRep.h"
MUTATIONS = [
    dict(name="seeded (sub-agent): coincident scheduled handlers, only the first is listed", file=_S,
         old="            if (time <= tNextEvent \n                && (time > s.getTime() \n                    || (includeCurrentTime && time == s.getTime()))) \n            {\n                if (time < tNextEvent)\n                    eventIds.clear();\n                tNextEvent = time;\n                eventIds.push_back(info.scheduledEventIds[i]);",
         new="            if (time < tNextEvent \n                && (time > s.getTime() \n                    || (includeCurrentTime && time == s.getTime()))) \n            {\n                eventIds.clear();\n                tNextEvent = time;\n                eventIds.push_back(info.scheduledEventIds[i]);",
         expect="CLONE:DefaultSystemSubsystem::Guts::calcTimeOfNextScheduledEventImpl~ReportImpl"),
    dict(name="combiner overwrites the time before testing it (pre-fix code)", arm=True, file=_S,
         old="            if (time < tNextEvent) \n                eventIds.clear(); // otherwise just accumulate\n            tNextEvent = time;\n", new="            tNextEvent = time;\n            if (time < tNextEvent) \n                eventIds.clear(); // otherwise just accumulate\n",
         occurrence=0, expect="DEADCOND:System::Guts::calcTimeOfNextScheduledEventImpl"),
    dict(name="triggered events dispatched with the scheduled id list", arm=True, file=_T,
         old="                                    Event::Cause::Triggered,\n                                    integ->getTriggeredEvents(),",
         new="                                    Event::Cause::Triggered,\n                                    scheduledEventIds,", expect="case:ReachedEventTrigger:ids"),
    dict(name="termination handlers run on the returned (const-cast) state", file=_T,
         old="                system.handleEvents(integ->updAdvancedState(),\n                                    Event::Cause::Termination,",
         new="                system.handleEvents(const_cast<State&>(integ->getState()),\n                                    Event::Cause::Termination,", expect="case:EndOfSimulation:on-advanced-state"),
    dict(name="scheduled-event case ignores the handlers' termination request", file=_T,
         old="                lowestModified = results.getLowestModifiedStage();\n                shouldTerminate = \n                    results.getExitStatus()==HandleEventsResults::ShouldTerminate;\n                lastEventTime = integ->getTime();",
         new="                lowestModified = results.getLowestModifiedStage();\n                shouldTerminate = false;\n                lastEventTime = integ->getTime();", expect="case:ReachedScheduledEvent:shouldTerminate"),
    dict(name="reinitialize skipped when reporting all states", file=_T,
         old="        integ->reinitialize(lowestModified, shouldTerminate);\n        if (reportAllSignificantStates)\n            return status;",
         new="        if (reportAllSignificantStates)\n            return status;\n        integ->reinitialize(lowestModified, shouldTerminate);", expect="reinitialize-follows"),
    dict(name="scheduled reporters matched against handler ids", arm=True, file=_S,
         old="                if (idSet.find(info.scheduledReportIds[i]) != idSet.end())\n                    scheduledEventReporters[i]->handleEvent(s);\n            }\n        }\n\n        // Assume some change was made.",
         new="                if (idSet.find(info.scheduledEventIds[i]) != idSet.end())\n                    scheduledEventReporters[i]->handleEvent(s);\n            }\n        }\n\n        // Assume some change was made.",
         expect="PAIRIDX:handleEventsImpl:loop(scheduledEventReporters)"),
    dict(name="triggered reporter trigger slot taken from handler indices", file=_S,
         old="                triggers[info.triggeredReportIndices[i]] = \n                    triggeredEventReporters[i]->getValue(s);",
         new="                triggers[info.triggeredEventIndices[i]] = \n                    triggeredEventReporters[i]->getValue(s);", expect="loop(triggeredEventReporters)"),
    dict(name="candidate mask taken from another event", file=_H,
         old="                    eventTriggerInfo[e].calcTransitionMask());", new="                    eventTriggerInfo[i].calcTransitionMask());", expect="REACHDEF:mask="),
    dict(name="unmonitored transitions listed as candidates", file=_H,
         old="            if (transitionSeen != Event::NoEventTrigger) {\n                // Replace the transition we just saw", new="            {\n                // Replace the transition we just saw",
         expect="only-if-transition-seen"),
]
