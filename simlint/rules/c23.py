"""C23 -- Measures compute what their definitions say (bookkeeping clause).

PAIRCALL: a value written into an auto-update variable's update slot becomes
the variable only if it was marked realized -- on all paths, same index; the
'already realized' early-return tests the same index; the measure's realize
hook reaches the update, and its getter reads the slot that was written."""
from ..facts import extract, extract_split, units_matching, Program, AnalysisBroken, sx_find, sx_str
from ..match import ev_write, is_call, call_args, call_obj, field_of, var_of, guard_blocks

UNITS_QUICK = r"SimTKcommon/Simulation/src/Measure\.cpp$"
UNITS_MORE = r"Simbody/src/(ExponentialSpringForce|CablePath|CableSpan|ContactTrackerSubsystem)\.cpp$"
HDR = r"internal/MeasureImplementation\.h$|/Simbody/src/.*\.h$"
UPD, MARK, ISR, GET = "updDiscreteVarUpdateValue", "markDiscreteVarUpdateValueRealized", "isDiscreteVarUpdateValueRealized", "getDiscreteVarUpdateValue"


# functions that use an update slot only to (re)build its structure; the values are produced later by the ensure.../realize functions
INITIALISERS = {
    "SimTK::CablePath::Impl::realizeInstance": "sizes and initial guesses of the path entries at Instance stage; nothing is marked realized on purpose",
    "SimTK::CablePath::Impl::handleEvents": "event handler rewrites the entries' structure and copies them into the variables itself",
}


def is_wrapper(f):
    """small accessor whose returned reference is the update slot"""
    if len(list(f.calls())) > 5 or len(f.ret_events()) != 1:
        return False
    rv = f.ret_events()[0][2]["val"]
    if rv is None:
        return False
    if sx_find(rv, lambda y: y[0] in ("call", "dcall") and str(y[1]).endswith(UPD)):
        return True
    v = var_of(rv)
    for _, _, d in f.events(lambda d: d["k"] == "decl" and d["var"] == v and d["init"] is not None):
        if sx_find(d["init"], lambda y: y[0] in ("call", "dcall") and str(y[1]).endswith(UPD)):
            return True
    return False


def short(e):
    return str(e.get("fn", "")).split("::")[-1]


def idx_of(e):
    """canonical name of the index argument (last argument): member field or variable"""
    a = call_args(e)
    if not a:
        return None
    x = a[-1]
    f = field_of(x)
    if f:
        return f.split("::")[-1]
    v = var_of(x)
    if v:
        return v
    d = sx_find(x, lambda y: y[0] in ("dmem", "mem", "var"))
    return str(d[0][-1]).split("::")[-1] if d else sx_str(x)


def run(chk, tier, overlays=()):
    units = units_matching(UNITS_QUICK) + (units_matching(UNITS_MORE))
    P = Program(extract(units, hdr=HDR, overlays=overlays))
    chk.units += units
    chk.nfunctions += len(P.fns)
    chk.rule("PAIRCALL", "every updDiscreteVarUpdateValue(s, ix) is followed on every path to the function's normal exit by markDiscreteVarUpdateValueRealized(s, ix) with the "
             "same index; an `already realized` early return tests isDiscreteVarUpdateValueRealized with that index; measures' realizeMeasureAccelerationVirtual reaches the "
             "update and getUncachedValueVirtual reads an index that the update wrote")
    n = 0
    for f in sorted(P.all_fns(), key=lambda f: f.id):
        upds = [(b, i, e) for b, i, e in f.calls() if short(e) == UPD]
        if not upds:
            continue
        # accessor wrappers (updNextActiveContacts, updPosEntry ...) just return the slot: their callers are examined instead
        if is_wrapper(f):
            wrap = f
            for g in P.all_fns():
                for b, i, e in g.calls():
                    if e.get("fid") == wrap.id:
                        if g.name in INITIALISERS:
                            chk.ok("PAIRCALL", "%s:%s:initialiser" % (g.name.replace("SimTK::", ""), idx_of(upds[0][2])), "%s:%d" % (g.file, e["line"]), INITIALISERS[g.name])
                            continue
                        n += judge_site(chk, P, g, b, i, e, idx_of(upds[0][2]), via=wrap.name.split("::")[-1])
            continue
        for b, i, e in upds:
            n += judge_site(chk, P, f, b, i, e, idx_of(e))
    measures(chk, P)
    chk.floor("PAIRCALL", 11)


def marks_index(P, q, ix, depth=1):
    if q["k"] != "call":
        return False
    if short(q) == MARK and idx_of(q) == ix:
        return True
    if depth > 0 and q.get("fid"):
        for g in P.by_id.get(q["fid"], []):
            if len(list(g.calls())) <= 4 and any(short(e) == MARK and idx_of(e) == ix for _, _, e in g.calls()):
                return True
    return False


def judge_site(chk, P, f, b, i, e, ix, via=None):
    site = "%s:%d" % (f.file, e["line"])
    inst = "%s:%s%s" % (f.name.replace("SimTK::", ""), ix, (":via-" + via) if via else "")
    p = f.path_exists((b, i), "exit", lambda q: marks_index(P, q, ix))
    if p is not None:
        # helper that fills the slot for its caller: then every caller must mark after the call (one level)
        callers = [(g, bb, ii, ee) for g in P.all_fns() for bb, ii, ee in g.calls() if ee.get("fid") == f.id and g is not f]
        if callers and all(g.path_exists((bb, ii), "exit", lambda q: marks_index(P, q, ix)) is None for g, bb, ii, ee in callers):
            chk.ok("PAIRCALL", inst + ":upd->mark-in-caller", site, "marked by every caller (%s)" % sorted(set(g.name.split("::")[-1] for g, _, _, _ in callers)))
            return 1
    chk.judge(p is None, "PAIRCALL", inst + ":upd->mark", site, "update value of %s is written but not marked realized on some path: the auto-update swap would skip it" % ix, p)
    # early-return guard on the same index (if the function has such a guard at all)
    guards = [(bb, blk["term"]["cond"]) for bb, blk in f.blocks.items() if blk.get("term") and blk["term"].get("cond") and
              sx_find(blk["term"]["cond"], lambda y: y[0] in ("call", "dcall") and str(y[1]).endswith(ISR))]
    for bb, c in guards:
        calls = sx_find(c, lambda y: y[0] in ("call", "dcall") and str(y[1]).endswith(ISR))
        gi = None
        for cc in calls:
            x = cc[3][-1] if cc[3] else None
            gi = (field_of(x) or "").split("::")[-1] or var_of(x) or (str(sx_find(x, lambda y: y[0] in ("dmem", "mem", "var"))[0][-1]).split("::")[-1] if sx_find(x, lambda y: y[0] in ("dmem", "mem", "var")) else None)
        if f.dominates((bb, 10 ** 6), (b, i)) or bb in f.dominators().get(b, ()):
            chk.judge(gi == ix or gi in indices_updated(f), "PAIRCALL", inst + ":guard-same-index", site,
                      "the `already realized` test looks at %s but the function computes %s" % (gi, ix))
    return 1


def indices_updated(f):
    return {idx_of(e) for _, _, e in f.calls() if short(e) == UPD}


def measures(chk, P):
    impls = [c for c in P.classes if c.startswith("SimTK::Measure_") and c.endswith("::Implementation") and ("Differentiate" in c or "Extreme" in c or "Delay" in c)]
    chk.shape(len(impls) >= 3, "PAIRCALL", "measures-found", "", "Differentiate, Extreme and Delay implementations found: %s" % [c.split("::")[-2] for c in impls])
    for c in sorted(impls):
        ms = P.methods_of(c)
        upd_f = [f for f in ms if any(short(e) == UPD for _, _, e in f.calls())]
        rz = [f for f in ms if f.name.endswith("::realizeMeasureAccelerationVirtual")]
        gv = [f for f in ms if f.name.endswith("::getUncachedValueVirtual")]
        nm = c.split("::")[-2]
        if not upd_f:
            continue
        reach = False
        for r in rz:
            if r in upd_f:
                reach = True
            for _, _, e in r.calls():
                if any(str(e.get("fn", "")).split("::")[-1] == u.name.split("::")[-1] for u in upd_f):
                    p = r.path_exists(None, "exit", lambda q, e=e: q is e)
                    reach = reach or p is None
        chk.judge(bool(rz) and reach, "PAIRCALL", nm + ":realizeAcceleration->update", rz[0].loc if rz else "", "the Acceleration-stage hook computes the update value on every path")
        written = set()
        for u in upd_f:
            written |= indices_updated(u)
        for g in gv:
            reads = {idx_of(e) for _, _, e in g.calls() if short(e) == GET}
            if reads:
                chk.judge(reads <= written, "PAIRCALL", nm + ":getter-reads-written-slot", g.loc, "getter reads update slots %s; the update functions write %s" % (sorted(reads), sorted(written)))


_M = "SimTKcommon/Simulation/include/SimTKcommon/internal/MeasureImplementation.h"
_X = "Simbody/src/ExponentialSpringForce.cpp"
MUTATIONS = [
    dict(name="Differentiate forgets to mark its result realized", arm=True, file=_M,
         old="        subsys.markDiscreteVarUpdateValueRealized(s,resultIx);", new="        ;", expect="PAIRCALL:Measure_::Differentiate::Implementation::ensureDerivativeIsRealized:resultIx"),
    dict(name="Extreme marks the flag slot twice instead of the extreme slot", file=_M,
         old="        subsys.markDiscreteVarUpdateValueRealized(s,extremeIx);", new="        subsys.markDiscreteVarUpdateValueRealized(s,isNewExtremeIx);", expect=":extremeIx"),
    dict(name="Delay buffer update not marked", file=_M,
         old="        subsys.markDiscreteVarUpdateValueRealized(s,m_bufferIx);", new="        ;", expect=":m_bufferIx"),
]
