"""C23 -- Measures compute what their definitions say (bookkeeping clause).

PAIRCALL: a value written into an auto-update variable's update slot becomes
the variable only if it was marked realized -- on all paths, same index; the
'already realized' early-return tests the same index; the measure's realize
hook reaches the update, and its getter reads the slot that was written."""
from ..facts import extract, extract_split, units_matching, Program, AnalysisBroken, sx_find, sx_str
from ..match import ev_write, is_call, call_args, call_obj, field_of, var_of, guard_blocks, value_sets, expand_locals, known_edges, only_via

UNITS_QUICK = r"SimTKcommon/Simulation/src/Measure\.cpp$"
UNITS_MORE = r"Simbody/src/(ExponentialSpringForce|CablePath|CableSpan|ContactTrackerSubsystem)\.cpp$"
HDR = r"internal/MeasureImplementation\.h$|/Simbody/src/.*\.h$"
UPD, MARK, ISR, GET = "updDiscreteVarUpdateValue", "markDiscreteVarUpdateValueRealized", "isDiscreteVarUpdateValueRealized", "getDiscreteVarUpdateValue"


# functions that use an update slot only to (re)build its structure; the values are produced later by the ensure.../realize functions
INITIALISERS = {
    "SimTK::CablePath::Impl::realizeInstance": "sizes and initial guesses of the path entries at Instance stage; nothing is marked realized on purpose",
    "SimTK::CablePath::Impl::handleEvents": "event handler rewrites the entries' structure and copies them into the variables itself",
}


def is_wrapper(f):
    """small accessor whose returned reference is the update slot"""
    if len(list(f.calls())) > 5 or len(f.ret_events()) != 1:
        return False
    rv = f.ret_events()[0][2]["val"]
    if rv is None:
        return False
    if sx_find(rv, lambda y: y[0] in ("call", "dcall") and str(y[1]).endswith(UPD)):
        return True
    v = var_of(rv)
    for _, _, d in f.events(lambda d: d["k"] == "decl" and d["var"] == v and d["init"] is not None):
        if sx_find(d["init"], lambda y: y[0] in ("call", "dcall") and str(y[1]).endswith(UPD)):
            return True
    return False


def short(e):
    return str(e.get("fn", "")).split("::")[-1]


def idx_of(e):
    """canonical name of the index argument (last argument): member field or variable"""
    a = call_args(e)
    if not a:
        return None
    x = a[-1]
    f = field_of(x)
    if f:
        return f.split("::")[-1]
    v = var_of(x)
    if v:
        return v
    d = sx_find(x, lambda y: y[0] in ("dmem", "mem", "var"))
    return str(d[0][-1]).split("::")[-1] if d else sx_str(x)


def run(chk, tier, overlays=()):
    units = units_matching(UNITS_QUICK) + (units_matching(UNITS_MORE))
    P = Program(extract(units, hdr=HDR, overlays=overlays))
    chk.units += units
    chk.nfunctions += len(P.fns)
    chk.rule("PAIRCALL", "every updDiscreteVarUpdateValue(s, ix) is followed on every path to the function's normal exit by markDiscreteVarUpdateValueRealized(s, ix) with the "
             "same index; an `already realized` early return tests isDiscreteVarUpdateValueRealized with that index; measures' realizeMeasureAccelerationVirtual reaches the "
             "update and getUncachedValueVirtual reads an index that the update wrote")
    n = 0
    for f in sorted(P.all_fns(), key=lambda f: f.id):
        upds = [(b, i, e) for b, i, e in f.calls() if short(e) == UPD]
        if not upds:
            continue
        # accessor wrappers (updNextActiveContacts, updPosEntry ...) just return the slot: their callers are examined instead
        if is_wrapper(f):
            wrap = f
            for g in P.all_fns():
                for b, i, e in g.calls():
                    if e.get("fid") == wrap.id:
                        if g.name in INITIALISERS:
                            chk.ok("PAIRCALL", "%s:%s:initialiser" % (g.name.replace("SimTK::", ""), idx_of(upds[0][2])), "%s:%d" % (g.file, e["line"]), INITIALISERS[g.name])
                            continue
                        n += judge_site(chk, P, g, b, i, e, idx_of(upds[0][2]), via=wrap.name.split("::")[-1])
            continue
        for b, i, e in upds:
            n += judge_site(chk, P, f, b, i, e, idx_of(e))
    measures(chk, P)
    definitions(chk, P)
    depstage(chk, P)
    condalloc(chk, P)
    chk.floor("PAIRCALL", 11)


# ----------------------------------------------------------------- DEFN
MI = "SimTK::Measure_::"
ARITH = {"Plus": ("+", ("left", "right")), "Minus": ("-", ("left", "right")), "Scale": ("*", ("factor", "operand"))}
EXTREME_CMP = {"Maximum": (">", False), "Minimum": ("<", False), "MaxAbs": (">", True), "MinAbs": ("<", True)}
EXTREME_INIT = {"Minimum": "+inf", "Maximum": "-inf", "MinAbs": "+inf", "MaxAbs": "0"}


def condalloc(chk, P):
    chk.rule("CONDALLOC", "a state resource (auto-update variable / cache entry index) that a measure allocates only under a flag of its own (Differentiate: resultIx under "
             "isApproxInUse) is used only where that flag is known to hold: in the using method itself, or -- for a non-virtual helper -- at every call site of the helper; "
             "otherwise the invalid index is handed to the State")
    byc = {}
    for f in P.all_fns():
        if "Measure_" in f.name and "::Implementation::" in f.name and f.d.get("tmpl") == "pattern":
            byc.setdefault(f.cls, []).append(f)
    n = 0
    for c, fs in sorted(byc.items()):
        short = c.replace("SimTK::Measure_::", "").replace("::Implementation", "")
        cond = _cond_flags(fs)
        for fld, flag in sorted(cond.items()):
            isflag = lambda c_, flag=flag: isinstance(c_, list) and c_[0] in ("mem", "dmem") and _memname_any(c_) == flag

            def guarded(f, b):
                edges = known_edges(f, isflag, lambda c_: False)
                return bool(edges) and only_via(f, b, edges)

            def uses(f):
                out = []
                for b, i, e in f.events():
                    for x in (e.get("x"), e.get("init"), e.get("rhs"), e.get("val")):
                        if x is not None and sx_find(x, lambda y: y[0] in ("mem", "dmem") and _memname_any(y) == fld):
                            if not (ev_write(e) and _memname_any(ev_write(e)[0]) == fld):
                                out.append((b, e))
                                break
                return out
            for f in sorted(fs, key=lambda f: f.id):
                us = uses(f)
                if not us or f.kind in ("ctor", "copyctor"):
                    continue
                nm = f.name.split("::")[-1]
                unguarded = [e for b, e in us if not guarded(f, b)]
                if not unguarded:
                    n += 1
                    chk.ok("CONDALLOC", "%s:%s:%s-used-under-%s" % (short, nm, fld, flag), f.loc, "every use of %s is on the %s side" % (fld, flag))
                    continue
                # a helper: every call site must be guarded (virtual entry points have unknown callers and cannot rely on this)
                sites = [(g, b, e) for g in fs for b, _, e in g.calls() if str(e.get("fn", "")).split("::")[-1] == nm and g is not f] + \
                        [(g, b, e) for g in fs for b, _, e in g.events(lambda q: q["k"] == "call" and isinstance(q.get("x"), list) and q["x"][0] == "dcall" and str(q["x"][1]).split("::")[-1] == nm) if g is not f]
                sites = list({id(x[2]): x for x in sites}.values())
                virt = bool(f.d.get("virtual")) or nm.endswith("Virtual")
                n += 1
                bad = [(g, e) for g, b, e in sites if not guarded(g, b)]
                chk.judge(bool(sites) and not virt and not bad, "CONDALLOC", "%s:%s:%s-used-under-%s" % (short, nm, fld, flag), "%s:%d" % (f.file, unguarded[0]["line"]),
                          "%s uses %s without testing %s, and %s" % (nm, fld, flag, ("it is a virtual entry point" if virt else "its call site in %s is not under %s either" %
                                                                     (bad[0][0].name.split("::")[-1] if bad else "?", flag))))
    chk.shape(n >= 3, "CONDALLOC", "conditionally-allocated-resources", "", "%d (method, resource) pairs examined" % n)


def _cond_flags(fs):
    """{resource field: flag field} for index members that a class assigns from an allocate... call only where a bool member of its own is known to hold"""
    cond = {}
    for f in fs:
        for b, i, e in f.events(lambda q: bool(ev_write(q)) and ev_write(q)[1] == "=" and isinstance(ev_write(q)[2], list) and
                                bool(sx_find(ev_write(q)[2], lambda y: y[0] in ("call", "dcall") and str(y[1]).split("::")[-1].startswith("allocate")))):
            fld = _memname_any(ev_write(e)[0])
            if not fld:
                continue
            for flag in _bool_fields(f):
                edges = known_edges(f, lambda c_, flag=flag: _memname_any(c_) == flag and isinstance(c_, list) and c_[0] in ("mem", "dmem"), lambda c_: False)
                if edges and only_via(f, b, edges):
                    cond[fld] = flag
    return cond


def _memname_any(x):
    if isinstance(x, list) and x and x[0] in ("mem", "dmem"):
        return str(x[2]).split("::")[-1]
    if isinstance(x, list) and x and x[0] in ("cast", "conv") and len(x) > 1:
        return _memname_any(x[2] if x[0] == "cast" else x[1])
    return None


def _bool_fields(f):
    out = set()
    for b, blk in f.blocks.items():
        t = blk.get("term")
        if t and isinstance(t.get("cond"), list):
            for y in sx_find(t["cond"], lambda y: y[0] in ("mem", "dmem")):
                out.add(str(y[2]).split("::")[-1])
    return out


def depstage(chk, P):
    chk.rule("DEPSTAGE", "a composite measure depends on every operand it reads: each operand measure whose value is read by calcCachedValueVirtual / getUncachedValueVirtual "
             "contributes its getDependsOnStage(...) to the class's getDependsOnStageVirtual -- otherwise the value's cache entry is allocated at too early a stage and is never "
             "invalidated when that operand changes")
    byc = {}
    for f in P.all_fns():
        if "Measure_" in f.name and "::Implementation::" in f.name and f.d.get("tmpl") == "pattern":
            byc.setdefault(f.cls, []).append(f)
    n = 0
    for c, fs in sorted(byc.items()):
        dep = [f for f in fs if f.name.endswith("::getDependsOnStageVirtual")]
        if not dep:
            continue
        d = dep[0]

        def operands(f, names):
            out = set()
            for _, _, e in f.events():
                for x in (e.get("x"), e.get("val"), e.get("init"), e.get("rhs")):
                    for y in sx_find(x, lambda y: y[0] in ("dcall", "call") and str(y[1]).split("::")[-1] in names):
                        if isinstance(y[2], list):
                            out.add(sx_str(y[2]))
            return out
        depops = operands(d, ("getDependsOnStage",))
        short = c.replace("SimTK::Measure_::", "").replace("::Implementation", "")
        for f in sorted(fs, key=lambda f: f.id):
            nm = f.name.split("::")[-1]
            if nm not in ("calcCachedValueVirtual", "getUncachedValueVirtual"):
                continue
            for op in sorted(operands(f, ("getValue", "getUncachedValue"))):
                n += 1
                chk.judge(op in depops, "DEPSTAGE", "%s:%s reads %s" % (short, nm, op.replace("this.", "")), f.loc,
                          "%s reads the value of operand %s, but getDependsOnStageVirtual takes its stage only from %s" % (nm, op, sorted(depops)))
    chk.shape(n >= 6, "DEPSTAGE", "operand-reads>=6", "", "%d (value routine, operand) pairs" % n)


def _is_operation(x):
    return isinstance(x, list) and len(x) == 3 and x[0] == "mem" and x[2].endswith("::operation")


def definitions(chk, P):
    chk.rule("DEFN", "the routing each built-in measure's definition prescribes (what is combined with what, never the values): Plus / Minus / Scale combine their own "
             "operands' values of the requested derivative order with +, -, *; Integrate's zdot is its DERIVATIVE measure, its initial z its INITIAL-CONDITION measure (or the "
             "default), its value the z it allocated and its k-th derivative the derivative measure's (k-1)-th, all at zIndex+i; Extreme compares (new, old) with the operator "
             "of its operation (> / < on values or on absolute values), every operation having its own comparison, starts from the neutral element of that operation and keeps the "
             "new value exactly when it is a new extreme; Delay evaluates its buffer at time - delay")
    last = lambda n: str(n).split("::")[-1]

    def fn(cls, name):
        fs = P.fns_named(MI + cls + "::Implementation::" + name)
        chk.require(bool(fs), "anchor vanished: Measure_<T>::%s::Implementation::%s" % (cls, name))
        return fs[0] if fs else None

    def member(x):
        ms = sx_find(x, lambda y: y[0] == "mem" and y[1] == ["this"])
        return last(ms[0][2]) if ms else None
    # arithmetic
    for cls, (op, (a, b)) in sorted(ARITH.items()):
        f = fn(cls, "calcCachedValueVirtual")
        if not f:
            continue
        ps = [p_[0] for p_ in f.d["params"]]
        asg = [e for _, _, e in f.events(lambda e: e["k"] == "assign" and var_of(e["lhs"]) == ps[2])]
        rhs = expand_locals(f, asg[0]["rhs"]) if len(asg) == 1 else None      # (operand values may be held in named locals)
        ok = len(asg) == 1 and isinstance(rhs, list) and rhs[0] in ("opc", "op") and rhs[1] == op and len(rhs) == 4
        det = "value = %s" % (sx_str(rhs)[:90] if asg else None)
        if ok:
            l, r = rhs[2], rhs[3]
            ok = member(l) == a and member(r) == b
            for x in (l, r):
                c = sx_find(x, lambda y: y[0] in ("dcall", "call") and last(y[1]) == "getValue")
                if c:
                    ok = ok and [var_of(z) for z in c[0][3]] == ps[:2]
                elif not (cls == "Scale" and member(x) == "factor"):
                    ok = False
        chk.judge(ok, "DEFN", "%s:value=%s %s %s" % (cls, a, op, b), f.loc, det)
    # Integrate
    f = fn("Integrate", "realizeMeasureAccelerationVirtual")
    if f:
        decls = {d["var"]: d for _, _, d in f.events(lambda d: d["k"] == "decl")}
        w = [e for _, _, e in f.events(lambda e: e["k"] == "assign" and isinstance(e["lhs"], list) and e["lhs"][0] == "opc" and e["lhs"][1] == "[]")]
        ok = len(w) == 1
        if ok:
            tgt = var_of(w[0]["lhs"][2])
            ok = tgt in decls and bool(sx_find(decls[tgt]["init"], lambda y: y[0] in ("call", "dcall") and last(y[1]) == "updZDot")) and \
                bool(sx_find(w[0]["lhs"][3], lambda y: y[0] == "mem" and last(y[2]) == "zIndex"))
            srcv = [y[1] for y in sx_find(w[0]["rhs"], lambda y: y[0] == "var") if y[1] in decls and decls[y[1]].get("init") is not None and
                    sx_find(decls[y[1]]["init"], lambda z: z[0] in ("call", "dcall") and last(z[1]) == "getValue")]
            ok = ok and len(srcv) == 1 and member(decls[srcv[0]]["init"]) == "derivMeasure"
        chk.judge(ok, "DEFN", "Integrate:zdot[zIndex+i]<-derivMeasure", f.loc, "the integrand written to zdot is the derivative measure's value (not the initial-condition measure)")
    f = fn("Integrate", "initializeVirtual")
    if f:
        decls = {d["var"]: d for _, _, d in f.events(lambda d: d["k"] == "decl")}
        w = [e for _, _, e in f.events(lambda e: e["k"] == "assign" and isinstance(e["lhs"], list) and e["lhs"][0] == "opc" and e["lhs"][1] == "[]")]
        srcs = set()
        okz = True
        for e in w:
            tgt = var_of(e["lhs"][2])
            okz = okz and tgt in decls and bool(sx_find(decls[tgt]["init"], lambda y: y[0] in ("call", "dcall") and last(y[1]) == "updZ")) and \
                bool(sx_find(e["lhs"][3], lambda y: y[0] == "mem" and last(y[2]) == "zIndex"))
            vs = [y[1] for y in sx_find(e["rhs"], lambda y: y[0] == "var") if y[1] in decls and decls[y[1]].get("init") is not None]
            for v in vs:
                if v != tgt and member(decls[v]["init"]):
                    srcs.add(member(decls[v]["init"]))
            if sx_find(e["rhs"], lambda y: y[0] in ("call", "dcall") and last(y[1]) == "getDefaultValue"):
                srcs.add("default")
        chk.judge(len(w) == 2 and okz and srcs == {"icMeasure", "default"}, "DEFN", "Integrate:z0<-icMeasure-or-default", f.loc, "initial z comes from %s" % sorted(str(x) for x in srcs))
    f = fn("Integrate", "getUncachedValueVirtual")
    if f:
        r = [e for _, _, e in f.events(lambda e: e["k"] == "ret")]
        ps = [p_[0] for p_ in f.d["params"]]
        ok = len(r) == 1
        if ok:
            c = sx_find(r[0]["val"], lambda y: y[0] in ("call", "dcall") and last(y[1]) == "getValue")
            ok = bool(c) and bool(sx_find(c[0][2], lambda y: y[0] in ("call", "dcall") and last(y[1]) == "getDerivativeMeasure")) and len(c[0][3]) == 2 and \
                var_of(c[0][3][0]) == ps[0] and c[0][3][1] == ["op", "-", ["var", ps[1]], ["lit", "1"]]
        chk.judge(ok, "DEFN", "Integrate:derivative(k)=derivMeasure(k-1)", f.loc, "returns %s" % (sx_str(r[0]["val"]) if r else None))
    f = fn("Integrate", "calcCachedValueVirtual")
    if f:
        decls = {d["var"]: d for _, _, d in f.events(lambda d: d["k"] == "decl")}
        w = [e for _, _, e in f.events(lambda e: e["k"] == "assign" and e.get("rhs") is not None and bool(sx_find(e["rhs"], lambda y: y[0] == "mem" and last(y[2]) == "zIndex")))]
        ok = len(w) == 1
        if ok:
            zs = [y[1] for y in sx_find(w[0]["rhs"], lambda y: y[0] == "var") if y[1] in decls and decls[y[1]].get("init") is not None and
                  sx_find(decls[y[1]]["init"], lambda z: z[0] in ("call", "dcall") and last(z[1]) == "getZ")]
            ok = len(zs) == 1
        chk.judge(ok, "DEFN", "Integrate:value<-z[zIndex+i]", f.loc, "the value is read from the z's the measure allocated")
    # Extreme
    f = fn("Extreme", "isNewExtreme")
    if f:
        ps = [p_[0] for p_ in f.d["params"]]
        # the operation under which each block executes: value-set analysis of the `operation` member (a switch and an if / else-if chain are read alike)
        vs = value_sets(f, _is_operation, set(EXTREME_CMP))
        rets = [(b, e) for b, _, e in f.events(lambda e: e["k"] == "ret") if len(vs[b]) == 1]
        have = sorted(next(iter(vs[b])) for b, e in rets)
        chk.judge(have == sorted(EXTREME_CMP), "DEFN", "Extreme:isNewExtreme:covers-every-operation", f.loc, "operations with their own return: %s" % have)
        for b, r0 in sorted(rets, key=lambda x: x[1]["line"]):
            opn = next(iter(vs[b]))
            op, absd = EXTREME_CMP[opn]
            r = [r0]
            ok = isinstance(r[0]["val"], list) and r[0]["val"][0] in ("opc", "op") and r[0]["val"][1] == op
            if ok:
                l, rr = r[0]["val"][2], r[0]["val"][3]
                isabs = lambda x: isinstance(x, list) and x[0] in ("dcall", "call") and last(x[1]) == "abs"
                ok = (isabs(l) and isabs(rr)) == absd and [y[1] for y in sx_find(l, lambda y: y[0] == "var")] == [ps[0]] and [y[1] for y in sx_find(rr, lambda y: y[0] == "var")] == [ps[1]]
            chk.judge(ok, "DEFN", "Extreme:%s:new %s old%s" % (opn, op, " (absolute values)" if absd else ""), "%s:%d" % (f.file, r[0]["line"]),
                      "returns %s" % sx_str(r[0]["val"]))
    f = fn("Extreme", "extremeOf")
    if f:
        r = [e for _, _, e in f.events(lambda e: e["k"] == "ret")]
        ps = [p_[0] for p_ in f.d["params"]]
        ok = len(r) == 1 and isinstance(r[0]["val"], list) and r[0]["val"][0] == "cond"
        if ok:
            c = r[0]["val"]
            ok = bool(sx_find(c[1], lambda y: y[0] in ("call", "dcall") and last(y[1]) == "isNewExtreme" and [var_of(z) for z in y[3]] == ps)) and var_of(c[2]) == ps[0] and var_of(c[3]) == ps[1]
        chk.judge(ok, "DEFN", "Extreme:extremeOf=isNew?new:old", f.loc, "returns %s" % (sx_str(r[0]["val"]) if r else None))
    f = fn("Extreme", "realizeMeasureTopologyVirtual")
    if f:
        got = {}
        vs = value_sets(f, _is_operation, set(EXTREME_INIT))
        for b, blk in f.blocks.items():
            if len(vs[b]) != 1:
                continue
            opn = next(iter(vs[b]))
            for e in blk["ev"]:
                if e["k"] == "assign" or (e["k"] == "call" and e.get("op") == "="):
                    x = e.get("rhs") if e["k"] == "assign" else e["x"][3]
                    neg = bool(sx_find(x, lambda y: (y[0] == "un" and y[1] == "-") or (y[0] == "opc" and y[1] == "-" and len(y) == 3)))
                    inf = bool(sx_find(x, lambda y: y[0] == "gvar" and last(y[1]) == "Infinity"))
                    zero = bool(sx_find(x, lambda y: y[0] == "lit" and y[1] in ("0", "0.0")))
                    got[opn] = ("-inf" if neg else "+inf") if inf else ("0" if zero else sx_str(x))
        chk.judge(got == EXTREME_INIT, "DEFN", "Extreme:initial-value-is-neutral-element", f.loc, "initial values %s (required %s)" % (got, EXTREME_INIT))
    # Delay
    f = fn("Delay", "calcCachedValueVirtual")
    if f:
        cs = [e for _, _, e in f.calls() if last(e.get("fn", "")).startswith("calcValueAtTime")]
        ok = len(cs) == 1
        if ok:
            a = call_args(cs[0])[0]
            ok = isinstance(a, list) and a[0] in ("op", "opc") and a[1] == "-" and bool(sx_find(a[2], lambda y: y[0] in ("call", "dcall") and last(y[1]) == "getTime")) and \
                bool(sx_find(a[3], lambda y: y[0] == "mem" and last(y[2]) == "m_delay"))
        chk.judge(ok, "DEFN", "Delay:value=buffer(time - delay)", f.loc, "the buffer is evaluated at %s" % (sx_str(call_args(cs[0])[0]) if cs else None))
    chk.floor("DEFN", 12)


def marks_index(P, q, ix, depth=1):
    if q["k"] != "call":
        return False
    if short(q) == MARK and idx_of(q) == ix:
        return True
    if depth > 0 and q.get("fid"):
        for g in P.by_id.get(q["fid"], []):
            if len(list(g.calls())) <= 4 and any(short(e) == MARK and idx_of(e) == ix for _, _, e in g.calls()):
                return True
    return False


def judge_site(chk, P, f, b, i, e, ix, via=None):
    site = "%s:%d" % (f.file, e["line"])
    inst = "%s:%s%s" % (f.name.replace("SimTK::", ""), ix, (":via-" + via) if via else "")
    p = f.path_exists((b, i), "exit", lambda q: marks_index(P, q, ix))
    if p is not None:
        # helper that fills the slot for its caller: then every caller must mark after the call (one level)
        callers = [(g, bb, ii, ee) for g in P.all_fns() for bb, ii, ee in g.calls() if ee.get("fid") == f.id and g is not f]
        if callers and all(g.path_exists((bb, ii), "exit", lambda q: marks_index(P, q, ix)) is None for g, bb, ii, ee in callers):
            chk.ok("PAIRCALL", inst + ":upd->mark-in-caller", site, "marked by every caller (%s)" % sorted(set(g.name.split("::")[-1] for g, _, _, _ in callers)))
            return 1
    chk.judge(p is None, "PAIRCALL", inst + ":upd->mark", site, "update value of %s is written but not marked realized on some path: the auto-update swap would skip it" % ix, p)
    # early-return guard on the same index (if the function has such a guard at all)
    guards = [(bb, blk["term"]["cond"]) for bb, blk in f.blocks.items() if blk.get("term") and blk["term"].get("cond") and
              sx_find(blk["term"]["cond"], lambda y: y[0] in ("call", "dcall") and str(y[1]).endswith(ISR))]
    for bb, c in guards:
        calls = sx_find(c, lambda y: y[0] in ("call", "dcall") and str(y[1]).endswith(ISR))
        gi = None
        for cc in calls:
            x = cc[3][-1] if cc[3] else None
            gi = (field_of(x) or "").split("::")[-1] or var_of(x) or (str(sx_find(x, lambda y: y[0] in ("dmem", "mem", "var"))[0][-1]).split("::")[-1] if sx_find(x, lambda y: y[0] in ("dmem", "mem", "var")) else None)
        if f.dominates((bb, 10 ** 6), (b, i)) or bb in f.dominators().get(b, ()):
            chk.judge(gi == ix or gi in indices_updated(f), "PAIRCALL", inst + ":guard-same-index", site,
                      "the `already realized` test looks at %s but the function computes %s" % (gi, ix))
    return 1


def indices_updated(f):
    return {idx_of(e) for _, _, e in f.calls() if short(e) == UPD}


def measures(chk, P):
    impls = [c for c in P.classes if c.startswith("SimTK::Measure_") and c.endswith("::Implementation") and ("Differentiate" in c or "Extreme" in c or "Delay" in c)]
    chk.shape(len(impls) >= 3, "PAIRCALL", "measures-found", "", "Differentiate, Extreme and Delay implementations found: %s" % [c.split("::")[-2] for c in impls])
    for c in sorted(impls):
        ms = P.methods_of(c)
        upd_f = [f for f in ms if any(short(e) == UPD for _, _, e in f.calls())]
        rz = [f for f in ms if f.name.endswith("::realizeMeasureAccelerationVirtual")]
        gv = [f for f in ms if f.name.endswith("::getUncachedValueVirtual")]
        nm = c.split("::")[-2]
        if not upd_f:
            continue
        reach = False
        for r in rz:
            if r in upd_f:
                reach = True
            for _, _, e in r.calls():
                if any(str(e.get("fn", "")).split("::")[-1] == u.name.split("::")[-1] for u in upd_f):
                    # the update may be skipped only where the auto-update variable does not exist: on edges where the flag under which it is allocated
                    # (CONDALLOC) is known false
                    flags = set(_cond_flags([g for g in P.all_fns() if g.cls == r.cls]).values())
                    off = set()
                    for fl in flags:
                        off |= known_edges(r, lambda c_: False, lambda c_, fl=fl: isinstance(c_, list) and c_[0] in ("mem", "dmem") and _memname_any(c_) == fl)
                    p = r.path_exists(None, "exit", lambda q, e=e: q is e, avoid_edges=off)
                    reach = reach or p is None
        chk.judge(bool(rz) and reach, "PAIRCALL", nm + ":realizeAcceleration->update", rz[0].loc if rz else "",
                  "the Acceleration-stage hook computes the update value on every path on which the auto-update variable exists")
        written = set()
        for u in upd_f:
            written |= indices_updated(u)
        for g in gv:
            reads = {idx_of(e) for _, _, e in g.calls() if short(e) == GET}
            if reads:
                chk.judge(reads <= written, "PAIRCALL", nm + ":getter-reads-written-slot", g.loc, "getter reads update slots %s; the update functions write %s" % (sorted(reads), sorted(written)))


_M = "SimTKcommon/Simulation/include/SimTKcommon/internal/MeasureImplementation.h"
_X = "Simbody/src/ExponentialSpringForce.cpp"
_MI = "SimTKcommon/Simulation/include/SimTKcommon/internal/MeasureImplementation.h"
MUTATIONS = [
    dict(name="Differentiate realizes its approximation even when none is in use (pre-fix code)", arm=True, file="SimTKcommon/Simulation/include/SimTKcommon/internal/MeasureImplementation.h",
         old="        if (isApproxInUse)\n            ensureDerivativeIsRealized(s);", new="        ensureDerivativeIsRealized(s);", expect="CONDALLOC:Differentiate:ensureDerivativeIsRealized"),
    dict(name="seeded (sub-agent): Minus takes its depends-on stage from the left operand twice", arm=True, file="SimTKcommon/Simulation/include/SimTKcommon/internal/MeasureImplementation.h",
         old="    {   return Stage(std::max(left.getDependsOnStage(order),\n                              right.getDependsOnStage(order))); }", occurrence=1,
         new="    {   return Stage(std::max(left.getDependsOnStage(order),\n                              left.getDependsOnStage(order))); }", expect="DEPSTAGE:Minus:calcCachedValueVirtual reads right"),
    dict(name="Integrate integrates its initial-condition measure instead of its derivative measure", arm=True, file=_MI,
         old="            const T& deriv = derivMeasure.getValue(s);\n             for (int i=0; i < this->size(); ++i)", new="            const T& deriv = icMeasure.getValue(s);\n             for (int i=0; i < this->size(); ++i)",
         expect="DEFN:Integrate:zdot"),
    dict(name="Measure::Minus adds its operands (copy-paste from Plus)", file=_MI,
         old="        value = left.getValue(s,derivOrder) - right.getValue(s,derivOrder);", new="        value = left.getValue(s,derivOrder) + right.getValue(s,derivOrder);", expect="DEFN:Minus"),
    dict(name="MinAbs compares raw values", file=_MI,
         old="        case Extreme::MinAbs: return std::abs(newVal) < std::abs(oldExtreme);", new="        case Extreme::MinAbs: return newVal < oldExtreme;", expect="DEFN:Extreme:MinAbs"),
    dict(name="Maximum starts from +Infinity", file=_MI,
         old="        case Maximum: initVal = -Infinity; break;", new="        case Maximum: initVal = Infinity; break;", expect="DEFN:Extreme:initial-value"),
    dict(name="Delay evaluates its buffer at time + delay", file=_MI,
         old="        buffer.calcValueAtTimeLinearOnly(s.getTime()-m_delay, value);", new="        buffer.calcValueAtTimeLinearOnly(s.getTime()+m_delay, value);", expect="DEFN:Delay"),
    dict(name="Differentiate forgets to mark its result realized", arm=True, file=_M,
         old="        subsys.markDiscreteVarUpdateValueRealized(s,resultIx);", new="        ;", expect="PAIRCALL:Measure_::Differentiate::Implementation::ensureDerivativeIsRealized:resultIx"),
    dict(name="Extreme marks the flag slot twice instead of the extreme slot", file=_M,
         old="        subsys.markDiscreteVarUpdateValueRealized(s,extremeIx);", new="        subsys.markDiscreteVarUpdateValueRealized(s,isNewExtremeIx);", expect=":extremeIx"),
    dict(name="Delay buffer update not marked", file=_M,
         old="        subsys.markDiscreteVarUpdateValueRealized(s,m_bufferIx);", new="        ;", expect=":m_bufferIx"),
]
