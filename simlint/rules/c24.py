"""C24 -- Matrix factorizations solve what they claim (LAPACK interface clause).

CLONE: the float/double (and complex<float>/complex<double>) specialisations of
every LapackInterface wrapper make the same LAPACK calls with the same argument
expressions modulo the routine prefix; REACHDEF: every non-query `lwork` is the
result of a `-1` workspace query to the same routine and the workspace passed
was sized with it."""
import re

from ..facts import extract, units_matching, Program, AnalysisBroken, sx_find, sx_str
from ..match import ev_write, is_call, call_args, call_obj, field_of, var_of
from .c18 import _is_lit

UNITS = r"SimTKmath/LinearAlgebra/src/LapackInterface\.cpp$"
LI = "SimTK::LapackInterface"
LAPACK = re.compile(r"^[sdcz][a-z0-9]+_$")
# real routines whose complex counterpart has a different LAPACK name
SYNONYM = {"syev": "heev", "syevx": "heevx", "sytrf": "hetrf", "sytrs": "hetrs", "ormqr": "unmqr", "ormrz": "unmrz", "orgqr": "ungqr", "dot": "dotc", "nrm2": "nrm2"}


CLONE_EXEMPT = {"lange": "the float versions deliberately copy into a double matrix and call the double routine (g77/gfortran REAL return-type issue, documented in the source)"}


def first_var(x):
    v = sx_find(x, lambda y: y[0] == "var")
    return v[0][1] if v else None


def kind(f):
    sig = " ".join(p[1] for p in f.d["params"]) + " " + f.id
    if "complex<float>" in sig:
        return "c"
    if "complex<double>" in sig:
        return "z"
    if re.search(r"\bfloat\b", sig):
        return "s"
    if re.search(r"\bdouble\b", sig):
        return "d"
    return "?"


def norm(x):
    s = sx_str(x)
    s = re.sub(r"\b(float|double)\b", "T", s)
    s = re.sub(r"\b[sdcz]([a-z0-9]+_)\b", r"X\1", s)
    s = re.sub(r'"[sdcz]([a-z0-9]+)"', r'"X\1"', s)
    return s


def trace(f):
    out = []
    for b, i, e in f.events(lambda e: e["k"] == "call" and LAPACK.match(str(e.get("fn", "")))):
        out.append((e["fn"][1:], [norm(a) for a in call_args(e)], e))
    return out


def run(chk, tier, overlays=()):
    units = units_matching(UNITS)
    P = Program(extract(units, hdr=r"LinearAlgebra/src/.*\.h$", overlays=overlays))
    chk.units += units
    chk.nfunctions += len(P.fns)
    fams = {}
    for f in P.all_fns():
        if f.cls == LI and f.d["tmpl"] != "pattern":
            fams.setdefault(f.name, {}).setdefault(kind(f), []).append(f)
    chk.require(len(fams) >= 20, "only %d LapackInterface wrapper families found" % len(fams))
    clone(chk, fams)
    workspace(chk, fams)
    chk.floor("CLONE", 30)
    chk.floor("REACHDEF", 40)
    chk.assumptions += ["everything in Factor*.cpp / Eigen.cpp (rank logic, residuals) is numerical and not decided"]


def clone(chk, fams):
    chk.rule("CLONE", "for each LapackInterface wrapper the float and double specialisations (and the two complex ones) issue the same sequence of LAPACK calls with "
             "structurally identical argument expressions modulo the routine prefix and element type: an argument or workspace mistake in one type breaks that element type only")
    for name, ks in sorted(fams.items()):
        short = name.split("::")[-1]
        if short in CLONE_EXEMPT:
            chk.ok("CLONE", short + ":tabled", ks[sorted(ks)[0]][0].loc, CLONE_EXEMPT[short])
            continue
        for a, b in (("s", "d"), ("c", "z")):
            if a in ks and b in ks:
                fa, fb = ks[a][0], ks[b][0]
                ta, tb = trace(fa), trace(fb)
                if not ta and not tb:
                    continue
                diff = None
                if [t[0] for t in ta] != [t[0] for t in tb]:
                    diff = "different LAPACK call sequences %s vs %s" % ([a + t[0] for t in ta], [b + t[0] for t in tb])
                else:
                    for (ra, aa, ea), (rb, ab, eb) in zip(ta, tb):
                        if aa != ab:
                            d = [(x, y) for x, y in zip(aa, ab) if x != y] or [("#args %d" % len(aa), "#args %d" % len(ab))]
                            diff = "%s%s vs %s%s: argument %s vs %s" % (a, ra, b, rb, d[0][0][:60], d[0][1][:60])
                            break
                chk.judge(diff is None, "CLONE", "%s<%s~%s>" % (short, a, b), fa.loc, "specialisations disagree: %s" % diff)
        # real vs complex: same routine stem (modulo tabled synonyms) and same number of calls
        if "d" in ks and "z" in ks:
            td, tz = trace(ks["d"][0]), trace(ks["z"][0])
            if td and tz:
                sd = [SYNONYM.get(t[0][:-1], t[0][:-1]) for t in td]
                sz = [t[0][:-1] for t in tz]
                ok = len(sd) == len(sz) and all(x == y or SYNONYM.get(x) == y or x == SYNONYM.get(y, "") for x, y in zip(sd, sz))
                chk.judge(ok, "CLONE", "%s<d~z>:routines" % short, ks["d"][0].loc, "real and complex versions call corresponding routines: %s vs %s" % (sd, sz))


def workspace(chk, fams):
    chk.rule("REACHDEF", "in every wrapper that does a workspace query: the routine is first called with lwork == -1 and a scratch array; the later call passes, in the same "
             "positions, a TypedWorkSpace constructed with lwork and that lwork, whose only definition is the (real part of the) first element of the query's scratch array "
             "(directly or via getLWork)")
    for name, ks in sorted(fams.items()):
        short = name.split("::")[-1]
        for k, fl in sorted(ks.items()):
            for f in fl:
                tr = trace(f)
                by = {}
                for r, a, e in tr:
                    by.setdefault(r, []).append(e)
                for r, evs in by.items():
                    q = [e for e in evs if any(_is_lit(x, "-1") or sx_str(x) == "-1" for x in call_args(e))]
                    if not q:
                        continue
                    qe = q[0]
                    qa = call_args(qe)
                    pos = [n for n, x in enumerate(qa) if _is_lit(x, "-1") or sx_str(x) == "-1"][0]
                    scratch = first_var(qa[pos - 1])
                    inst = "%s<%s>:%s%s" % (short, k, k, r)
                    site = "%s:%d" % (f.file, qe["line"])
                    real = [e for e in evs if e is not qe and not any(_is_lit(x, "-1") or sx_str(x) == "-1" for x in call_args(e))]
                    chk.judge(len(real) >= 1, "REACHDEF", inst + ":query-then-call", site, "a workspace query is followed by the real call to the same routine")
                    for e in real:
                        a = call_args(e)
                        lw = var_of(a[pos]) if len(a) > pos else None
                        ws = a[pos - 1] if len(a) > pos else None
                        s2 = "%s:%d" % (f.file, e["line"])
                        # lwork's definitions
                        defs = [d for _, _, d in f.events(lambda d: d["k"] == "decl" and d["var"] == lw)]
                        asg = [w for _, _, w in f.events(lambda w: w["k"] == "assign" and var_of(w["lhs"]) == lw)]
                        srcs = [d["init"] for d in defs if d["init"] is not None] + [w["rhs"] for w in asg]
                        ok = bool(srcs) and all(bool(sx_find(x, lambda y: y[0] == "var" and y[1] == scratch)) for x in srcs)
                        chk.judge(lw is not None and ok, "REACHDEF", inst + ":lwork<-query", s2,
                                  "lwork passed to the real call (%s) must be defined only from the query's scratch array %s; definitions: %s" % (lw, scratch, [sx_str(x)[:50] for x in srcs]))
                        wv = first_var(ws) if ws is not None else None
                        wd = [d for _, _, d in f.events(lambda d: d["k"] == "decl" and d["var"] == wv and "TypedWorkSpace" in (d["ty"] or ""))]
                        okw = bool(wd) and bool(sx_find(wd[0]["init"], lambda y: y[0] == "var" and y[1] == lw))
                        if wd and not okw:
                            # query made on the workspace object itself, which is then resized to lwork before the real call
                            rs = [(bb, ii) for bb, ii, r in f.calls() if str(r.get("fn", "")).endswith("::resize") and var_of(call_obj(r)) == wv and var_of(call_args(r)[0]) == lw]
                            pos_e = [(bb, ii) for bb, ii, x in f.events(lambda x, e=e: x is e)]
                            okw = bool(rs) and bool(pos_e) and f.path_exists(None, lambda x, e=e: x is e, lambda x: str(x.get("fn", "")).endswith("::resize") and x["k"] == "call" and var_of(call_obj(x)) == wv) is None
                        chk.judge(okw, "REACHDEF", inst + ":work-sized-with-lwork", s2, "the workspace passed (%s) is a TypedWorkSpace constructed with %s" % (wv, lw))
                        # the query precedes the real call
                        p = f.path_exists(None, lambda x, e=e: x is e, lambda x: x is qe)
                        chk.judge(p is None, "REACHDEF", inst + ":query-dominates", s2, "the query precedes the real call on every path", p)


_L = "SimTKmath/LinearAlgebra/src/LapackInterface.cpp"
MUTATIONS = [
    dict(name="float gelss workspace sized from a constant", arm=True, file=_L,
         old="    int lwork = (int)wsize[0];\n    TypedWorkSpace<float> work(lwork);\n\n    sgelss_", new="    int lwork = 3*mn + 64;\n    TypedWorkSpace<float> work(lwork);\n\n    sgelss_",
         expect="REACHDEF:gelss<s>:sgelss_:lwork<-query"),
    dict(name="double gelss passes ldb where lda belongs", arm=True, file=_L,
         old="    dgelss_(m, n, nrhs, a, lda, b, ldb, s, rcond, rank, work.data, lwork, info );", new="    dgelss_(m, n, nrhs, a, ldb, b, ldb, s, rcond, rank, work.data, lwork, info );",
         expect="CLONE:gelss<s~d>"),
    dict(name="complex<double> syev workspace not sized with lwork", file=_L,
         old="    int lwork = (int)wsize[0].real();\n    TypedWorkSpace<std::complex<double> > work(lwork);\n    zheev_", new="    int lwork = (int)wsize[0].real();\n    TypedWorkSpace<std::complex<double> > work(n);\n    zheev_",
         expect="work-sized-with-lwork"),
]
