"""C24 -- Matrix factorizations solve what they claim (LAPACK interface clause).

CLONE: the float/double (and complex<float>/complex<double>) specialisations of
every LapackInterface wrapper make the same LAPACK calls with the same argument
expressions modulo the routine prefix; REACHDEF: every non-query `lwork` is the
result of a `-1` workspace query to the same routine and the workspace passed
was sized with it."""
import re

from ..facts import extract, units_matching, Program, AnalysisBroken, sx_find, sx_str
from ..match import ev_write, is_call, call_args, call_obj, field_of, var_of, known_edges, only_via
from .c18 import _is_lit

UNITS = r"SimTKmath/LinearAlgebra/src/LapackInterface\.cpp$"
LI = "SimTK::LapackInterface"
LAPACK = re.compile(r"^[sdcz][a-z0-9]+_$")
# real routines whose complex counterpart has a different LAPACK name
SYNONYM = {"syev": "heev", "syevx": "heevx", "sytrf": "hetrf", "sytrs": "hetrs", "ormqr": "unmqr", "ormrz": "unmrz", "orgqr": "ungqr", "dot": "dotc", "nrm2": "nrm2"}


CLONE_EXEMPT = {"lange": "the float versions deliberately copy into a double matrix and call the double routine (g77/gfortran REAL return-type issue, documented in the source)"}


def first_var(x):
    v = sx_find(x, lambda y: y[0] == "var")
    return v[0][1] if v else None


def kind(f):
    sig = " ".join(p[1] for p in f.d["params"]) + " " + f.id
    if "complex<float>" in sig:
        return "c"
    if "complex<double>" in sig:
        return "z"
    if re.search(r"\bfloat\b", sig):
        return "s"
    if re.search(r"\bdouble\b", sig):
        return "d"
    return "?"


def _alpha(f):
    """parameter and local names of f -> canonical names: parameters by position, locals by what they are (type and initialiser, with
    parameters already canonical) -- sibling specialisations may name and order their locals differently"""
    m = {}
    for n, p_ in enumerate(f.d.get("params", [])):
        if p_[0]:
            m[p_[0]] = "P%d" % n
    decls = sorted((d for _, _, d in f.events(lambda d: d["k"] == "decl") if d["var"] not in m), key=lambda d: (d["line"], d.get("col", 0)))
    pending = list(decls)
    # iterate so that a local initialised from another local gets a stable signature
    for _ in range(4):
        sigs = {}
        for d in pending:
            ty = re.sub(r"\b(float|double)\b", "T", str(d.get("ty", "")))
            init = sx_str(_rename(d["init"], m)) if d.get("init") is not None else ""
            init = re.sub(r"\b(float|double)\b", "T", init)
            sigs.setdefault(ty + "=" + init, []).append(d["var"])
        done = False
        for sig, vs in sorted(sigs.items()):
            unresolved = [v for v in re.findall(r"[A-Za-z_][A-Za-z0-9_]*", sig.split("=", 1)[1]) if v in {d["var"] for d in pending}]
            if unresolved:
                continue
            for k, v in enumerate(vs):
                m[v] = "L[%s]#%d" % (sig, k)
                done = True
        pending = [d for d in pending if d["var"] not in m]
        if not pending or not done:
            break
    for k, d in enumerate(pending):
        m[d["var"]] = "L?%d" % k
    return m


def _rename(x, m):
    if isinstance(x, list):
        if len(x) == 2 and x[0] == "var" and x[1] in m:
            return ["var", m[x[1]]]
        return [_rename(y, m) for y in x]
    return x


def norm(x, m=None):
    s = sx_str(_rename(x, m) if m else x)
    s = re.sub(r"\b(float|double)\b", "T", s)
    s = re.sub(r"\b[sdcz]([a-z0-9]+_)\b", r"X\1", s)
    s = re.sub(r'"[sdcz]([a-z0-9]+)"', r'"X\1"', s)
    return s


def trace(f):
    out = []
    m = _alpha(f)
    for b, i, e in f.events(lambda e: e["k"] == "call" and LAPACK.match(str(e.get("fn", "")))):
        out.append((e["fn"][1:], [norm(a, m) for a in call_args(e)], e))
    return out


def run(chk, tier, overlays=()):
    units = units_matching(UNITS)
    P = Program(extract(units, hdr=r"LinearAlgebra/src/.*\.h$", overlays=overlays))
    chk.units += units
    chk.nfunctions += len(P.fns)
    fams = {}
    for f in P.all_fns():
        if f.cls == LI and f.d["tmpl"] != "pattern":
            fams.setdefault(f.name, {}).setdefault(kind(f), []).append(f)
    chk.require(len(fams) >= 20, "only %d LapackInterface wrapper families found" % len(fams))
    clone(chk, fams)
    workspace(chk, fams)
    callers(chk, P, fams, overlays)
    chk.floor("CLONE", 30)
    chk.floor("REACHDEF", 40)
    chk.floor("OPTCHAR", 16)
    chk.floor("DEFTOL", 3)
    chk.floor("OVERRIDE", 20)
    chk.floor("PRESERVE", 3)
    chk.floor("NEEDFLAG", 5)
    chk.assumptions += ["everything in Factor*.cpp / Eigen.cpp (rank logic, residuals) is numerical and not decided"]


CALLER_UNITS = r"SimTKmath/LinearAlgebra/src/(Factor[A-Za-z]*|Eigen)\.cpp$"
# LAPACK option characters that differ between the real and the complex flavour of a routine (LAPACK documentation):
# xORM.. take TRANS in {N,T}; xUNM.. take TRANS in {N,C} and reject 'T'.  Everything else accepts the same letters in both flavours.
OPT_VALID = {("orm", 1): {78, 84}, ("unm", 1): {78, 67}}     # (routine stem, LAPACK argument position of TRANS)
FIXED_PRECISION = re.compile(r"^SimTK::(SignificantReal|Eps|SqrtEps|TinyReal|LeastPositiveReal|LeastNegativeReal)$")


def _forwarded_options(fams):
    """wrapper name -> {kind: [(param position, routine stem, LAPACK position)]} for `const char&` parameters handed on unchanged"""
    out = {}
    for name, ks in fams.items():
        for k, fl in ks.items():
            f = fl[0]
            chars = {p[0]: n for n, p in enumerate(f.d["params"]) if p[1].replace(" ", "") in ("constchar&", "char")}
            for _, _, e in f.events(lambda e: e["k"] == "call" and LAPACK.match(str(e.get("fn", "")))):
                for pos, a in enumerate(call_args(e)):
                    v = var_of(a)
                    if v in chars:
                        out.setdefault(name, {}).setdefault(k, []).append((chars[v], e["fn"][1:-1], pos))
    return out


def _char_value(P, f, x, depth=3):
    """the character an option argument evaluates to in function f: a literal, a local initialised with one, or the result of a
    (specialised) helper whose every return is one literal; None when it cannot be decided"""
    if isinstance(x, list) and x and x[0] == "lit" and re.match(r"^-?\d+$", str(x[1])):
        return int(x[1])
    if depth <= 0 or not isinstance(x, list) or not x:
        return None
    if x[0] in ("cast", "conv") and len(x) > 2:
        return _char_value(P, f, x[2] if x[0] == "cast" else x[1], depth - 1)
    if x[0] == "var":
        ds = [d for _, _, d in f.events(lambda d: d["k"] == "decl" and d["var"] == x[1])]
        ws = [w for _, _, w in f.events(lambda w: w["k"] == "assign" and var_of(w["lhs"]) == x[1])]
        if len(ds) == 1 and not ws and ds[0].get("init") is not None:
            return _char_value(P, f, ds[0]["init"], depth - 1)
        return None
    if x[0] == "call":
        vals = set()
        for g in P.fns_named(x[1]):
            for _, _, r in g.events(lambda r: r["k"] == "ret"):
                vals.add(_char_value(P, g, r.get("val"), depth - 1))
        return next(iter(vals)) if len(vals) == 1 and None not in vals else None
    return None


def callers(chk, P0, fams, overlays):
    chk.rule("OPTCHAR", "the option character that reaches a LAPACK routine is one that this flavour of the routine accepts: wrappers hand their `const char&` options on unchanged, "
             "xORMQR / xORMRZ (real element types) accept TRANS in {N,T}, their complex counterparts xUNMQR / xUNMRZ only {N,C}; every instantiated caller in "
             "Factor*.cpp / Eigen.cpp must therefore pass, for its element type, a letter of the matching set (decided per instantiation; a local or a specialised helper is followed)")
    chk.rule("DEFTOL", "default rank tolerance: the constructor and factor() overloads that take only the matrix build their Rep with structurally identical arguments, and no "
             "element-type template in Factor*.cpp / Eigen.cpp reads a fixed-precision global (SignificantReal, Eps, ...): the tolerance must follow the element type's precision")
    units = units_matching(CALLER_UNITS)
    chk.require(len(units) >= 4, "Factor*.cpp / Eigen.cpp not found")
    P = Program(extract(units, hdr=r"LinearAlgebra/src/.*\.h$", inst=r"Rep<|QTransposeChar|TransposeChar", overlays=overlays))
    chk.units += units
    chk.nfunctions += len(P.fns)
    reps(chk, P)
    fwd = _forwarded_options(fams)
    n = 0
    for f in sorted(P.all_fns(), key=lambda f: f.id):
        if f.d.get("tmpl") == "pattern":
            continue
        for b, i, e in f.calls():
            nm = str(e.get("fn", ""))
            if nm not in fwd:
                continue
            sig = str(e.get("fid", ""))
            k = "c" if "complex<float>" in sig else "z" if "complex<double>" in sig else "s" if re.search(r"\bfloat\b", sig) else "d" if re.search(r"\bdouble\b", sig) else "?"
            for ppos, stem, lpos in fwd[nm].get(k, []):
                valid = OPT_VALID.get((stem[:3], lpos))
                if valid is None:
                    continue
                a = call_args(e)
                if ppos >= len(a):
                    continue
                n += 1
                val = _char_value(P, f, a[ppos])
                cnt = sum(1 for _b, _i, _e in f.calls() if str(_e.get("fn", "")) == nm and _e["line"] <= e["line"])
                key = "%s:%s<%s>#%d:trans" % (f.name.replace("SimTK::", ""), nm.split("::")[-1], k, cnt)
                site = "%s:%d" % (f.file, e["line"])
                if val is None:
                    chk.note("OPTCHAR undecided at %s: %s" % (site, sx_str(a[ppos])))
                    continue
                chk.judge(val in valid, "OPTCHAR", key, site, "%s%s is given TRANS='%s'; it accepts only %s" % (k, stem, chr(val), sorted(chr(v) for v in valid)))
    chk.shape(n >= 16, "OPTCHAR", "orthogonal/unitary-factor-call-sites>=16", "", "%d instantiated call sites with a flavour-dependent option" % n)
    # default tolerance
    for cls in ("SimTK::FactorQTZ", "SimTK::FactorSVD"):
        sib = []
        for f in P.all_fns():
            if f.cls != cls or f.d.get("tmpl") not in ("pattern",):
                continue
            ps = f.d.get("params", [])
            if len(ps) == 1 and "Matrix_" in ps[0][1] and (f.kind == "ctor" or f.name.endswith("::factor")):
                news = [sx_find(x, lambda y: y[0] == "new") for _, _, e in f.events() for x in [e.get("x"), e.get("rhs"), e.get("init")] if x is not None]
                news = [c for cs in news for c in cs]
                sib.append((f, [sx_str(c) for c in news][:1]))
        short = cls.split("::")[-1]
        chk.judge(len(sib) == 2 and sib[0][1] == sib[1][1] and bool(sib[0][1]), "DEFTOL", short + ":ctor(m)~factor(m)", sib[0][0].loc if sib else "",
                  "constructor and factor() build the Rep with %s / %s" % (sib[0][1] if sib else None, sib[1][1] if len(sib) > 1 else None))
    bad = 0
    seen_sites = set()
    for f in sorted(P.all_fns(), key=lambda f: (f.d.get("tmpl") != "pattern", f.id)):
        if f.d.get("tmpl") not in ("pattern", "inst"):
            continue
        for b, i, e in f.events(lambda e: e["k"] == "gvar" and FIXED_PRECISION.match(str(e.get("var", "")))):
            if (f.file, e["line"], e["var"]) in seen_sites:
                continue            # one report per source site, not one per instantiation
            seen_sites.add((f.file, e["line"], e["var"]))
            bad += 1
            chk.violation("DEFTOL", "%s:reads-%s" % (f.name.replace("SimTK::", ""), e["var"].split("::")[-1]), "%s:%d" % (f.file, e["line"]),
                          "%s is a constant of the library's default (double) precision; in a function templatised on the element type it is wrong for float matrices" % e["var"])
    if not bad:
        chk.ok("DEFTOL", "no-fixed-precision-constant-in-element-templates", "", "no element-type template reads SignificantReal / Eps / SqrtEps / TinyReal")


HANDLES = {"SimTK::FactorLU": "SimTK::FactorLURepBase", "SimTK::FactorQTZ": "SimTK::FactorQTZRepBase", "SimTK::FactorSVD": "SimTK::FactorSVDRepBase", "SimTK::Eigen": "SimTK::EigenRepBase"}
# LAPACK drivers that destroy the matrix they are given (LAPACK documentation: "on exit, the contents of A are destroyed" / overwritten by
# the vectors): wrapper name -> positions (0-based) of the destroyed matrix arguments
DESTROYS = {"gesdd": [3], "geev": [3], "gelss": [4, 6], "syev": [3], "syevx": [4]}


def _member_root(x):
    """the data member of `this` that an expression like this->m.data / this->m.data[k] lives in"""
    while isinstance(x, list) and x:
        if x[0] == "mem":
            if x[1] == ["this"]:
                return x[2]
            x = x[1]
        elif x[0] in ("opc", "idx", "un", "cast", "conv") and len(x) > 2:
            x = x[2] if x[0] != "conv" else x[1]
        else:
            return None
    return None


def reps(chk, P):
    chk.rule("OVERRIDE", "handle -> Rep dispatch: every virtual of a ...RepBase class that the handle class calls through its rep pointer is overridden by the element-typed Rep<T> "
             "(the base versions are 'wrong element type' / placeholder bodies); a Rep<T> member with the same name and parameters but different const-ness hides the "
             "virtual instead of overriding it, and the handle then always gets the placeholder")
    chk.rule("SHADOW", "no method of a factorization Rep declares a local variable with the name of one of the class's data members and writes it: the member the method is "
             "meant to update (a rank, a count) silently keeps its old value")
    chk.rule("PRESERVE", "a Rep that answers repeated queries from the matrix it stored at construction (FactorSVD, Eigen) never hands that stored matrix to a LAPACK driver that "
             "destroys its input (gesdd, geev, gelss, syev, syevx): a scratch copy is passed, so that a second query, or a solve after a query, still sees the original")
    chk.rule("NEEDFLAG", "Eigen's lazy-evaluation flags: needVectors is cleared only where the vectors were computed (under computeVectors), and every getter that hands out vectors "
             "computes them when needVectors says so -- a values-only query followed by a values-and-vectors query must not return the never-computed vectors")
    # ---- OVERRIDE
    n = 0
    fov = {}
    for g in P.all_fns():
        for o in g.d.get("overrides") or []:
            fov.setdefault(o, set()).add(g.id)
    for h, base in sorted(HANDLES.items()):
        seen = set()
        for f in P.all_fns():
            if f.cls != h:
                continue
            for _, _, e in f.calls():
                if e.get("virt") and str(e.get("fn", "")).startswith(base + "::") and e.get("fid") not in seen:
                    seen.add(e["fid"])
        for fid in sorted(seen):
            n += 1
            ov = fov.get(fid, set())
            def split_id(x):
                k = x.index("(")
                return x[:k].split("::")[-1], re.sub(r"\)const$", ")", x[k:])
            stem, args = split_id(fid)
            nm = stem + fid[fid.index("("):].replace("SimTK::", "")
            hid = []
            if not ov:
                for g in P.all_fns():
                    if g.cls in P.subclasses(base) and "(" in g.id and split_id(g.id) == (stem, args) and not g.d.get("overrides") and g.d.get("tmpl") != "pattern":
                        hid.append(g.id.replace("SimTK::", ""))
            chk.judge(bool(ov), "OVERRIDE", "%s->%s" % (h.split("::")[-1], nm), "", "%s::%s is called by the handle but no Rep<T> overrides it%s" %
                      (base.split("::")[-1], nm, ("; %s has the same name and parameters but different const-ness and hides it" % hid[0]) if hid else ""))
    chk.shape(n >= 20, "OVERRIDE", "handle-called-virtuals>=20", "", "%d virtuals of the RepBase classes are called by the handles" % n)
    # ---- SHADOW
    ns = 0
    reps_ = [c for c in P.classes if re.search(r"::(Factor\w*Rep|EigenRep)$", c)]
    for c in sorted(reps_):
        fields = {(f_ if isinstance(f_, str) else f_.get("name")) for cc in [c] + P.bases(c) for f_ in P.classes.get(cc, {}).get("fields", [])}
        seen_sites = set()
        for f in sorted(P.methods_of(c), key=lambda f: f.id):
            for b, i, d in f.events(lambda q: q["k"] == "decl" and q["var"] in fields):
                if (f.name.split("::")[-1], d["var"]) in seen_sites:
                    continue
                seen_sites.add((f.name.split("::")[-1], d["var"]))
                v = d["var"]
                written = any(True for _ in f.events(lambda q: (q["k"] == "assign" and q["lhs"] == ["var", v]) or (q["k"] == "call" and q.get("op") in ("++", "--", "+=", "-=", "=") and q["x"][2] == ["var", v])))
                ns += 1
                chk.judge(not written, "SHADOW", "%s::%s:%s" % (c.split("::")[-1], f.name.split("::")[-1], v), "%s:%d" % (f.file, d["line"]),
                          "local `%s` shadows the data member %s::%s and is the one that gets updated; the member never changes" % (v, c.split("::")[-1], v))
        chk.ok("SHADOW", "%s:scanned" % c.split("::")[-1], "", "%d methods scanned" % len(P.methods_of(c)))
    # ---- PRESERVE
    npz = 0
    for c in sorted(reps_):
        # the stored input: a member handed to LapackConvert::convertMatrixToLapack as destination in a constructor / factor
        stored = set()
        for f in P.methods_of(c):
            for _, _, e in f.calls():
                if str(e.get("fn", "")).endswith("convertMatrixToLapack") and call_args(e) and _member_root(call_args(e)[0]):
                    stored.add(_member_root(call_args(e)[0]).split("::")[-1])
        queries = [f for f in P.methods_of(c) if f.kind not in ("ctor", "copyctor", "movector", "dtor") and f.name.split("::")[-1] != "factor"]
        multi = c.split("::")[-1] in ("FactorSVDRep", "EigenRep")
        if not multi or not stored:
            continue
        seen_sites = set()
        for f in sorted(queries, key=lambda f: f.id):
            for b, i, e in f.calls():
                nm = str(e.get("fn", "")).split("::")[-1]
                if nm not in DESTROYS or "LapackInterface" not in e.get("fn", ""):
                    continue
                a = call_args(e)
                for pos in DESTROYS[nm]:
                    if pos >= len(a) or (f.file, e["line"], pos) in seen_sites:
                        continue
                    seen_sites.add((f.file, e["line"], pos))
                    npz += 1
                    fld = _member_root(a[pos])
                    fld = fld.split("::")[-1] if fld else None
                    chk.judge(fld not in stored, "PRESERVE", "%s::%s:%s(arg%d)" % (c.split("::")[-1], f.name.split("::")[-1], nm, pos), "%s:%d" % (f.file, e["line"]),
                              "the stored matrix %s is handed to %s, which destroys it: later queries on the same object work on garbage" % (fld, nm))
    chk.shape(npz >= 3, "PRESERVE", "destroying-driver-call-sites>=3", "", "%d call sites of destroying drivers in FactorSVDRep / EigenRep" % npz)
    # ---- NEEDFLAG
    ER = "SimTK::EigenRep"
    cvs = sorted({g.file + ":" + str(g.line): g for g in P.methods_of(ER) if g.name.endswith("::computeValues")}.values(), key=lambda g: g.id)[:1]
    if chk.shape(bool(cvs), "NEEDFLAG", "EigenRep::computeValues:found", "", ""):
        f = cvs[0]
        par = f.d["params"][0][0]
        known = known_edges(f, lambda c_: c_ == ["var", par], lambda c_: False)
        ws = [(b, e) for b, _, e in f.events(lambda q: q["k"] == "assign" and str(field_of(q["lhs"])).endswith("::needVectors") and q.get("rhs") == ["lit", "false"])]
        chk.shape(bool(ws), "NEEDFLAG", "computeValues:clears-needVectors", f.loc, "%d writes `needVectors = false`" % len(ws))
        for b, e in ws:
            chk.judge(bool(known) and only_via(f, b, known), "NEEDFLAG", "computeValues:needVectors-cleared-only-when-vectors-were-computed", "%s:%d" % (f.file, e["line"]),
                      "needVectors = false is executed also when %s is false (values-only computation)" % par)
    getters, seen_sites = 0, set()
    for f in sorted(P.methods_of(ER), key=lambda f: f.id):
        cps = [(b, i, e) for b, i, e in f.calls() if str(e.get("fn", "")).endswith("::copyVectors")]
        if not cps or (f.file, f.line) in seen_sites or f.name.endswith("::copyVectors"):
            continue
        seen_sites.add((f.file, f.line))
        getters += 1
        # the vectors are handed out without having been computed in this call only where needVectors is known to be false
        isnv = lambda c_: isinstance(c_, list) and c_[:1] == ["mem"] and str(c_[2]).endswith("::needVectors")
        nv_false = known_edges(f, lambda c_: False, isnv)
        is_comp = lambda q: q["k"] == "call" and str(q.get("fn", "")).endswith("::computeValues") and bool(call_args(q)) and call_args(q)[0] == ["lit", "true"]
        sig = re.sub(r"typename CNT<T>::TReal|EigenRep<[^:]*>::RType|RType", "R", "(" + ",".join(p_[1] for p_ in f.d["params"]) + ")").replace("SimTK::", "").replace("std::", "")
        def ensures(q, depth=2):
            """call q computes the vectors whenever needVectors is set: computeValues(true) itself, or a same-class helper in which no path to the exit avoids such a call
            except through an edge on which needVectors is known false"""
            if is_comp(q):
                return True
            if depth <= 0 or q["k"] != "call" or not q.get("fid"):
                return False
            for g in P.by_id.get(q["fid"], []):
                if g.cls != f.cls or g is f or not g.blocks:
                    continue
                gf = known_edges(g, lambda c_: False, isnv)
                if g.path_exists(None, "exit", lambda z: ensures(z, depth - 1), avoid_edges=gf, lift=0) is None:
                    return True
            return False
        for b, i, e in cps[:1]:
            p_ = f.path_exists(None, lambda q, e=e: q is e, ensures, avoid_edges=nv_false, lift=0)
            chk.judge(p_ is None, "NEEDFLAG", "%s%s:computes-vectors-when-needVectors" % (f.name.split("::")[-1], sig), f.loc,
                      "eigenvectors are handed out without computeValues(true) on a path where needVectors may still be true: after a values-only query the vectors were never computed", p_)
    chk.shape(getters >= 4, "NEEDFLAG", "vector-getters>=4", "", "%d getters call copyVectors" % getters)


def clone(chk, fams):
    chk.rule("CLONE", "for each LapackInterface wrapper the float and double specialisations (and the two complex ones) issue the same sequence of LAPACK calls with "
             "structurally identical argument expressions modulo the routine prefix and element type: an argument or workspace mistake in one type breaks that element type only")
    for name, ks in sorted(fams.items()):
        short = name.split("::")[-1]
        if short in CLONE_EXEMPT:
            chk.ok("CLONE", short + ":tabled", ks[sorted(ks)[0]][0].loc, CLONE_EXEMPT[short])
            continue
        for a, b in (("s", "d"), ("c", "z")):
            if a in ks and b in ks:
                fa, fb = ks[a][0], ks[b][0]
                ta, tb = trace(fa), trace(fb)
                if not ta and not tb:
                    continue
                diff = None
                if [t[0] for t in ta] != [t[0] for t in tb]:
                    diff = "different LAPACK call sequences %s vs %s" % ([a + t[0] for t in ta], [b + t[0] for t in tb])
                else:
                    for (ra, aa, ea), (rb, ab, eb) in zip(ta, tb):
                        if aa != ab:
                            d = [(x, y) for x, y in zip(aa, ab) if x != y] or [("#args %d" % len(aa), "#args %d" % len(ab))]
                            diff = "%s%s vs %s%s: argument %s vs %s" % (a, ra, b, rb, d[0][0][:60], d[0][1][:60])
                            break
                chk.judge(diff is None, "CLONE", "%s<%s~%s>" % (short, a, b), fa.loc, "specialisations disagree: %s" % diff)
        # real vs complex: same routine stem (modulo tabled synonyms) and same number of calls
        if "d" in ks and "z" in ks:
            td, tz = trace(ks["d"][0]), trace(ks["z"][0])
            if td and tz:
                sd = [SYNONYM.get(t[0][:-1], t[0][:-1]) for t in td]
                sz = [t[0][:-1] for t in tz]
                ok = len(sd) == len(sz) and all(x == y or SYNONYM.get(x) == y or x == SYNONYM.get(y, "") for x, y in zip(sd, sz))
                chk.judge(ok, "CLONE", "%s<d~z>:routines" % short, ks["d"][0].loc, "real and complex versions call corresponding routines: %s vs %s" % (sd, sz))


def workspace(chk, fams):
    chk.rule("REACHDEF", "in every wrapper that does a workspace query: the routine is first called with lwork == -1 and a scratch array; the later call passes, in the same "
             "positions, a TypedWorkSpace constructed with lwork and that lwork, whose only definition is the (real part of the) first element of the query's scratch array "
             "(directly or via getLWork)")
    for name, ks in sorted(fams.items()):
        short = name.split("::")[-1]
        for k, fl in sorted(ks.items()):
            for f in fl:
                tr = trace(f)
                by = {}
                for r, a, e in tr:
                    by.setdefault(r, []).append(e)
                for r, evs in by.items():
                    q = [e for e in evs if any(_is_lit(x, "-1") or sx_str(x) == "-1" for x in call_args(e))]
                    if not q:
                        continue
                    qe = q[0]
                    qa = call_args(qe)
                    pos = [n for n, x in enumerate(qa) if _is_lit(x, "-1") or sx_str(x) == "-1"][0]
                    scratch = first_var(qa[pos - 1])
                    inst = "%s<%s>:%s%s" % (short, k, k, r)
                    site = "%s:%d" % (f.file, qe["line"])
                    real = [e for e in evs if e is not qe and not any(_is_lit(x, "-1") or sx_str(x) == "-1" for x in call_args(e))]
                    chk.judge(len(real) >= 1, "REACHDEF", inst + ":query-then-call", site, "a workspace query is followed by the real call to the same routine")
                    for e in real:
                        a = call_args(e)
                        lw = var_of(a[pos]) if len(a) > pos else None
                        ws = a[pos - 1] if len(a) > pos else None
                        s2 = "%s:%d" % (f.file, e["line"])
                        # lwork's definitions
                        defs = [d for _, _, d in f.events(lambda d: d["k"] == "decl" and d["var"] == lw)]
                        asg = [w for _, _, w in f.events(lambda w: w["k"] == "assign" and var_of(w["lhs"]) == lw)]
                        srcs = [d["init"] for d in defs if d["init"] is not None] + [w["rhs"] for w in asg]
                        ok = bool(srcs) and all(bool(sx_find(x, lambda y: y[0] == "var" and y[1] == scratch)) for x in srcs)
                        chk.judge(lw is not None and ok, "REACHDEF", inst + ":lwork<-query", s2,
                                  "lwork passed to the real call (%s) must be defined only from the query's scratch array %s; definitions: %s" % (lw, scratch, [sx_str(x)[:50] for x in srcs]))
                        wv = first_var(ws) if ws is not None else None
                        wd = [d for _, _, d in f.events(lambda d: d["k"] == "decl" and d["var"] == wv and "TypedWorkSpace" in (d["ty"] or ""))]
                        okw = bool(wd) and bool(sx_find(wd[0]["init"], lambda y: y[0] == "var" and y[1] == lw))
                        if wd and not okw:
                            # query made on the workspace object itself, which is then resized to lwork before the real call
                            rs = [(bb, ii) for bb, ii, r in f.calls() if str(r.get("fn", "")).endswith("::resize") and var_of(call_obj(r)) == wv and var_of(call_args(r)[0]) == lw]
                            pos_e = [(bb, ii) for bb, ii, x in f.events(lambda x, e=e: x is e)]
                            okw = bool(rs) and bool(pos_e) and f.path_exists(None, lambda x, e=e: x is e, lambda x: str(x.get("fn", "")).endswith("::resize") and x["k"] == "call" and var_of(call_obj(x)) == wv) is None
                        chk.judge(okw, "REACHDEF", inst + ":work-sized-with-lwork", s2, "the workspace passed (%s) is a TypedWorkSpace constructed with %s" % (wv, lw))
                        # the query precedes the real call
                        p = f.path_exists(None, lambda x, e=e: x is e, lambda x: x is qe)
                        chk.judge(p is None, "REACHDEF", inst + ":query-dominates", s2, "the query precedes the real call on every path", p)


_L = "SimTKmath/LinearAlgebra/src/LapackInterface.cpp"
_Q = "SimTKmath/LinearAlgebra/src/FactorQTZ.cpp"
MUTATIONS = [
    dict(name="typed getRank hides the base virtual (pre-fix code)", arm=True, file="SimTKmath/LinearAlgebra/src/FactorSVDRep.h",
         old="    virtual int getRank() {\n       checkIfFactored( \"getRank\" );", new="    virtual int getRank() const {\n       checkIfFactored( \"getRank\" );", also=[("    int getRank() override;", "    int getRank();")], expect="OVERRIDE:FactorSVD->getRank"),
    dict(name="rank counted in a loop-init local that shadows the member (pre-fix code)", arm=True, file="SimTKmath/LinearAlgebra/src/FactorSVD.cpp",
         old="    rank = 0;\n    for(int i=0;i<mn;i++) {", new="    for(int i=0, rank=0;i<mn;i++) {", expect="SHADOW:FactorSVDRep::computeSVD:rank"),
    dict(name="seeded (sub-agent): gesdd works directly on the stored matrix", arm=True, file="SimTKmath/LinearAlgebra/src/FactorSVD.cpp",
         old="    TypedWorkSpace<T> tempMatrix = inputMatrix;\n    LapackInterface::gesdd<T>(jobz, nRow,nCol,tempMatrix.data, nRow, values,", new="    LapackInterface::gesdd<T>(jobz, nRow,nCol,inputMatrix.data, nRow, values,",
         expect="PRESERVE:FactorSVDRep::computeSVD:gesdd"),
    dict(name="geev destroys the stored matrix (pre-fix code)", file="SimTKmath/LinearAlgebra/src/Eigen.cpp",
         old="                              n, tempMatrix.data, n, complexEigenValues.data,", new="                              n, inputMatrix.data, n, complexEigenValues.data,", expect="PRESERVE:EigenRep::computeValues:geev"),
    dict(name="needVectors cleared by a values-only computation (pre-fix code)", file="SimTKmath/LinearAlgebra/src/Eigen.cpp",
         old="    if( computeVectors ) needVectors = false;", new="    needVectors = false;", expect="NEEDFLAG:computeValues:needVectors-cleared-only-when-vectors-were-computed"),
    dict(name="a vector getter recomputes only when the values are missing (pre-fix code)", file="SimTKmath/LinearAlgebra/src/Eigen.cpp",
         old="    range = AllValues;\n\n    if( needValues || needVectors ) computeValues( true );\n    copyValues( values );\n    copyVectors( vectors );\n\n    return;\n}\n// only for symmetric real matrix",
         new="    range = AllValues;\n\n    if( needValues ) computeValues( true );\n    copyValues( values );\n    copyVectors( vectors );\n\n    return;\n}\n// only for symmetric real matrix",
         expect="NEEDFLAG:getAllEigenValuesAndVectors(Vector_<complex<R>> &,Matrix_<complex<R>> &)"),

    dict(name="complex QTZ solve asks the unitary routines for 'T' (pre-fix code)", arm=True, file=_Q,
         old="    const char transQ = QTransposeChar<T>::get(); // 'T' if real, 'C' if complex", new="    const char transQ = 'T';", expect="OPTCHAR:FactorQTZRep<std::complex<double>>::doSolve:ormqr<z>#1"),
    dict(name="seeded (sub-agent): factor(m) takes its default tolerance from the double-precision constant", file=_Q,
         old="    int mnmax = (m.nrow() > m.ncol()) ? m.nrow() : m.ncol();\n    rep.reset(new FactorQTZRep<typename CNT<ELT>::StdNumber>(m, mnmax*NTraits<typename CNT<ELT>::Precision>::getSignificant()));\n}\ntemplate < class ELT >\nvoid FactorQTZ::factor( const Matrix_<ELT>& m, double rcond ){",
         new="    const int mnmax = std::max(m.nrow(), m.ncol());\n    rep.reset(new FactorQTZRep<typename CNT<ELT>::StdNumber>(m, mnmax*SignificantReal));\n}\ntemplate < class ELT >\nvoid FactorQTZ::factor( const Matrix_<ELT>& m, double rcond ){",
         expect="DEFTOL:FactorQTZ"),
    dict(name="float gelss workspace sized from a constant", arm=True, file=_L,
         old="    int lwork = (int)wsize[0];\n    TypedWorkSpace<float> work(lwork);\n\n    sgelss_", new="    int lwork = 3*mn + 64;\n    TypedWorkSpace<float> work(lwork);\n\n    sgelss_",
         expect="REACHDEF:gelss<s>:sgelss_:lwork<-query"),
    dict(name="double gelss passes ldb where lda belongs", arm=True, file=_L,
         old="    dgelss_(m, n, nrhs, a, lda, b, ldb, s, rcond, rank, work.data, lwork, info );", new="    dgelss_(m, n, nrhs, a, ldb, b, ldb, s, rcond, rank, work.data, lwork, info );",
         expect="CLONE:gelss<s~d>"),
    dict(name="complex<double> syev workspace not sized with lwork", file=_L,
         old="    int lwork = (int)wsize[0].real();\n    TypedWorkSpace<std::complex<double> > work(lwork);\n    zheev_", new="    int lwork = (int)wsize[0].real();\n    TypedWorkSpace<std::complex<double> > work(n);\n    zheev_",
         expect="work-sized-with-lwork"),
]
