"""C24 -- Matrix factorizations solve what they claim (LAPACK interface clause).

CLONE: the float/double (and complex<float>/complex<double>) specialisations of
every LapackInterface wrapper make the same LAPACK calls with the same argument
expressions modulo the routine prefix; REACHDEF: every non-query `lwork` is the
result of a `-1` workspace query to the same routine and the workspace passed
was sized with it."""
import re

from ..facts import extract, units_matching, Program, AnalysisBroken, sx_find, sx_str
from ..match import ev_write, is_call, call_args, call_obj, field_of, var_of
from .c18 import _is_lit

UNITS = r"SimTKmath/LinearAlgebra/src/LapackInterface\.cpp$"
LI = "SimTK::LapackInterface"
LAPACK = re.compile(r"^[sdcz][a-z0-9]+_$")
# real routines whose complex counterpart has a different LAPACK name
SYNONYM = {"syev": "heev", "syevx": "heevx", "sytrf": "hetrf", "sytrs": "hetrs", "ormqr": "unmqr", "ormrz": "unmrz", "orgqr": "ungqr", "dot": "dotc", "nrm2": "nrm2"}


CLONE_EXEMPT = {"lange": "the float versions deliberately copy into a double matrix and call the double routine (g77/gfortran REAL return-type issue, documented in the source)"}


def first_var(x):
    v = sx_find(x, lambda y: y[0] == "var")
    return v[0][1] if v else None


def kind(f):
    sig = " ".join(p[1] for p in f.d["params"]) + " " + f.id
    if "complex<float>" in sig:
        return "c"
    if "complex<double>" in sig:
        return "z"
    if re.search(r"\bfloat\b", sig):
        return "s"
    if re.search(r"\bdouble\b", sig):
        return "d"
    return "?"


def _alpha(f):
    """parameter and local names of f -> canonical names: parameters by position, locals by what they are (type and initialiser, with
    parameters already canonical) -- sibling specialisations may name and order their locals differently"""
    m = {}
    for n, p_ in enumerate(f.d.get("params", [])):
        if p_[0]:
            m[p_[0]] = "P%d" % n
    decls = sorted((d for _, _, d in f.events(lambda d: d["k"] == "decl") if d["var"] not in m), key=lambda d: (d["line"], d.get("col", 0)))
    pending = list(decls)
    # iterate so that a local initialised from another local gets a stable signature
    for _ in range(4):
        sigs = {}
        for d in pending:
            ty = re.sub(r"\b(float|double)\b", "T", str(d.get("ty", "")))
            init = sx_str(_rename(d["init"], m)) if d.get("init") is not None else ""
            init = re.sub(r"\b(float|double)\b", "T", init)
            sigs.setdefault(ty + "=" + init, []).append(d["var"])
        done = False
        for sig, vs in sorted(sigs.items()):
            unresolved = [v for v in re.findall(r"[A-Za-z_][A-Za-z0-9_]*", sig.split("=", 1)[1]) if v in {d["var"] for d in pending}]
            if unresolved:
                continue
            for k, v in enumerate(vs):
                m[v] = "L[%s]#%d" % (sig, k)
                done = True
        pending = [d for d in pending if d["var"] not in m]
        if not pending or not done:
            break
    for k, d in enumerate(pending):
        m[d["var"]] = "L?%d" % k
    return m


def _rename(x, m):
    if isinstance(x, list):
        if len(x) == 2 and x[0] == "var" and x[1] in m:
            return ["var", m[x[1]]]
        return [_rename(y, m) for y in x]
    return x


def norm(x, m=None):
    s = sx_str(_rename(x, m) if m else x)
    s = re.sub(r"\b(float|double)\b", "T", s)
    s = re.sub(r"\b[sdcz]([a-z0-9]+_)\b", r"X\1", s)
    s = re.sub(r'"[sdcz]([a-z0-9]+)"', r'"X\1"', s)
    return s


def trace(f):
    out = []
    m = _alpha(f)
    for b, i, e in f.events(lambda e: e["k"] == "call" and LAPACK.match(str(e.get("fn", "")))):
        out.append((e["fn"][1:], [norm(a, m) for a in call_args(e)], e))
    return out


def run(chk, tier, overlays=()):
    units = units_matching(UNITS)
    P = Program(extract(units, hdr=r"LinearAlgebra/src/.*\.h$", overlays=overlays))
    chk.units += units
    chk.nfunctions += len(P.fns)
    fams = {}
    for f in P.all_fns():
        if f.cls == LI and f.d["tmpl"] != "pattern":
            fams.setdefault(f.name, {}).setdefault(kind(f), []).append(f)
    chk.require(len(fams) >= 20, "only %d LapackInterface wrapper families found" % len(fams))
    clone(chk, fams)
    workspace(chk, fams)
    callers(chk, P, fams, overlays)
    chk.floor("CLONE", 30)
    chk.floor("REACHDEF", 40)
    chk.floor("OPTCHAR", 16)
    chk.floor("DEFTOL", 3)
    chk.assumptions += ["everything in Factor*.cpp / Eigen.cpp (rank logic, residuals) is numerical and not decided"]


CALLER_UNITS = r"SimTKmath/LinearAlgebra/src/(Factor[A-Za-z]*|Eigen)\.cpp$"
# LAPACK option characters that differ between the real and the complex flavour of a routine (LAPACK documentation):
# xORM.. take TRANS in {N,T}; xUNM.. take TRANS in {N,C} and reject 'T'.  Everything else accepts the same letters in both flavours.
OPT_VALID = {("orm", 1): {78, 84}, ("unm", 1): {78, 67}}     # (routine stem, LAPACK argument position of TRANS)
FIXED_PRECISION = re.compile(r"^SimTK::(SignificantReal|Eps|SqrtEps|TinyReal|LeastPositiveReal|LeastNegativeReal)$")


def _forwarded_options(fams):
    """wrapper name -> {kind: [(param position, routine stem, LAPACK position)]} for `const char&` parameters handed on unchanged"""
    out = {}
    for name, ks in fams.items():
        for k, fl in ks.items():
            f = fl[0]
            chars = {p[0]: n for n, p in enumerate(f.d["params"]) if p[1].replace(" ", "") in ("constchar&", "char")}
            for _, _, e in f.events(lambda e: e["k"] == "call" and LAPACK.match(str(e.get("fn", "")))):
                for pos, a in enumerate(call_args(e)):
                    v = var_of(a)
                    if v in chars:
                        out.setdefault(name, {}).setdefault(k, []).append((chars[v], e["fn"][1:-1], pos))
    return out


def _char_value(P, f, x, depth=3):
    """the character an option argument evaluates to in function f: a literal, a local initialised with one, or the result of a
    (specialised) helper whose every return is one literal; None when it cannot be decided"""
    if isinstance(x, list) and x and x[0] == "lit" and re.match(r"^-?\d+$", str(x[1])):
        return int(x[1])
    if depth <= 0 or not isinstance(x, list) or not x:
        return None
    if x[0] in ("cast", "conv") and len(x) > 2:
        return _char_value(P, f, x[2] if x[0] == "cast" else x[1], depth - 1)
    if x[0] == "var":
        ds = [d for _, _, d in f.events(lambda d: d["k"] == "decl" and d["var"] == x[1])]
        ws = [w for _, _, w in f.events(lambda w: w["k"] == "assign" and var_of(w["lhs"]) == x[1])]
        if len(ds) == 1 and not ws and ds[0].get("init") is not None:
            return _char_value(P, f, ds[0]["init"], depth - 1)
        return None
    if x[0] == "call":
        vals = set()
        for g in P.fns_named(x[1]):
            for _, _, r in g.events(lambda r: r["k"] == "ret"):
                vals.add(_char_value(P, g, r.get("val"), depth - 1))
        return next(iter(vals)) if len(vals) == 1 and None not in vals else None
    return None


def callers(chk, P0, fams, overlays):
    chk.rule("OPTCHAR", "the option character that reaches a LAPACK routine is one that this flavour of the routine accepts: wrappers hand their `const char&` options on unchanged, "
             "xORMQR / xORMRZ (real element types) accept TRANS in {N,T}, their complex counterparts xUNMQR / xUNMRZ only {N,C}; every instantiated caller in "
             "Factor*.cpp / Eigen.cpp must therefore pass, for its element type, a letter of the matching set (decided per instantiation; a local or a specialised helper is followed)")
    chk.rule("DEFTOL", "default rank tolerance: the constructor and factor() overloads that take only the matrix build their Rep with structurally identical arguments, and no "
             "element-type template in Factor*.cpp / Eigen.cpp reads a fixed-precision global (SignificantReal, Eps, ...): the tolerance must follow the element type's precision")
    units = units_matching(CALLER_UNITS)
    chk.require(len(units) >= 4, "Factor*.cpp / Eigen.cpp not found")
    P = Program(extract(units, hdr=r"LinearAlgebra/src/.*\.h$", inst=r"Rep<|QTransposeChar|TransposeChar", overlays=overlays))
    chk.units += units
    chk.nfunctions += len(P.fns)
    fwd = _forwarded_options(fams)
    n = 0
    for f in sorted(P.all_fns(), key=lambda f: f.id):
        if f.d.get("tmpl") == "pattern":
            continue
        for b, i, e in f.calls():
            nm = str(e.get("fn", ""))
            if nm not in fwd:
                continue
            sig = str(e.get("fid", ""))
            k = "c" if "complex<float>" in sig else "z" if "complex<double>" in sig else "s" if re.search(r"\bfloat\b", sig) else "d" if re.search(r"\bdouble\b", sig) else "?"
            for ppos, stem, lpos in fwd[nm].get(k, []):
                valid = OPT_VALID.get((stem[:3], lpos))
                if valid is None:
                    continue
                a = call_args(e)
                if ppos >= len(a):
                    continue
                n += 1
                val = _char_value(P, f, a[ppos])
                cnt = sum(1 for _b, _i, _e in f.calls() if str(_e.get("fn", "")) == nm and _e["line"] <= e["line"])
                key = "%s:%s<%s>#%d:trans" % (f.name.replace("SimTK::", ""), nm.split("::")[-1], k, cnt)
                site = "%s:%d" % (f.file, e["line"])
                if val is None:
                    chk.note("OPTCHAR undecided at %s: %s" % (site, sx_str(a[ppos])))
                    continue
                chk.judge(val in valid, "OPTCHAR", key, site, "%s%s is given TRANS='%s'; it accepts only %s" % (k, stem, chr(val), sorted(chr(v) for v in valid)))
    chk.shape(n >= 16, "OPTCHAR", "orthogonal/unitary-factor-call-sites>=16", "", "%d instantiated call sites with a flavour-dependent option" % n)
    # default tolerance
    for cls in ("SimTK::FactorQTZ", "SimTK::FactorSVD"):
        sib = []
        for f in P.all_fns():
            if f.cls != cls or f.d.get("tmpl") not in ("pattern",):
                continue
            ps = f.d.get("params", [])
            if len(ps) == 1 and "Matrix_" in ps[0][1] and (f.kind == "ctor" or f.name.endswith("::factor")):
                news = [sx_find(x, lambda y: y[0] == "new") for _, _, e in f.events() for x in [e.get("x"), e.get("rhs"), e.get("init")] if x is not None]
                news = [c for cs in news for c in cs]
                sib.append((f, [sx_str(c) for c in news][:1]))
        short = cls.split("::")[-1]
        chk.judge(len(sib) == 2 and sib[0][1] == sib[1][1] and bool(sib[0][1]), "DEFTOL", short + ":ctor(m)~factor(m)", sib[0][0].loc if sib else "",
                  "constructor and factor() build the Rep with %s / %s" % (sib[0][1] if sib else None, sib[1][1] if len(sib) > 1 else None))
    bad = 0
    seen_sites = set()
    for f in sorted(P.all_fns(), key=lambda f: (f.d.get("tmpl") != "pattern", f.id)):
        if f.d.get("tmpl") not in ("pattern", "inst"):
            continue
        for b, i, e in f.events(lambda e: e["k"] == "gvar" and FIXED_PRECISION.match(str(e.get("var", "")))):
            if (f.file, e["line"], e["var"]) in seen_sites:
                continue            # one report per source site, not one per instantiation
            seen_sites.add((f.file, e["line"], e["var"]))
            bad += 1
            chk.violation("DEFTOL", "%s:reads-%s" % (f.name.replace("SimTK::", ""), e["var"].split("::")[-1]), "%s:%d" % (f.file, e["line"]),
                          "%s is a constant of the library's default (double) precision; in a function templatised on the element type it is wrong for float matrices" % e["var"])
    if not bad:
        chk.ok("DEFTOL", "no-fixed-precision-constant-in-element-templates", "", "no element-type template reads SignificantReal / Eps / SqrtEps / TinyReal")


def clone(chk, fams):
    chk.rule("CLONE", "for each LapackInterface wrapper the float and double specialisations (and the two complex ones) issue the same sequence of LAPACK calls with "
             "structurally identical argument expressions modulo the routine prefix and element type: an argument or workspace mistake in one type breaks that element type only")
    for name, ks in sorted(fams.items()):
        short = name.split("::")[-1]
        if short in CLONE_EXEMPT:
            chk.ok("CLONE", short + ":tabled", ks[sorted(ks)[0]][0].loc, CLONE_EXEMPT[short])
            continue
        for a, b in (("s", "d"), ("c", "z")):
            if a in ks and b in ks:
                fa, fb = ks[a][0], ks[b][0]
                ta, tb = trace(fa), trace(fb)
                if not ta and not tb:
                    continue
                diff = None
                if [t[0] for t in ta] != [t[0] for t in tb]:
                    diff = "different LAPACK call sequences %s vs %s" % ([a + t[0] for t in ta], [b + t[0] for t in tb])
                else:
                    for (ra, aa, ea), (rb, ab, eb) in zip(ta, tb):
                        if aa != ab:
                            d = [(x, y) for x, y in zip(aa, ab) if x != y] or [("#args %d" % len(aa), "#args %d" % len(ab))]
                            diff = "%s%s vs %s%s: argument %s vs %s" % (a, ra, b, rb, d[0][0][:60], d[0][1][:60])
                            break
                chk.judge(diff is None, "CLONE", "%s<%s~%s>" % (short, a, b), fa.loc, "specialisations disagree: %s" % diff)
        # real vs complex: same routine stem (modulo tabled synonyms) and same number of calls
        if "d" in ks and "z" in ks:
            td, tz = trace(ks["d"][0]), trace(ks["z"][0])
            if td and tz:
                sd = [SYNONYM.get(t[0][:-1], t[0][:-1]) for t in td]
                sz = [t[0][:-1] for t in tz]
                ok = len(sd) == len(sz) and all(x == y or SYNONYM.get(x) == y or x == SYNONYM.get(y, "") for x, y in zip(sd, sz))
                chk.judge(ok, "CLONE", "%s<d~z>:routines" % short, ks["d"][0].loc, "real and complex versions call corresponding routines: %s vs %s" % (sd, sz))


def workspace(chk, fams):
    chk.rule("REACHDEF", "in every wrapper that does a workspace query: the routine is first called with lwork == -1 and a scratch array; the later call passes, in the same "
             "positions, a TypedWorkSpace constructed with lwork and that lwork, whose only definition is the (real part of the) first element of the query's scratch array "
             "(directly or via getLWork)")
    for name, ks in sorted(fams.items()):
        short = name.split("::")[-1]
        for k, fl in sorted(ks.items()):
            for f in fl:
                tr = trace(f)
                by = {}
                for r, a, e in tr:
                    by.setdefault(r, []).append(e)
                for r, evs in by.items():
                    q = [e for e in evs if any(_is_lit(x, "-1") or sx_str(x) == "-1" for x in call_args(e))]
                    if not q:
                        continue
                    qe = q[0]
                    qa = call_args(qe)
                    pos = [n for n, x in enumerate(qa) if _is_lit(x, "-1") or sx_str(x) == "-1"][0]
                    scratch = first_var(qa[pos - 1])
                    inst = "%s<%s>:%s%s" % (short, k, k, r)
                    site = "%s:%d" % (f.file, qe["line"])
                    real = [e for e in evs if e is not qe and not any(_is_lit(x, "-1") or sx_str(x) == "-1" for x in call_args(e))]
                    chk.judge(len(real) >= 1, "REACHDEF", inst + ":query-then-call", site, "a workspace query is followed by the real call to the same routine")
                    for e in real:
                        a = call_args(e)
                        lw = var_of(a[pos]) if len(a) > pos else None
                        ws = a[pos - 1] if len(a) > pos else None
                        s2 = "%s:%d" % (f.file, e["line"])
                        # lwork's definitions
                        defs = [d for _, _, d in f.events(lambda d: d["k"] == "decl" and d["var"] == lw)]
                        asg = [w for _, _, w in f.events(lambda w: w["k"] == "assign" and var_of(w["lhs"]) == lw)]
                        srcs = [d["init"] for d in defs if d["init"] is not None] + [w["rhs"] for w in asg]
                        ok = bool(srcs) and all(bool(sx_find(x, lambda y: y[0] == "var" and y[1] == scratch)) for x in srcs)
                        chk.judge(lw is not None and ok, "REACHDEF", inst + ":lwork<-query", s2,
                                  "lwork passed to the real call (%s) must be defined only from the query's scratch array %s; definitions: %s" % (lw, scratch, [sx_str(x)[:50] for x in srcs]))
                        wv = first_var(ws) if ws is not None else None
                        wd = [d for _, _, d in f.events(lambda d: d["k"] == "decl" and d["var"] == wv and "TypedWorkSpace" in (d["ty"] or ""))]
                        okw = bool(wd) and bool(sx_find(wd[0]["init"], lambda y: y[0] == "var" and y[1] == lw))
                        if wd and not okw:
                            # query made on the workspace object itself, which is then resized to lwork before the real call
                            rs = [(bb, ii) for bb, ii, r in f.calls() if str(r.get("fn", "")).endswith("::resize") and var_of(call_obj(r)) == wv and var_of(call_args(r)[0]) == lw]
                            pos_e = [(bb, ii) for bb, ii, x in f.events(lambda x, e=e: x is e)]
                            okw = bool(rs) and bool(pos_e) and f.path_exists(None, lambda x, e=e: x is e, lambda x: str(x.get("fn", "")).endswith("::resize") and x["k"] == "call" and var_of(call_obj(x)) == wv) is None
                        chk.judge(okw, "REACHDEF", inst + ":work-sized-with-lwork", s2, "the workspace passed (%s) is a TypedWorkSpace constructed with %s" % (wv, lw))
                        # the query precedes the real call
                        p = f.path_exists(None, lambda x, e=e: x is e, lambda x: x is qe)
                        chk.judge(p is None, "REACHDEF", inst + ":query-dominates", s2, "the query precedes the real call on every path", p)


_L = "SimTKmath/LinearAlgebra/src/LapackInterface.cpp"
_Q = "SimTKmath/LinearAlgebra/src/FactorQTZ.cpp"
MUTATIONS = [
    dict(name="complex QTZ solve asks the unitary routines for 'T' (pre-fix code)", arm=True, file=_Q,
         old="    const char transQ = QTransposeChar<T>::get(); // 'T' if real, 'C' if complex", new="    const char transQ = 'T';", expect="OPTCHAR:FactorQTZRep<std::complex<double>>::doSolve:ormqr<z>#1"),
    dict(name="seeded (sub-agent): factor(m) takes its default tolerance from the double-precision constant", file=_Q,
         old="    int mnmax = (m.nrow() > m.ncol()) ? m.nrow() : m.ncol();\n    rep.reset(new FactorQTZRep<typename CNT<ELT>::StdNumber>(m, mnmax*NTraits<typename CNT<ELT>::Precision>::getSignificant()));\n}\ntemplate < class ELT >\nvoid FactorQTZ::factor( const Matrix_<ELT>& m, double rcond ){",
         new="    const int mnmax = std::max(m.nrow(), m.ncol());\n    rep.reset(new FactorQTZRep<typename CNT<ELT>::StdNumber>(m, mnmax*SignificantReal));\n}\ntemplate < class ELT >\nvoid FactorQTZ::factor( const Matrix_<ELT>& m, double rcond ){",
         expect="DEFTOL:FactorQTZ"),
    dict(name="float gelss workspace sized from a constant", arm=True, file=_L,
         old="    int lwork = (int)wsize[0];\n    TypedWorkSpace<float> work(lwork);\n\n    sgelss_", new="    int lwork = 3*mn + 64;\n    TypedWorkSpace<float> work(lwork);\n\n    sgelss_",
         expect="REACHDEF:gelss<s>:sgelss_:lwork<-query"),
    dict(name="double gelss passes ldb where lda belongs", arm=True, file=_L,
         old="    dgelss_(m, n, nrhs, a, lda, b, ldb, s, rcond, rank, work.data, lwork, info );", new="    dgelss_(m, n, nrhs, a, ldb, b, ldb, s, rcond, rank, work.data, lwork, info );",
         expect="CLONE:gelss<s~d>"),
    dict(name="complex<double> syev workspace not sized with lwork", file=_L,
         old="    int lwork = (int)wsize[0].real();\n    TypedWorkSpace<std::complex<double> > work(lwork);\n    zheev_", new="    int lwork = (int)wsize[0].real();\n    TypedWorkSpace<std::complex<double> > work(n);\n    zheev_",
         expect="work-sized-with-lwork"),
]
