"""C26 -- Array_ and pointer wrappers have value semantics (pointer-wrapper clauses).

HANDOUT (CloneOnWritePtr detaches before exposing mutable access), EFFECT
(detach / share / clone), NOFLOW (ReferencePtr, ResetOnCopy, ReinitOnCopy copy
operations never read the source's payload).  Analysed on the class template
patterns (members of the current instantiation are resolved by clang)."""
from ..facts import extract, units_matching, Program, AnalysisBroken, sx_find, sx_str
from ..match import ev_write, is_call, call_args, call_obj, field_of, var_of, guard_blocks
from .c18 import _is_lit

UNITS = r"SimTKcommon/Simulation/src/State\.cpp$"
HDR = r"internal/(CloneOnWritePtr|ClonePtr|ReferencePtr|ResetOnCopy|ReinitOnCopy)\.h$"
COW = "SimTK::CloneOnWritePtr"
CP = "SimTK::ClonePtr"
NOFLOW_CLASSES = {"SimTK::ReferencePtr": set(), "SimTK::ResetOnCopy": set(), "SimTK::ResetOnCopyHelper": set(),
                  "SimTK::ReinitOnCopy": {"m_reinitValue"}, "SimTK::ReinitOnCopyHelper": {"m_reinitValue"}}


def run(chk, tier, overlays=()):
    units = units_matching(UNITS)
    P = Program(extract(units, hdr=HDR, overlays=overlays))
    chk.units += units
    chk.nfunctions += len(P.fns)
    cow(chk, P)
    cloneptr(chk, P)
    noflow(chk, P)
    remember(chk, P)
    relocate(chk, overlays)
    chk.floor("RELOCATE", 7)
    chk.floor("HANDOUT", 5)
    chk.floor("EFFECT", 8)
    chk.floor("NOFLOW", 10)
    chk.floor("REMEMBER", 8)
    chk.assumptions += ["Array_/ArrayView_ element order, element counts of relocated ranges and growth policy are value/heap semantics and are not decided; of 'exactly-once destruction' only the clause 'the buffer is not released while it holds live elements' is"]


NO_DESTRUCT_HELPERS = {"deallocateNoDestruct": "documented: frees the buffer only; every caller destructs first (checked)",
                       "reallocateNoDestructOrConstruct": "documented: no constructors or destructors are called; callers have already emptied the array (checked)",
                       "reallocateIfAdvisable": "documented: no constructors or destructors are called; callers have already emptied the array (checked)"}


def relocate(chk, overlays):
    """Array_: the old element buffer is never released while it still holds live elements (the structural half of 'each element is destroyed exactly once')"""
    chk.rule("RELOCATE", "Array_: every method that releases the element buffer (freeN(data()), directly or through the three documented ...NoDestruct helpers) destroys the "
             "elements it held on every path before the release: by moveConstructThenDestructSource from data() (and, in the gap forms, from the gap position), by "
             "destruct(begin..end) / clear(), or -- when it moves elements out with the raw range moveConstruct -- by a destruct of the same source range; only the documented "
             "helpers may release without destroying")
    units = units_matching(UNITS)
    P = Program(extract(units, hdr=r"SimTKcommon/internal/Array\.h$", overlays=overlays))
    A = [f for f in P.all_fns() if f.cls and f.cls.startswith("SimTK::Array_") and not f.cls.startswith("SimTK::ArrayView") and f.d.get("tmpl") == "pattern"]
    chk.require(len(A) >= 60, "Array_ member patterns not found (%d)" % len(A))
    last = lambda n: str(n).split("::")[-1]

    def is_old(x):      # an expression denoting (a position in) the current buffer: data(), begin(), end()
        return bool(sx_find(x, lambda y: y[0] in ("call", "dcall") and last(y[1]) in ("data", "begin", "end", "cbegin", "cend")))

    def frees(e):
        return e["k"] == "call" and last(e.get("fn", "")) == "freeN" and bool(call_args(e)) and is_old(call_args(e)[0])

    def helper(e):
        return e["k"] == "call" and last(e.get("fn", "")) in NO_DESTRUCT_HELPERS

    def destroys_all(e):
        if e["k"] != "call":
            return False
        n = last(e.get("fn", ""))
        a = call_args(e)
        if n == "clear":
            return True
        if n == "destruct" and len(a) == 2 and is_old(a[0]):
            return True
        if n == "moveConstructThenDestructSource" and len(a) == 3 and is_old(a[2]):
            return True
        return False
    n = 0
    for f in sorted(A, key=lambda f: (f.line, f.id)):
        short = last(f.name)
        rel_ev = [(b, i, e) for b, i, e in f.events(lambda e: frees(e) or helper(e))]
        if not rel_ev:
            continue
        n += 1
        key = "%s#%d" % (short, sum(1 for g in A if last(g.name) == short and g.line <= f.line))
        if short in NO_DESTRUCT_HELPERS:
            chk.ok("RELOCATE", key + ":documented-helper", f.loc, NO_DESTRUCT_HELPERS[short])
        else:
            hit = None
            for b, i, e in rel_ev:
                p = f.path_exists(None, lambda q, e=e: q is e, destroys_all, lift=0)
                if p is not None:
                    hit = (e, p)
                    break
            chk.judge(hit is None, "RELOCATE", key + ":elements-destroyed-before-release", f.loc,
                      ("%s releases the element buffer (%s) on a path on which the elements it held were not destroyed" % (short, last(hit[0]["fn"]))) if hit else ("every path of %s to its release of the buffer destroys the elements first" % short), hit[1] if hit else None)
        # raw range moves out of the old buffer need a destruct of the same source before the release
        ptr_params = [p_[0] for p_ in f.d.get("params", []) if "*" in p_[1]]
        for b, i, e in f.calls():
            if last(e.get("fn", "")) != "moveConstruct" or len(call_args(e)) != 3:
                continue
            src = call_args(e)[2]
            if not (is_old(src) or var_of(src) in ptr_params):
                continue

            def same_src(q, src=src):
                if q["k"] != "call" or last(q.get("fn", "")) != "destruct" or len(call_args(q)) != 2:
                    return False
                a0, a1 = call_args(q)
                whole = bool(sx_find(a0, lambda y: y[0] in ("call", "dcall") and last(y[1]) in ("begin", "data"))) and var_of(a0) is None and \
                    bool(sx_find(a1, lambda y: y[0] in ("call", "dcall") and last(y[1]) == "end"))
                return a0 == src or whole
            for rb, ri, r in rel_ev:
                if f.path_exists((b, i), lambda q, r=r: q is r, lambda q: False, lift=0) is None:
                    continue
                p = f.path_exists((b, i), lambda q, r=r: q is r, same_src, lift=0)
                cnt = sum(1 for _b, _i, _e in f.calls() if last(_e.get("fn", "")) == "moveConstruct" and len(call_args(_e)) == 3 and _e["line"] <= e["line"])
                chk.judge(p is None, "RELOCATE", "%s:raw-move#%d:source-destroyed-before-release" % (key, cnt), "%s:%d" % (f.file, e["line"]),
                          "elements are moved out of %s with the raw moveConstruct and the buffer is released, but that source range is not destructed in between" % sx_str(src), p)
    chk.shape(n >= 6, "RELOCATE", "releasing-methods>=6", "", "%d Array_ methods release the element buffer" % n)


def _mutable_ret(f):
    r = f.d["ret"].strip()
    return (r.endswith("*") or r.endswith("&")) and not r.startswith("const ") and "CloneOnWritePtr" not in r and r.split()[0] in ("T", "T*", "T&")


def cow(chk, P):
    chk.rule("HANDOUT", "every non-const member of CloneOnWritePtr<T> that returns T* / T& (or releases ownership) reaches detach() on every path before returning, "
             "directly or through another such member: otherwise a write through the result is shared with the other copies")
    ms = [f for f in P.methods_of(COW) if f.kind == "method"]
    chk.require(len(ms) > 15, "CloneOnWritePtr methods not found (%d)" % len(ms))
    # static helpers (cloneOrNull) return fresh clones, not the managed object
    cands = [f for f in ms if not f.d.get("const") and not f.d.get("static") and (_mutable_ret(f) or f.name.endswith("::release"))]
    verified = set()
    changed = True
    while changed:
        changed = False
        for f in cands:
            if f.id in verified:
                continue
            def good(q):
                return q["k"] == "call" and (q.get("fn") == COW + "::detach" or q.get("fid") in verified)
            if f.path_exists(None, "exit", good) is None and any(True for _, _, q in f.events(good)):
                verified.add(f.id)
                changed = True
    for f in sorted(cands, key=lambda f: f.id):
        chk.judge(f.id in verified, "HANDOUT", f.id.replace("SimTK::", ""), f.loc, "mutable access to the shared object is handed out without detach() on some path")
    # const members never hand out mutable access
    for f in ms:
        if f.d.get("const") and _mutable_ret(f):
            chk.violation("HANDOUT", f.id.replace("SimTK::", "") + ":const-hands-out-mutable", f.loc, "const member returns mutable access to the shared object")
    chk.rule("EFFECT", "detach() clones exactly when the object is shared (use_count() > 1), giving up one share and starting a fresh count of 1; copy construction/assignment "
             "share and increment the count (never clone); ClonePtr copy operations clone")
    d = P.fn(COW + "::detach")
    gb = guard_blocks(d, lambda c: c[0] in ("op", "opc") and c[1] == ">" and bool(sx_find(c[2], lambda y: y[0] in ("call", "dcall") and str(y[1]).endswith("use_count"))) and _is_lit(c[3], "1"), 0)
    chk.judge(len(gb) == 1, "EFFECT", "detach:guard-use_count>1", d.loc, "detach acts iff use_count() > 1")
    for g in gb:
        evs = d.blocks[g]["ev"]
        has_decr = any(e["k"] == "call" and str(e.get("fn", "")).endswith("decr") for e in evs)
        clone = [e for e in evs if bool(ev_write(e)) and field_of(ev_write(e)[0]) == COW + "::p" and sx_find(ev_write(e)[2], lambda y: y[0] in ("dcall", "call") and str(y[1]).endswith("clone"))]
        cnt = [e for e in evs if bool(ev_write(e)) and field_of(ev_write(e)[0]) == COW + "::count" and sx_find(ev_write(e)[2], lambda y: y[0] == "new") and
               sx_find(ev_write(e)[2], lambda y: y[0] == "lit" and y[1] == "1")]
        chk.judge(has_decr, "EFFECT", "detach:decr-shared-count", d.loc, "the shared count loses this user")
        chk.judge(bool(clone), "EFFECT", "detach:p=p->clone()", d.loc, "the object is cloned")
        chk.judge(bool(cnt), "EFFECT", "detach:count=new long(1)", d.loc, "the clone starts with count 1")
    sh = [f for f in P.fns_named(COW + "::shareWith")]
    chk.require(bool(sh), "CloneOnWritePtr::shareWith not found")
    for f in sh:
        chk.judge(any(e["k"] == "call" and str(e.get("fn", "")).endswith("incr") for _, _, e in f.events()) and not any(str(e.get("fn", "")).endswith("clone") for _, _, e in f.calls()), "EFFECT", "shareWith:incr-no-clone", f.loc,
                  "sharing increments the count and does not clone")
    for f in P.methods_of(COW):
        if f.kind in ("copyctor", "copyassign"):
            chk.judge(any(str(e.get("fn", "")).endswith("shareWith") for _, _, e in f.calls()), "EFFECT", f.kind + ":shares", f.loc, "copy shares the object (copy-on-write)")
            if f.kind == "copyassign":
                p = f.path_exists(None, lambda q: str(q.get("fn", "")).endswith("shareWith") and q["k"] == "call", lambda q: q["k"] == "call" and str(q.get("fn", "")).endswith("reset"))
                chk.judge(p is None, "EFFECT", "copyassign:reset-before-share", f.loc, "the old share is released before sharing the new object", p)


def cloneptr(chk, P):
    n = 0
    for f in P.methods_of(CP):
        if f.kind == "copyctor" or (f.kind == "ctor" and f.d["params"] and "ClonePtr<" in f.d["params"][0][1] and "&&" not in f.d["params"][0][1]):
            ok = any(sx_find(i.get("init"), lambda y: y[0] in ("call", "dcall") and str(y[1]).endswith("cloneOrNull")) for i in f.d.get("inits", []))
            chk.judge(ok, "EFFECT", "ClonePtr:%s:clones" % f.id.replace("SimTK::", ""), f.loc, "copy construction clones the source object")
            n += 1
        if f.kind == "copyassign" or (f.name.endswith("::operator=") and f.d["params"] and f.d["params"][0][1].startswith("const SimTK::ClonePtr<")):
            ok = any(str(e.get("fn", "")).endswith("cloneOrNull") for _, _, e in f.calls())
            chk.judge(ok, "EFFECT", "ClonePtr:%s:clones" % f.id.replace("SimTK::", ""), f.loc, "copy assignment clones the source object")
            n += 1
    co = P.fns_named(CP + "::cloneOrNull")
    chk.judge(bool(co) and any(str(e.get("fn", "")).endswith("clone") for _, _, e in co[0].events(lambda e: e["k"] == "call")), "EFFECT", "ClonePtr:cloneOrNull->clone()", co[0].loc if co else "",
              "cloneOrNull calls clone() on a non-null source")


def noflow(chk, P):
    chk.rule("NOFLOW", "copy constructor and copy assignment of ReferencePtr, ResetOnCopy(Helper) and ReinitOnCopy(Helper) never read the source object's payload "
             "(ReinitOnCopy may read only the source's remembered initial value m_reinitValue); passing the source on is allowed only to the copy operation of their own helper base")
    for cls, allowed in sorted(NOFLOW_CLASSES.items()):
        fns = [f for f in P.methods_of(cls) if f.kind in ("copyctor", "copyassign")]
        chk.judge(len(fns) >= 2, "NOFLOW", cls.replace("SimTK::", "") + ":has-copy-ops", "", "copy constructor and copy assignment are user-provided (found %d)" % len(fns))
        for f in fns:
            src = f.d["params"][0][0] if f.d["params"] else None
            bad = []
            def from_src(x):
                return bool(sx_find(x, lambda y: y[0] == "var" and y[1] == src)) if src else False
            # reads of members of the source
            for _, _, e in f.events(lambda e: e["k"] in ("mem", "dmem")):
                if from_src(e["base"]):
                    nm = e["field"].split("::")[-1]
                    if nm not in allowed:
                        bad.append("reads source." + nm)
            for i in f.d.get("inits", []):
                for y in sx_find(i.get("init"), lambda y: y[0] in ("mem", "dmem") and from_src(y[1])):
                    nm = str(y[2]).split("::")[-1]
                    if nm not in allowed:
                        bad.append("initialiser reads source." + nm)
                # whole source passed to a base/member initialiser: only to the own helper's copy constructor
                if from_src(i.get("init")) and not sx_find(i.get("init"), lambda y: y[0] in ("mem", "dmem")):
                    tgt = i.get("base") or i.get("field") or ""
                    if "Helper" not in tgt and not tgt.endswith("::Super") and "delegating" not in i:
                        bad.append("source passed to initialiser of " + tgt)
            for _, _, e in f.calls():
                if any(from_src(a) and not sx_find(a, lambda y: y[0] in ("mem", "dmem")) for a in call_args(e)):
                    n = str(e.get("fn", ""))
                    if n.endswith("operator=") or n in ("!=", "==") or e.get("op") in ("==", "!="):
                        continue   # base-class copy assignment (checked as its own NOFLOW instance) / self-assignment test on addresses
                    bad.append("source passed to " + n)
            # method calls on the source (src.get(), src.release() ...)
            for _, _, e in f.events(lambda e: e["k"] == "call"):
                o = call_obj(e)
                if o is not None and var_of(o) == src and not str(e.get("fn", "")).endswith("operator="):
                    bad.append("calls source." + str(e.get("fn", "")).split("::")[-1])
            chk.judge(not bad, "NOFLOW", "%s:%s" % (cls.replace("SimTK::", ""), f.kind), f.loc, "copy operation lets the source's value through: %s" % bad[:3])


def remember(chk, P):
    chk.rule("REMEMBER", "ReinitOnCopyHelper (both specialisations): the remembered initial value m_reinitValue of a copy- or move-constructed object is the SOURCE's remembered "
             "initial value -- written explicitly in the initialiser list from source.m_reinitValue, or by delegating to the value constructor with source.m_reinitValue -- "
             "never the default member initialiser (which copies the object's current value, so that a later copy would carry the value through); the value constructors "
             "set it from their argument; the two specialisations agree constructor by constructor")
    table = {}
    for f in sorted(P.all_fns(), key=lambda f: f.id):
        if "ReinitOnCopyHelper<" not in f.name or (f.cls or "").split("::")[-1] != "ReinitOnCopyHelper" or f.kind not in ("ctor", "copyctor", "movector"):
            continue
        spec = "scalar" if ", true>" in f.name else "class"
        ps = f.d.get("params", [])
        src = ps[0][0] if ps else None
        inits = f.d.get("inits", [])
        own = [i for i in inits if str(i.get("field", "")).endswith("::m_reinitValue") and i.get("written")]
        deleg = [i for i in inits if "ReinitOnCopyHelper" in str(i.get("base", "")) and i.get("written")]

        def origin(x):
            if x is None:
                return "default-member-initialiser"
            if sx_find(x, lambda y: y[0] in ("mem", "dmem") and str(y[2]).split("::")[-1] == "m_reinitValue" and var_of(y[1]) == src):
                return "source.m_reinitValue"
            if sx_find(x, lambda y: y[0] in ("mem", "dmem") and var_of(y[1]) == src):
                return "source." + str(sx_find(x, lambda y: y[0] in ("mem", "dmem") and var_of(y[1]) == src)[0][2]).split("::")[-1]
            if sx_find(x, lambda y: y[0] == "var" and y[1] == src):
                return "argument"
            if sx_find(x, lambda y: y[0] == "this"):
                return "own-value"
            return "value-initialised" if x in (["initlist", []],) else sx_str(x)
        if own:
            o = origin(own[0]["init"])
        elif deleg:
            o = "delegates(" + origin(deleg[0]["init"]) + ")"
        else:
            o = origin(None)
        kind = {"copyctor": "copy", "movector": "move"}.get(f.kind) or ("default" if not ps else ("from-" + ("rvalue" if ps[0][1].endswith("&&") else "lvalue")))
        table[(spec, kind)] = (o, f)
        if f.kind in ("copyctor", "movector"):
            chk.judge(o in ("source.m_reinitValue", "delegates(source.m_reinitValue)"), "REMEMBER", "%s:%s-constructor:m_reinitValue<-source.m_reinitValue" % (spec, kind), f.loc,
                      "the remembered initial value of a %s-constructed object comes from: %s" % (kind, o))
        elif kind.startswith("from-"):
            chk.judge(o in ("argument", "own-value"), "REMEMBER", "%s:%s-constructor:m_reinitValue<-the-given-value" % (spec, kind), f.loc, "comes from: %s" % o)
    kinds = sorted({k for _, k in table})
    for k in kinds:
        a, b = table.get(("scalar", k)), table.get(("class", k))
        if a and b and k in ("copy", "move"):
            chk.judge(a[0].replace("delegates(", "").rstrip(")") == b[0].replace("delegates(", "").rstrip(")"), "REMEMBER", "siblings-agree:%s" % k, b[1].loc, "scalar helper: %s; class helper: %s" % (a[0], b[0]))
    chk.shape(("scalar", "move") in table and ("class", "move") in table and ("scalar", "copy") in table and ("class", "copy") in table, "REMEMBER", "helper-constructors-found", "",
              "constructors seen: %s" % sorted("%s/%s" % k for k in table))


_C = "SimTKcommon/include/SimTKcommon/internal/CloneOnWritePtr.h"
_R = "SimTKcommon/include/SimTKcommon/internal/ReferencePtr.h"
_I = "SimTKcommon/include/SimTKcommon/internal/ReinitOnCopy.h"
_K = "SimTKcommon/include/SimTKcommon/internal/ClonePtr.h"
_A = "SimTKcommon/include/SimTKcommon/internal/Array.h"
MUTATIONS = [
    dict(name="seeded (sub-agent): class-type ReinitOnCopy move constructor leaves the remembered value to the default member initialiser", arm=True, file=_I,
         old="    :   T(std::move(source)), m_reinitValue(std::move(source.m_reinitValue)) {}", new="    :   T(std::move(source)) {}", expect="REMEMBER:class:move-constructor"),
    dict(name="scalar ReinitOnCopy move constructor remembers the moved value", file=_I,
         old="        m_reinitValue(std::move(source.m_reinitValue)) {}", new="        m_reinitValue(source.m_value) {}", expect="REMEMBER:scalar:move-constructor"),
    dict(name="seeded (sub-agent): insertGapAt moves the elements out first and destroys only those before the gap", arm=True, file=_A,
         old="        moveConstructThenDestructSource(newdata, newdata+before, data());\n        // Copy the elements at and after the insertion point, leaving a gap\n        // of n elements.\n        moveConstructThenDestructSource(newdata+before+n,\n                                        newdata+before+n+after,\n                                        p); // i.e., pData+before",
         new="        moveConstruct(newdata, newdata+before, data());\n        moveConstruct(newdata+before+n, newdata+before+n+after, p);\n        destruct(data(), p);",
         expect="RELOCATE:insertGapAt"),
    dict(name="shrink_to_fit copies the elements and frees the old buffer without destroying them", file=_A,
         old="    T* newData = allocN(size());\n    moveConstructThenDestructSource(newData, newData+size(), data());\n    deallocateNoDestruct(); // data()=0, allocated()=0, size() unchanged",
         new="    T* newData = allocN(size());\n    moveConstruct(newData, newData+size(), data());\n    deallocateNoDestruct(); // data()=0, allocated()=0, size() unchanged",
         expect="RELOCATE:shrink_to_fit"),
    dict(name="CloneOnWritePtr::upd() forgets to detach", arm=True, file=_C,
         old="    T* upd() {detach(); return p;}", new="    T* upd() {return p;}", expect="HANDOUT:CloneOnWritePtr::upd()"),
    dict(name="release() hands out a shared object", file=_C,
         old="        detach(); // now use count is 1 or 0\n        T* save = p;", new="        T* save = p;", expect="HANDOUT:CloneOnWritePtr::release()"),
    dict(name="detach when count >= 1 keeps sharing semantics wrong (clone dropped)", file=_C,
         old="        {   decr(); p=p->clone(); count=new long(1); }", new="        {   decr(); count=new long(1); }", expect="EFFECT:detach:p=p->clone()"),
    dict(name="ReferencePtr copy constructor copies the pointer", arm=True, file=_R,
         old="    ReferencePtr(const ReferencePtr&) noexcept : p(nullptr) {}", new="    ReferencePtr(const ReferencePtr& src) noexcept : p(src.p) {}", expect="NOFLOW:ReferencePtr:copyctor"),
    dict(name="ReinitOnCopy copy constructor takes the current value", file=_I,
         old="    :   ReinitOnCopyHelper(source.m_reinitValue) {}", new="    :   ReinitOnCopyHelper(source.m_value) {}", occurrence=0, expect="NOFLOW:ReinitOnCopyHelper:copyctor"),
    dict(name="ClonePtr copy constructor shares the pointer", file=_K,
         old="    ClonePtr(const ClonePtr& src) : p(cloneOrNull(src.p)) {}", new="    ClonePtr(const ClonePtr& src) : p(const_cast<T*>(src.get())) {}", expect="EFFECT:ClonePtr:"),
]
