"""C30 -- Polynomial roots are roots (closed-form homogeneity and driver bookkeeping clauses only).

Whether rpoly / cpoly converge and how accurate the roots are is numerical and NOT decided.  Decided from the shape of
PolynomialRootFinder.cpp, for every input:
 HOMOG   the roots of a polynomial do not change when all its coefficients are multiplied by the same factor.  The closed-form quadratic code
         is typed with HOMOGENEITY DEGREES (coefficients: 1; products add, quotients subtract, sqrt halves, sums / differences / comparisons
         need equal degrees, literals fit anywhere in a sum and count 0 in a product): every value stored into `roots` must have degree 0,
         every sum and every comparison must be homogeneous, and a coefficient-derived quantity may be compared with a literal only if the
         literal is 0.  A formula that fails this cannot return roots for all inputs (it is right for at most one scale of the coefficients).
 COPY    the general-degree and cubic drivers hand the solver all n+1 coefficients in order (real and imaginary parts from the same index),
         the degree the result array has, and copy every (real, imaginary) pair of the solver's output into the root of the SAME index.
 STATUS  a zero leading coefficient throws before anything else; the solver's failure codes (-1, no root found) throw."""
from fractions import Fraction
from ..facts import extract, units_matching, Program, sx_find, sx_str
from ..match import call_args, call_obj, var_of, field_of, ev_write, known_edges, only_via, expand_locals
from ..columns import _loop_var, _steps, _lit

UNITS = r"SimTKcommon/Polynomial/src/PolynomialRootFinder\.cpp$"
LIT = "lit"


class Inhomogeneous(Exception):
    pass


class Untyped(Exception):
    pass


def _strip(x):
    while isinstance(x, list) and x and x[0] in ("cast", "conv", "paren"):
        x = x[2] if x[0] == "cast" else x[1]
    return x


def _is_zero(x):
    x = _strip(x)
    if isinstance(x, list) and x[:1] == ["un"] and x[1] == "-":
        return _is_zero(x[2])
    if isinstance(x, list) and x[:1] == ["ctor"] and len(x[2]) >= 1:
        return all(_is_zero(y) for y in x[2])
    if not (isinstance(x, list) and x[:1] == ["lit"]):
        return False
    try:
        return float(str(x[1]).rstrip("fFlL")) == 0.0
    except ValueError:
        return False


def _unify(a, b, what):
    if a == LIT:
        return b
    if b == LIT or a == b:
        return a
    raise Inhomogeneous("%s: degrees %s and %s" % (what, a, b))


def degree(x, env, coefv, notes):
    """homogeneity degree of x in the polynomial's coefficients (Fraction), or LIT for a pure constant"""
    x = _strip(x)
    if not isinstance(x, list) or not x:
        raise Untyped(sx_str(x))
    k = x[0]
    if k == "lit":
        return LIT
    if k == "var":
        if x[1] in env:
            return env[x[1]]
        raise Untyped("variable " + x[1])
    if k in ("opc", "idx") and (var_of(x[2] if k == "opc" else x[1]) == coefv) and (x[1] == "[]" or k == "idx"):
        return Fraction(1)
    if k == "ctor":
        if not x[2]:
            return LIT
        d = LIT
        for y in x[2]:
            d = _unify(d, degree(y, env, coefv, notes), "parts of " + sx_str(x)[:50])
        return d
    if k in ("un", "opc") and len(x) == 3 and x[1] in ("-", "+"):
        return degree(x[2], env, coefv, notes)
    if k == "cond" and len(x) == 4:
        degree(x[1], env, coefv, notes)
        return _unify(degree(x[2], env, coefv, notes), degree(x[3], env, coefv, notes), "branches of " + sx_str(x)[:50])
    if k in ("op", "opc") and len(x) == 4:
        o = x[1]
        if o in ("+", "-"):
            return _unify(degree(x[2], env, coefv, notes), degree(x[3], env, coefv, notes), sx_str(x)[:60])
        if o in ("*", "/"):
            a, b = degree(x[2], env, coefv, notes), degree(x[3], env, coefv, notes)
            a = Fraction(0) if a == LIT else a
            b = Fraction(0) if b == LIT else b
            r = a + b if o == "*" else a - b
            return r
        if o in ("<", ">", "<=", ">=", "==", "!="):
            a, b = degree(x[2], env, coefv, notes), degree(x[3], env, coefv, notes)
            if a == LIT and b == LIT:
                return LIT
            if a == LIT or b == LIT:
                litside, other = (x[2], b) if a == LIT else (x[3], a)
                if other != 0 and not _is_zero(litside):
                    raise Inhomogeneous("%s compares a quantity of degree %s with a non-zero constant" % (sx_str(x)[:60], other))
                return LIT
            _unify(a, b, sx_str(x)[:60])
            return LIT
        if o in ("&&", "||"):
            degree(x[2], env, coefv, notes)
            degree(x[3], env, coefv, notes)
            return LIT
    if k == "un" and len(x) == 3 and x[1] == "!":
        degree(x[2], env, coefv, notes)
        return LIT
    if k == "call":
        name = str(x[1]).split("::")[-1]
        args = x[3] if len(x) > 3 and isinstance(x[3], list) else []
        if name == "sqrt" and len(args) == 1:
            d = degree(args[0], env, coefv, notes)
            return LIT if d == LIT else d / 2
        if name in ("abs", "fabs", "conj", "real", "imag", "norm") :
            src = args[0] if args else x[2]
            d = degree(src, env, coefv, notes)
            return d * 2 if name == "norm" and d != LIT else d
        if name in ("getEps", "getNaN", "getInfinity", "getSignificant", "getTiny"):
            return LIT
    raise Untyped(sx_str(x)[:80])


def homog(chk, P):
    chk.rule("HOMOG", "scale invariance of the closed-form quadratic: every value stored into `roots` has homogeneity degree 0 in the coefficients; every sum, difference and "
             "comparison is homogeneous; a coefficient-derived quantity is compared with a constant only if the constant is 0")
    fs = [f for f in P.all_fns() if f.name.endswith("PolynomialRootFinder::findRoots") and f.blocks and "Vec<3, " in f.d["params"][0][1] and "<T>" not in f.id and ", T>" not in f.id]
    chk.shape(len(fs) >= 2, "HOMOG", "quadratic-instances", "", "%d instantiated quadratic overloads" % len(fs))
    n = 0
    for f in sorted(fs, key=lambda g: g.id):
        coefv, rootsv = f.d["params"][0][0], f.d["params"][1][0]
        tag = ("complex" if "std::complex" in f.d["params"][0][1] else "real") + ("<float>" if "float" in f.id else "<double>")
        # walk blocks in a topological order of the acyclic CFG, environment per block = merge of the predecessors' (declarations are scoped, so a
        # variable is typed where it is declared; a name re-declared on another branch gets that branch's type)
        order, seen = [], set()

        def visit(b):
            if b in seen:
                return
            seen.add(b)
            for s in f.succs(b):
                visit(s)
            order.append(b)
        visit(f.entry)
        order.reverse()
        envs = {f.entry: {}}
        stores = 0
        for b in order:
            env = dict(envs.get(b, {}))
            for e in f.blocks[b]["ev"]:
                site = "%s:%d" % (f.file, e.get("line", f.line))
                try:
                    if e["k"] == "decl" and e.get("init") is not None:
                        env[e["var"]] = degree(e["init"], env, coefv, None)
                    elif e["k"] == "assign" and e["lhs"][:1] == ["var"] and e.get("rhs") is not None and e["lhs"][1] in env:
                        _unify(env[e["lhs"][1]], degree(e["rhs"], env, coefv, None), "assignment to " + e["lhs"][1])
                    w = ev_write(e) if e["k"] in ("call", "assign") else None
                    if w and w[1] == "=" and isinstance(w[0], list) and w[0][0] in ("opc", "idx") and var_of(w[0][2] if w[0][0] == "opc" else w[0][1]) == rootsv:
                        d = degree(w[2], env, coefv, None)
                        stores += 1
                        n += 1
                        chk.judge(d == LIT or d == 0, "HOMOG", "%s:%s=..@%d:degree-0" % (tag, sx_str(w[0]), e["line"] - f.line), site,
                                  "%s = %s has homogeneity degree %s in the coefficients: the stored value changes when the polynomial is multiplied by a constant" % (sx_str(w[0]), sx_str(w[2])[:70], d))
                except Inhomogeneous as ex:
                    n += 1
                    chk.violation("HOMOG", "%s:line+%d:homogeneous" % (tag, e.get("line", f.line) - f.line), site, str(ex))
                except Untyped as ex:
                    chk.shape(False, "HOMOG", "%s:line+%d:typable" % (tag, e.get("line", f.line) - f.line), site, "cannot assign a degree to %s" % ex)
            t = f.blocks[b].get("term")
            if t and t.get("cond") is not None:
                site = "%s:%d" % (f.file, t.get("line", f.line))
                try:
                    degree(t["cond"], env, coefv, None)
                    n += 1
                    chk.ok("HOMOG", "%s:test@%d:homogeneous" % (tag, t.get("line", f.line) - f.line), site, sx_str(t["cond"])[:70])
                except Inhomogeneous as ex:
                    n += 1
                    chk.violation("HOMOG", "%s:test@%d:homogeneous" % (tag, t.get("line", f.line) - f.line), site, str(ex))
                except Untyped as ex:
                    chk.shape(False, "HOMOG", "%s:test@%d:typable" % (tag, t.get("line", f.line) - f.line), site, "cannot assign a degree to %s" % ex)
            for s in f.succs(b):
                envs.setdefault(s, {})
                for k_, v_ in env.items():
                    envs[s].setdefault(k_, v_)
        chk.shape(stores >= 4, "HOMOG", tag + ":root-stores", f.loc, "%d stores into %s" % (stores, rootsv))
    chk.floor("HOMOG", 40)


def drivers(chk, P):
    chk.rule("COPY", "the cubic and general-degree drivers pass every coefficient, in order, and the degree of the result array; every (real, imaginary) output pair goes to the root of the same index")
    chk.rule("STATUS", "a zero leading coefficient throws before anything else; the solver's failure codes throw")
    fs = [f for f in P.all_fns() if f.name.endswith("PolynomialRootFinder::findRoots") and f.blocks and "<T>" not in f.id and ", T>" not in f.id]
    for f in sorted(fs, key=lambda g: g.id):
        coefv, rootsv = f.d["params"][0][0], f.d["params"][1][0]
        kind = "quadratic" if "Vec<3, " in f.d["params"][0][1] else ("cubic" if "Vec<4, " in f.d["params"][0][1] else "general")
        tag = "%s:%s%s" % (kind, "complex" if "std::complex" in f.d["params"][0][1] else "real", "<float>" if "float" in f.id else "<double>")
        # STATUS: the first branch tests the leading coefficient against zero and its true side throws
        t0 = None
        b = f.entry
        while b is not None and t0 is None:
            t = f.blocks[b].get("term")
            if t and t.get("cond") is not None:
                t0 = (b, t)
            else:
                ss = f.succs(b)
                b = ss[0] if len(ss) == 1 else None
        lead = lambda x: (isinstance(_strip(x), list) and _strip(x)[0] in ("opc", "idx") and var_of(_strip(x)[2] if _strip(x)[0] == "opc" else _strip(x)[1]) == coefv and _lit(_strip(x)[-1], ("0",))) or \
            (isinstance(_strip(x), list) and _strip(x)[:1] == ["var"] and _lead_alias(f, _strip(x)[1], coefv))
        ok = t0 is not None and isinstance(t0[1]["cond"], list) and len(t0[1]["cond"]) == 4 and t0[1]["cond"][1] == "==" and lead(t0[1]["cond"][2]) and _is_zero(t0[1]["cond"][3])
        if ok:
            tb = f.succs(t0[0])[0]
            ok = any(q["k"] == "throw" for q in f.blocks[tb]["ev"]) and f.path_exists((tb, -1), "exit", lambda q: False, lift=0) is None
        chk.judge(ok, "STATUS", tag + ":zero-leading-coefficient-throws-first", f.loc, "")
        if kind == "quadratic":
            continue
        solver = [(b_, i, e) for b_, i, e in f.calls() if str(e.get("fn", "")).split("::")[-1] == "findRoots" and
                  any(seg.startswith(("RPoly", "CPoly")) for seg in str(e.get("fn", "")).split("::"))]
        # agreement between the loops of one driver: every loop that subscripts the coefficient array with its loop variable runs over the whole
        # array (n+1 entries) -- a scan or copy that stops one short silently ignores the constant term
        short = []
        nloops = 0
        for h, body in f.loops().items():
            t = f.blocks[h].get("term", {})
            c = t.get("cond")
            cmps = sx_find(c, lambda y: y[0] == "op" and len(y) == 4 and y[1] in ("<", "<=") and isinstance(y[2], list) and y[2][:1] == ["var"])
            for cm in cmps[:1]:
                iv = cm[2][1]
                reads = [q for b_ in body for q in f.blocks[b_]["ev"] if sx_find([q.get("x"), q.get("rhs"), q.get("init"), f.blocks[b_].get("term", {}).get("cond") if f.blocks[b_].get("term") else None],
                                                                             lambda y: y[0] in ("opc", "idx") and var_of(y[2] if y[0] == "opc" else y[1]) == coefv and _strip(y[-1]) == ["var", iv])]
                if not reads:
                    continue
                nloops += 1
                whole = _covers_all_coefficients(f, cm, rootsv, coefv)
                if not whole:
                    short.append("line %s: %s" % (t.get("line"), sx_str(cm)))
        if kind == "general":
            chk.judge(nloops >= 1 and not short, "COPY", tag + ":every-loop-over-the-coefficients-covers-all-n+1", f.loc, "; ".join(short) if short else "%d loops" % nloops)
        if not chk.shape(len(solver) == 1, "COPY", tag + ":solver-call", f.loc, "%d" % len(solver)):
            continue
        sb, si, se = solver[0]
        a = call_args(se)
        cplx = len(a) == 5
        outr, outi = var_of(_strip(a[-2])), var_of(_strip(a[-1]))
        ins = [var_of(_strip(z)) for z in a[:2 if cplx else 1]]
        degarg = _strip(a[2 if cplx else 1])
        nroots = 3 if kind == "cubic" else None
        if kind == "cubic":
            okd = _lit(degarg, ("3",))
        else:
            dv = expand_locals(f, degarg)
            okd = bool(sx_find(dv, lambda y: y[0] == "call" and str(y[1]).endswith("::size") and var_of(y[2]) == rootsv))
        chk.judge(okd, "COPY", tag + ":degree-is-the-number-of-roots-asked-for", "%s:%d" % (f.file, se["line"]), "degree argument %s" % sx_str(degarg))
        # coefficient copy
        part = {0: None, 1: None}
        okc = True
        for k_, v in enumerate(ins):
            want = None if not cplx else ("real" if k_ == 0 else "imag")
            ds = [d for _, _, d in f.events(lambda q: q["k"] == "decl" and q["var"] == v)]
            init = ds[0].get("init") if len(ds) == 1 else None
            if isinstance(init, list) and init[:1] == ["initlist"]:
                items = init[1]
                good = len(items) == 4
                for j, it in enumerate(items):
                    good = good and _coef_part(it, coefv, ["lit", str(j)], want)
                okc = okc and good
            else:
                # filled by a loop i = 0 .. n (n+1 entries)
                ws = [(b_, q) for b_, _, q in f.events(lambda q: q["k"] == "assign" and q["op"] == "=" and isinstance(q["lhs"], list) and q["lhs"][0] in ("idx", "opc") and var_of(q["lhs"][1] if q["lhs"][0] == "idx" else q["lhs"][2]) == v)]
                good = len(ws) == 1
                if good:
                    b_, q = ws[0]
                    ix = _strip(q["lhs"][-1])
                    loops = f.loops()
                    hs = [h for h in loops if b_ in loops[h]]
                    good = bool(hs) and ix[:1] == ["var"] and _coef_part(q["rhs"], coefv, ix, want)
                    if good:
                        h = min(hs, key=lambda h_: len(loops[h_]))
                        iv, c = _loop_var(f, h)
                        d0 = [d for _, _, d in f.events(lambda z: z["k"] == "decl" and z["var"] == iv) if d["line"] <= q["line"]]
                        good = iv == ix[1] and isinstance(c, list) and _covers_all_coefficients(f, c, rootsv, coefv) and bool(d0) and _lit(sorted(d0, key=lambda d: d["line"])[-1].get("init"), ("0",)) and _steps(f, loops[h], iv) == ["++"]
                okc = okc and good
            # before the solver call
        chk.judge(okc, "COPY", tag + ":all-coefficients-in-order", f.loc, "solver inputs %s" % ins)
        # output copy (in the driver, or in a helper the driver hands the three arrays to)
        F, RV, OR, OI, site_ev = f, rootsv, outr, outi, None
        ws = _root_writes(F, RV)
        if not ws:
            for b_, i_, e_ in f.calls():
                a_ = [var_of(_strip(z)) for z in call_args(e_)]
                gs = [g_ for g_ in P.by_id.get(e_.get("fid"), []) if g_.blocks]
                if not gs:      # an implicitly instantiated helper template: analyse its pattern
                    gs = [g_ for g_ in P.all_fns() if g_.name == str(e_.get("fn", "")) and g_.blocks and len(g_.d["params"]) == len(a_)][:1]
                if rootsv in a_ and outr in a_ and outi in a_ and len(gs) == 1 and len(gs[0].d["params"]) == len(a_):
                    pn = [p_[0] for p_ in gs[0].d["params"]]
                    F, RV, OR, OI, site_ev = gs[0], pn[a_.index(rootsv)], pn[a_.index(outr)], pn[a_.index(outi)], (b_, i_, e_)
                    ws = _root_writes(F, RV)
                    break
        okw = bool(ws)
        idxs = []
        for b_, w in ws:
            ix = _strip(w[0][-1])
            src = _strip(w[2])
            pair = isinstance(src, list) and src[:1] == ["ctor"] and len(src[2]) == 2 and \
                _elem_of(src[2][0], OR, ix) and _elem_of(src[2][1], OI, ix)
            okw = okw and pair
            idxs.append(ix)
        lits = sorted(str(i[1]) for i in idxs if i[:1] == ["lit"])
        if kind == "cubic" and len(lits) == len(idxs) and idxs:
            okw = okw and lits == ["0", "1", "2"]
        else:
            loops = F.loops()
            okw = okw and len(ws) == 1 and idxs[0][:1] == ["var"]
            if okw:
                hs = [h for h in loops if ws[0][0] in loops[h]]
                okw = bool(hs)
                if okw:
                    h = min(hs, key=lambda h_: len(loops[h_]))
                    iv, c = _loop_var(F, h)
                    bound = expand_locals(F, c[3]) if isinstance(c, list) else None
                    d0 = sorted([d for _, _, d in F.events(lambda z: z["k"] == "decl" and z["var"] == iv)], key=lambda d: d["line"])
                    from0 = bool(d0) and any(_lit(d.get("init"), ("0",)) for d in d0)
                    if kind == "cubic":
                        okb = _lit(bound, ("3",)) and c[1] == "<"
                    else:
                        okb = c[1] == "<" and bool(sx_find(bound, lambda y: y[0] == "call" and str(y[1]).endswith("::size") and var_of(y[2]) == RV)) and not (isinstance(bound, list) and bound[:2] == ["op", "+"])
                    okw = iv == idxs[0][1] and okb and from0 and _steps(F, loops[h], iv) == ["++"]
        chk.judge(okw, "COPY", tag + ":root-i-from-output-pair-i", f.loc, "roots[i] = complex(%s[i], %s[i]) for every i" % (outr, outi))
        # the copies happen after the solver call
        if site_ev is None:
            after = all(f.path_exists((sb, si), lambda q, w=w: ev_write(q) is not None and ev_write(q)[0] == w[0], lambda q: False, lift=0) is not None for _, w in ws)
        else:
            after = f.path_exists((sb, si), lambda q: q is site_ev[2], lambda q: False, lift=0) is not None
        chk.judge(after, "COPY", tag + ":roots-copied-after-the-solver-ran", f.loc, "")
        # STATUS: -1 and <= 0 throw
        rv = [d["var"] for _, _, d in f.events(lambda q: q["k"] == "decl" and q.get("init") == se["x"])]
        if chk.shape(len(rv) == 1, "STATUS", tag + ":solver-result-variable", f.loc, ""):
            rv = rv[0]
            notm1 = known_edges(f, lambda c: isinstance(c, list) and len(c) == 4 and c[1] == "!=" and _strip(c[2]) == ["var", rv] and _minus1(c[3]),
                                lambda c: isinstance(c, list) and len(c) == 4 and c[1] == "==" and _strip(c[2]) == ["var", rv] and _minus1(c[3]))
            pos = known_edges(f, lambda c: isinstance(c, list) and len(c) == 4 and ((c[1] == ">" and _strip(c[2]) == ["var", rv] and _is_zero(c[3])) or (c[1] == ">=" and _strip(c[2]) == ["var", rv] and _lit(c[3], ("1",)))),
                              lambda c: isinstance(c, list) and len(c) == 4 and c[1] == "<=" and _strip(c[2]) == ["var", rv] and _is_zero(c[3]))
            p1 = f.path_exists((sb, si), "exit", lambda q: False, avoid_edges=notm1, lift=0)
            p2 = f.path_exists((sb, si), "exit", lambda q: False, avoid_edges=pos, lift=0)
            chk.judge(bool(notm1) and p1 is None, "STATUS", tag + ":solver-code--1-throws", f.loc, "", p1)
            chk.judge(bool(pos) and p2 is None, "STATUS", tag + ":no-root-found-throws", f.loc, "", p2)
    chk.floor("COPY", 24)
    chk.floor("STATUS", 20)


def _root_writes(F, RV):
    return [(b_, w) for b_, _, e in F.events(lambda q: q["k"] in ("call", "assign")) for w in [ev_write(e)] if w and w[1] == "=" and isinstance(w[0], list) and w[0][0] in ("opc", "idx") and
            var_of(w[0][2] if w[0][0] == "opc" else w[0][1]) == RV]


def _covers_all_coefficients(f, cm, rootsv, coefv):
    """the comparison `i < bound` / `i <= bound` of a loop lets i run over all n+1 coefficients (n = roots.size())"""
    bound = expand_locals(f, cm[3])
    is_n = lambda x: bool(sx_find(x, lambda y: y[0] == "call" and str(y[1]).endswith("::size") and var_of(y[2]) == rootsv))
    plus1 = isinstance(bound, list) and bound[:2] == ["op", "+"] and _lit(bound[3], ("1",)) and is_n(bound[2])
    whole_arr = bool(sx_find(bound, lambda y: y[0] == "call" and str(y[1]).endswith("::size") and var_of(y[2]) == coefv))
    if cm[1] == "<":
        return plus1 or whole_arr
    if cm[1] == "<=":
        return is_n(bound) and not (isinstance(bound, list) and bound[:2] == ["op", "+"])
    return False


def _minus1(x):
    x = _strip(x)
    return (isinstance(x, list) and x[:2] == ["un", "-"] and _lit(x[2], ("1",))) or _lit(x, ("-1",))


def _lead_alias(f, v, coefv):
    ds = [d for _, _, d in f.events(lambda q: q["k"] == "decl" and q["var"] == v)]
    if len(ds) != 1:
        return False
    i = _strip(ds[0].get("init"))
    return isinstance(i, list) and i[0] in ("opc", "idx") and var_of(i[2] if i[0] == "opc" else i[1]) == coefv and _lit(i[-1], ("0",))


def _elem_of(x, arr, ix):
    x = _strip(x)
    return isinstance(x, list) and x[0] in ("idx", "opc") and var_of(x[1] if x[0] == "idx" else x[2]) == arr and _strip(x[-1]) == ix


def _coef_part(x, coefv, ix, part):
    """x is coefficients[ix] (part None) or coefficients[ix].real() / .imag()"""
    x = _strip(x)
    if part is not None:
        if not (isinstance(x, list) and x[:1] == ["call"] and str(x[1]).split("::")[-1] == part):
            return False
        x = _strip(x[2])
    return isinstance(x, list) and x[0] in ("opc", "idx") and var_of(x[2] if x[0] == "opc" else x[1]) == coefv and _strip(x[-1]) == ix


def run(chk, tier, overlays=()):
    units = units_matching(UNITS)
    P = Program(extract(units, hdr="^$", overlays=overlays))
    chk.units += units
    chk.nfunctions += len(P.fns)
    homog(chk, P)
    drivers(chk, P)


_F = "SimTKcommon/Polynomial/src/PolynomialRootFinder.cpp"
MUTATIONS = [
    dict(name="real quadratic, b == 0: sqrt(D)/2*a (pre-fix code, F17)", arm=True, file=_F,
         old="            T root = std::sqrt(discriminant)/((T) 2.0*a);", new="            T root = std::sqrt(discriminant)/(T) 2.0*a;", expect="HOMOG:real<double>"),
    dict(name="complex quadratic, b == 0: sqrt(D)/2*a (pre-fix code, F17)", arm=True, file=_F,
         old="        complex<T> root = std::sqrt(discriminant)/(((T) 2.0)*a);", new="        complex<T> root = std::sqrt(discriminant)/((T) 2.0)*a;", expect="HOMOG:complex<double>"),
    dict(name="double-root tolerance made absolute", file=_F,
         old="    T tol = (T) 2.0*NTraits<T>::getEps()*b2;", new="    T tol = (T) 2.0*NTraits<T>::getEps();", expect="HOMOG:real"),
    dict(name="discriminant b - 4ac", file=_F,
         old="    T discriminant = b2 - (T) 4.0*a*c;", new="    T discriminant = b - (T) 4.0*a*c;", expect="HOMOG:real"),
    dict(name="general driver copies only n coefficients", arm=True, file=_F,
         old="        for (int i = 0; i < n+1; ++i)\n            coeff[i] = coefficients[i];", new="        for (int i = 0; i < n; ++i)\n            coeff[i] = coefficients[i];", expect="COPY:general:real"),
    dict(name="seeded (sub-agent): all-real scan of the complex driver stops before the constant term", file=_F,
         old="    T *coeffr = new T[n+1];\n    T *coeffi = new T[n+1];", new="    bool allReal = true;\n    for (int i = 0; i < n && allReal; ++i)\n        allReal = (coefficients[i].imag() == 0);\n    if (allReal) {\n        Vector_<T> realCoeff(n+1);\n        for (int i = 0; i < n+1; ++i)\n            realCoeff[i] = coefficients[i].real();\n        findRoots(realCoeff, roots);\n        return;\n    }\n    T *coeffr = new T[n+1];\n    T *coeffi = new T[n+1];",
         expect="COPY:general:complex<double>:every-loop-over-the-coefficients-covers-all-n+1"),
    dict(name="complex driver takes both parts from real()", file=_F,
         old="            coeffi[i] = coefficients[i].imag();", new="            coeffi[i] = coefficients[i].real();", expect="COPY:general:complex"),
    dict(name="cubic driver pairs the third root with the second imaginary part", file=_F,
         old="    roots[2] = complex<T>(rootr[2], rooti[2]);\n\n    SimTK_ERRCHK_ALWAYS(nrootsFound != -1,\n        \"PolynomialRootFinder::findRoots()\",\n        \"Leading coefficient is zero; can't solve.\");\n    SimTK_ERRCHK_ALWAYS(nrootsFound > 0,\n        \"PolynomialRootFinder::findRoots()\",\n        \"Failure to find any roots for polynomial of order 3.\");\n}\n\ntemplate <class T>\nvoid PolynomialRootFinder::findRoots(const Vec<4,complex<T> >&",
         new="    roots[2] = complex<T>(rootr[2], rooti[1]);\n\n    SimTK_ERRCHK_ALWAYS(nrootsFound != -1,\n        \"PolynomialRootFinder::findRoots()\",\n        \"Leading coefficient is zero; can't solve.\");\n    SimTK_ERRCHK_ALWAYS(nrootsFound > 0,\n        \"PolynomialRootFinder::findRoots()\",\n        \"Failure to find any roots for polynomial of order 3.\");\n}\n\ntemplate <class T>\nvoid PolynomialRootFinder::findRoots(const Vec<4,complex<T> >&",
         expect="COPY:cubic:real"),
    dict(name="general driver ignores the 'no root found' code", file=_F,
         old="        SimTK_ERRCHK1_ALWAYS(nrootsFound > 0,\n            \"PolynomialRootFinder::findRoots()\",\n            \"Failure to find any roots for polynomial of order %d.\", n);\n    }\n    catch (...) {\n        delete[] coeff;",
         new="    }\n    catch (...) {\n        delete[] coeff;", expect="STATUS:general:real"),
]
