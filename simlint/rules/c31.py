"""C31 -- Random generators are deterministic and in range.

Decides 'deterministic functions of their seed' as an effect-set inclusion:
every piece of generator state that value production mutates is re-initialised
by setSeed() of the same dynamic class, or is dead until rewritten because it
is guarded by a flag/index that setSeed() resets."""
from ..facts import extract, units_matching, Program, AnalysisBroken, sx_find, sx_str
from ..match import ev_write, is_call, call_args, call_obj, field_of, var_of, guard_blocks, known_edges, only_via, effective_calls
from .c18 import _is_lit

RI = "SimTK::Random::RandomImpl"
UNITS = r"SimTKcommon/Random/src/Random\.cpp$"
# state that may survive setSeed() because it is unreadable until rewritten: field -> (guarding field, value the guard must be reset to)
DEAD_UNDER = {
    RI + "::buffer": (RI + "::nextIndex", "bufferSize", "the buffer is refilled before use whenever nextIndex >= bufferSize"),
    "SimTK::Random::Gaussian::GaussianImpl::nextGaussian": ("SimTK::Random::Gaussian::GaussianImpl::nextGaussianIsValid", "false",
                                                            "the saved second Gaussian deviate is used only while nextGaussianIsValid"),
}
PRODUCERS = ("getValue", "getNextRandom", "getInt", "fillArray")


def mods(P, fn, depth=2, seen=()):
    """fields of the generator written by fn (directly, through a deref'd pointer member passed to a callee, or via class-internal callees)"""
    out = set()
    for b, i, e in fn.events():
        if e["k"] == "mem" and e["acc"] in ("w", "rw", "refarg", "addr", "mcall"):
            out.add(e["field"])
        if e["k"] == "call":
            for a in call_args(e):
                if isinstance(a, list) and a[:2] == ["un", "*"] and field_of(a[2]):
                    out.add(field_of(a[2]) + "*")
            c = e.get("fid")
            if depth > 0 and c and c not in seen:
                for g in P.by_id.get(c, []):
                    if g.cls and "Random" in g.cls:
                        out |= mods(P, g, depth - 1, seen + (fn.id,))
    return out


def _guard_writes(P, fn, guard, depth=2, seen=()):
    """right-hand sides of the writes of field `guard` made by fn or by the class-internal helpers it calls"""
    out = [sx_str(ev_write(e)[2]) for _, _, e in fn.events(lambda e: bool(ev_write(e)) and field_of(ev_write(e)[0]) == guard)]
    if depth > 0:
        for _, _, e in fn.calls():
            c = e.get("fid")
            if c and c not in seen and c != fn.id:
                for g in P.by_id.get(c, []):
                    if g.cls and "Random" in g.cls and not g.name.endswith("::setSeed"):
                        out += _guard_writes(P, g, guard, depth - 1, seen + (fn.id,))
    return out


def run(chk, tier, overlays=()):
    units = units_matching(UNITS)
    P = Program(extract(units, hdr=r"Random/include/.*Random\.h$", overlays=overlays))
    chk.units += units
    chk.nfunctions += len(P.fns)
    chk.rule("EFFECT", "for RandomImpl and each subclass: mod-set(value producers) is a subset of reset-set(setSeed of that class, including the base setSeed it must call), "
             "except state tabled as dead-under-guard, for which setSeed resets the guard to the tabled value and every read of the state is dominated by a test of the guard")
    classes = [RI] + sorted(P.subclasses(RI))
    chk.require(len(classes) >= 3, "RandomImpl subclasses not found")
    base_set = P.fn(RI + "::setSeed")
    for cls in classes:
        prods = [f for f in P.all_fns() if f.cls in ([cls] + P.bases(cls)) and f.name.split("::")[-1] in PRODUCERS]
        m = set()
        for f in prods:
            m |= mods(P, f)
        setters = [f for f in P.methods_of(cls) if f.name.endswith("::setSeed")]
        reset = mods(P, base_set)
        if cls != RI:
            if setters:
                s = setters[0]
                chk.judge(any(True for _ in s.calls(RI + "::setSeed")), "EFFECT", cls + "::setSeed:calls-base", s.loc, "overriding setSeed must call RandomImpl::setSeed")
                p = s.path_exists(None, "exit", lambda q: is_call(q, RI + "::setSeed"))
                chk.judge(p is None, "EFFECT", cls + "::setSeed:calls-base-on-all-paths", s.loc, "on every path", p)
                reset |= mods(P, s)
        for fld in sorted(m):
            inst = "%s:%s" % (cls.split("::")[-1], fld.split("::")[-1])
            if fld in reset:
                chk.ok("EFFECT", inst + ":reset", "", "re-initialised by setSeed")
                continue
            if fld in DEAD_UNDER:
                guard, val, why = DEAD_UNDER[fld]
                ok = guard in reset
                # setSeed assigns the tabled value to the guard
                gw = []
                for s in [base_set] + setters:
                    gw += _guard_writes(P, s, guard)
                ok = ok and bool(gw) and all(val in g for g in gw)
                chk.judge(ok, "EFFECT", inst + ":dead-under-" + guard.split("::")[-1], "", "%s; setSeed must reset %s to %s (writes: %s)" % (why, guard.split("::")[-1], val, gw))
                continue
            chk.violation("EFFECT", inst + ":not-reset", "", "generator state %s is modified while producing values but not re-initialised by %s::setSeed: output after setSeed(s) depends on history" % (fld, cls))
    # the seed reaches the generator
    seed = base_set.d["params"][0][0]
    tgt = sorted({e["fn"] for f in P.all_fns() for _, _, e in f.calls() if str(e.get("fn", "")).split("::")[-1] == "init_gen_rand"})
    ig = [ee for t in tgt for _, _, _, ee in effective_calls(P, base_set, t)]
    chk.judge(len(ig) == 1 and var_of(call_args(ig[0])[0]) == seed, "EFFECT", "setSeed:init_gen_rand(seed)", base_set.loc, "the SFMT state is re-initialised from the seed argument")
    # reads of dead-under state are guarded
    gi = "SimTK::Random::Gaussian::GaussianImpl"
    gv = [f for f in P.methods_of(gi) if f.name.endswith("::getValue")]
    for f in gv:
        reads = [(b, i, e) for b, i, e in f.events(lambda e: e["k"] == "mem" and e["field"] == gi + "::nextGaussian" and e["acc"] == "r")]
        isflag = lambda c: isinstance(c, list) and bool(c) and c[0] == "mem" and c[2] == gi + "::nextGaussianIsValid"
        edges = known_edges(f, isflag, lambda c: False)
        gb = {b for b in f.blocks if only_via(f, b, edges)}
        chk.judge(bool(reads) and all(b in gb for b, i, e in reads), "EFFECT", "Gaussian:getValue:nextGaussian-read-under-flag", f.loc, "the saved deviate is read only under nextGaussianIsValid")
    gn = P.fn(RI + "::getNextRandom")
    reads = [(b, i, e) for b, i, e in gn.events(lambda e: e["k"] == "mem" and e["field"] == RI + "::buffer" and e["acc"] == "r")]
    is_refill = lambda q: q["k"] == "call" and q.get("fn", "").endswith("fill_array64")     # (lifted through helpers by path_exists)
    def cmp_(c, ops):
        return isinstance(c, list) and len(c) == 4 and c[0] == "op" and c[1] in ops and field_of(c[2]) == RI + "::nextIndex" and bool(sx_find(c[3], lambda y: y[0] in ("gvar", "mem", "ref") and str(y[-1]).endswith("bufferSize")))
    exhausted = known_edges(gn, lambda c: cmp_(c, (">=",)), lambda c: cmp_(c, ("<",)))
    tests = sorted({tb for tb, _ in exhausted})
    ok = bool(reads) and len(tests) == 1
    for b, i, e in reads:
        for tb, sb in sorted(exhausted):
            ok = ok and tb in gn.dominators().get(b, ())
            # on the "exhausted" side the buffer is refilled before it is read
            p = gn.path_exists((sb, -1), lambda q, e=e: q is e, is_refill)
            ok = ok and p is None
    chk.judge(ok, "EFFECT", "getNextRandom:buffer-read-after-refill-or-index-check", gn.loc, "the buffer is read only after the nextIndex test (refill when exhausted)")
    chk.floor("EFFECT", 12)
    derived(chk, P, classes)
    chk.floor("DERIVED", 3)


def derived(chk, P, classes):
    """cached derived fields: F is derived when every assignment to it in the class's methods has one and the same right-hand side built from other fields of the class"""
    chk.rule("DERIVED", "range bookkeeping: a field that the class always assigns as one and the same expression of its other fields (Uniform: range = max - min) is a cache of "
             "those fields; every method that writes one of the source fields re-assigns the derived field with that expression AFTER the write on every path, and the value "
             "producer reads the derived field (values lie in [min, min+range) = [min, max))")
    n = 0
    for cls in classes:
        ms = [f for f in P.methods_of(cls) if f.kind not in ("ctor", "dtor")]
        asg = {}
        for f in ms:
            for b, i, e in f.events(lambda e: e["k"] == "assign" and e["op"] == "=" and field_of(e["lhs"]) and field_of(e["lhs"]).startswith(cls + "::") and e.get("rhs") is not None):
                src = {y[2] for y in sx_find(e["rhs"], lambda y: y[0] == "mem" and y[2].startswith(cls + "::"))}
                if src and not sx_find(e["rhs"], lambda y: y[0] == "var"):
                    asg.setdefault(field_of(e["lhs"]), []).append((f, b, i, e, frozenset(src)))
        for fld, lst in sorted(asg.items()):
            shapes = {sx_str(e["rhs"]) for _, _, _, e, _ in lst}
            if len(lst) < 2 or len(shapes) != 1:
                continue
            srcs = lst[0][4]
            shape = next(iter(shapes))
            short = "%s:%s=%s" % (cls.split("::")[-1], fld.split("::")[-1], shape.replace("this.", ""))
            for f in ms:
                ws = [(b, i, e) for b, i, e in f.events(lambda e: e["k"] == "assign" and field_of(e["lhs"]) in srcs)]
                for b, i, e in ws:
                    n += 1
                    p = f.path_exists((b, i), "exit", lambda q: q["k"] == "assign" and field_of(q["lhs"]) == fld and q.get("rhs") is not None and sx_str(q["rhs"]) == shape)
                    chk.judge(p is None, "DERIVED", "%s:recomputed-after-%s::%s" % (short, f.name.split("::")[-1], field_of(e["lhs"]).split("::")[-1]), "%s:%d" % (f.file, e["line"]),
                              "%s writes %s; %s must be recomputed afterwards on every path" % (f.name.split("::")[-1], field_of(e["lhs"]).split("::")[-1], fld.split("::")[-1]), p)
            # the producer uses the cache
            for f in ms:
                if f.name.split("::")[-1] == "getValue":
                    n += 1
                    chk.judge(any(e["k"] == "mem" and e["field"] == fld for _, _, e in f.events()), "DERIVED", short + ":used-by-getValue", f.loc, "getValue reads %s" % fld.split("::")[-1])
    chk.shape(n >= 3, "DERIVED", "derived-field-sites>=3", "", "%d obligations generated (Uniform's range expected)" % n)


_R = "SimTKcommon/Random/src/Random.cpp"
MUTATIONS = [
    dict(name="seeded (sub-agent): setMin recomputes the range before storing the new minimum", arm=True, file=_R,
         old="        min = value;\n        range = max-min;", new="        range = max-min;\n        min = value;", expect="DERIVED:UniformImpl:range"),
    dict(name="Gaussian setSeed keeps the saved deviate", arm=True, file=_R,
         old="        RandomImpl::setSeed(seed);\n        nextGaussianIsValid = false;", new="        RandomImpl::setSeed(seed);", expect="nextGaussian"),
    dict(name="setSeed keeps the buffered values", arm=True, file=_R,
         old="    virtual void setSeed(int seed) {\n        nextIndex = bufferSize;\n        init_gen_rand(seed, *sfmt);", new="    virtual void setSeed(int seed) {\n        init_gen_rand(seed, *sfmt);",
         expect="EFFECT:"),
    dict(name="Gaussian setSeed forgets the base class", file=_R,
         old="        RandomImpl::setSeed(seed);\n        nextGaussianIsValid = false;", new="        nextGaussianIsValid = false;", expect="setSeed:calls-base"),
]
