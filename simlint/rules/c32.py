"""C32 -- Values survive text and serialization round trips.

MUSTCHECK (whole-string consumption in every text->value conversion), TABLE
(non-finite tokens written are tokens read), AGREE (read/write overload sets and
element order), MUSTCALL (readUnformatted goes through tryConvertTo)."""
import re

from ..facts import extract, units_matching, Program, AnalysisBroken, sx_find, sx_str
from ..match import (ev_write, is_call, call_args, call_obj, field_of, var_of, guard_blocks, branch_edges, implied_edges, only_via)
from .c18 import _is_lit, _in_loop

UNITS = r"SimTKcommon/src/(String|Xml)\.cpp$|SimTKcommon/BigMatrix/src/MatrixHelper\.cpp$"
HDR = r"internal/(Serialize|String|Array|BigMatrix)\.h$"
FAMILY = ["SimTK::String::tryConvertToBool", "SimTK::String::tryConvertToFloat", "SimTK::String::tryConvertToDouble"]
# write-only / read-only overloads, each with the reason
WRITE_ONLY = {"VectorBase<E>": "abstract view base: written through, read into a concrete Vector_/VectorView_",
              "RowVectorBase<E>": "abstract view base", "MatrixBase<E>": "abstract view base"}
READ_ONLY = {"String": "a String is read as one blank-delimited token; written with the generic T overload",
             "ArrayView_<T, X>": "fixed-size view: read in place; written with the Array_ overload (ArrayView_ converts)"}


def run(chk, tier, overlays=()):
    units = units_matching(UNITS)
    chk.require(len(units) >= 3, "expected String.cpp, Xml.cpp and MatrixHelper.cpp")
    P = Program(extract(units, hdr=HDR, overlays=overlays))
    chk.units += units
    chk.nfunctions += len(P.fns)
    mustcheck(chk, P)
    table(chk, P)
    agree(chk, P)
    xmlesc(chk, overlays)
    chk.floor("XMLESC", 18)
    chk.floor("MUSTCHECK", 8)
    chk.floor("TABLE", 6)
    chk.floor("AGREE", 25)


XML_UNITS = r"SimTKcommon/src/tinyxml(parser)?\.cpp$"
XML_HDR = r"SimTKcommon/src/tinyxml\.h$"
XML_ENTITIES = {"&amp;": 38, "&lt;": 60, "&gt;": 62, "&quot;": 34, "&apos;": 39}   # XML 1.0 section 4.6 (predefined entities)
QUOTE_CHARS = {34, 39}
# the only writers that may leave quote characters unescaped: character data of an element is not delimited by quotes
KEEP_QUOTES_ALLOWED = {"SimTK::TiXmlText::Print": "element text", "SimTK::TiXmlPrinter::Visit": "element text (TiXmlText overload only)"}


def xmlesc(chk, overlays):
    chk.rule("XMLESC", "XML writer / reader agreement on the five predefined entities: the entity table maps each entity to its character with its true length; EncodeString "
             "replaces each of the five characters by the table entry of that character (both pointer and length from the same entry), the quote characters unconditionally "
             "unless keepQuotes; keepQuotes=true is passed only by the writers of element text (never for attribute values, which are delimited by quote characters); "
             "GetEntity decodes with the same table, using one index for text, length and character")
    units = units_matching(XML_UNITS)
    chk.require(len(units) == 2, "expected tinyxml.cpp and tinyxmlparser.cpp")
    P = Program(extract(units, hdr=XML_HDR, overlays=overlays))
    chk.units += units
    chk.nfunctions += len(P.fns)
    ent = [s for s in P.statics.values() if s["name"] == "SimTK::TiXmlBase::entity" and s.get("init") is not None]
    chk.require(len(ent) == 1, "TiXmlBase::entity table with initialiser not found")
    rows = []
    for r in ent[0]["init"][1]:
        c = r[1] if isinstance(r, list) and r[0] == "initlist" else []
        if len(c) == 3 and c[0][0] == "str" and c[1][0] == "lit" and c[2][0] == "lit":
            rows.append((c[0][1], int(c[1][1]), int(c[2][1])))
    site = "%s:%d" % (ent[0]["file"], ent[0]["line"])
    chk.shape(len(rows) == len(XML_ENTITIES), "XMLESC", "table:five-entities", site, "entity table has %d parsed rows" % len(rows))
    for k, (text, ln, ch) in enumerate(rows):
        chk.judge(XML_ENTITIES.get(text) == ch, "XMLESC", "table:%s->chr" % text, site, "%s decodes to character %d (XML: %s)" % (text, ch, XML_ENTITIES.get(text)))
        chk.judge(ln == len(text), "XMLESC", "table:%s:length" % text, site, "stored length %d, text length %d" % (ln, len(text)))
    idx_of = {ch: k for k, (_, _, ch) in enumerate(rows)}
    # writer
    f = (P.fns_named("SimTK::TiXmlBase::EncodeString") or [None])[0]
    chk.require(f is not None, "anchor vanished: TiXmlBase::EncodeString")
    kq = f.d["params"][2][0] if len(f.d.get("params", [])) >= 3 else None
    chk.judge(kq is not None, "XMLESC", "EncodeString:keepQuotes-parameter", f.loc, "third parameter %s" % kq)
    cvar = None
    for ch in sorted(idx_of):
        def isch(c, ch=ch):
            return isinstance(c, list) and c[0] == "op" and c[1] == "==" and var_of(c[2]) is not None and isinstance(c[3], list) and c[3][0] == "lit" and c[3][1] == str(ch)
        edges = implied_edges(f, [isch])
        apps = []
        for b, i, e in f.calls():
            if not str(e.get("fn", "")).endswith("::append"):
                continue
            a = call_args(e)
            ks = [y for x in a for y in sx_find(x, lambda y: y[0] == "mem" and isinstance(y[1], list) and y[1][0] == "idx" and y[1][1] == ["gvar", "SimTK::TiXmlBase::entity"])]
            if ks and only_via(f, b, edges) and not any(only_via(f, b, implied_edges(f, [lambda c, o=o: isinstance(c, list) and c[0] == "op" and c[1] == "==" and isinstance(c[3], list) and c[3] == ["lit", str(o)] and var_of(c[2]) is not None])) for o in idx_of if o != ch and o != 38):
                apps.append((b, e, ks))
        # '&' also guards the character-reference pass-through; keep the appends that use the table
        name = rows[idx_of[ch]][0]
        ok = len(apps) == 1
        det = "%d table appends under `c == %d`" % (len(apps), ch)
        if ok:
            b, e, ks = apps[0]
            used = sorted({(y[1][2][1], y[2].split("::")[-1]) for y in ks})
            ok = used == [(str(idx_of[ch]), "str"), (str(idx_of[ch]), "strLength")]
            det = "appends %s (expected entry %d = %s, text and length)" % (used, idx_of[ch], name)
            # quote characters: escaped whenever !keepQuotes; the others independent of keepQuotes
            dep = bool(kq) and only_via(f, b, implied_edges(f, [lambda c: isinstance(c, list) and c[0] == "un" and c[1] == "!" and var_of(c[2]) == kq]))
            free = bool(kq) and not any(sx_find(f.blocks[bb]["term"]["cond"], lambda y: y[0] == "var" and y[1] == kq) for bb, tt in edges)
            if ch in QUOTE_CHARS:
                # reached from `c == ch && !keepQuotes` only; nothing else may narrow it
                conds = [f.blocks[bb]["term"]["cond"] for bb, tt in edges if f.blocks[bb]["term"]["k"] == "if"]
                exact = all(isinstance(c, list) and c[0] == "op" and c[1] == "&&" and len([y for y in sx_find(c, lambda y: y[0] == "var")]) == 2 for c in conds)
                chk.judge(dep and exact, "XMLESC", "EncodeString:%s:escaped-unless-keepQuotes" % name, "%s:%d" % (f.file, e["line"]), "quote is escaped exactly when !%s" % kq)
            else:
                chk.judge(free, "XMLESC", "EncodeString:%s:always-escaped" % name, "%s:%d" % (f.file, e["line"]), "escaping of %s does not depend on %s" % (name, kq))
        chk.judge(ok, "XMLESC", "EncodeString:%s<-entity[%d]" % (name, idx_of[ch]), f.loc, det)
    # who may keep quotes
    n = 0
    seen_keys = {}
    for g in P.all_fns():
        for b, i, e in g.calls():
            if not str(e.get("fn", "")).endswith("TiXmlBase::EncodeString"):
                continue
            a = call_args(e)
            n += 1
            third = a[2] if len(a) > 2 else ["lit", "false"]
            keeps = not (isinstance(third, list) and third[0] == "lit" and third[1] == "false")
            seen_keys[(g.name, sx_str(a[0])[:30])] = seen_keys.get((g.name, sx_str(a[0])[:30]), 0) + 1
            key = "%s:EncodeString(%s)#%d" % (g.name.replace("SimTK::", ""), sx_str(a[0])[:30], seen_keys[(g.name, sx_str(a[0])[:30])])
            if not keeps:
                chk.ok("XMLESC", key + ":quotes-escaped", "%s:%d" % (g.file, e["line"]), "keepQuotes=false")
                continue
            allowed = g.name in KEEP_QUOTES_ALLOWED and (g.name != "SimTK::TiXmlPrinter::Visit" or "TiXmlText" in g.id) and isinstance(third, list) and third[0] == "lit"
            chk.judge(allowed, "XMLESC", key + ":keepQuotes-only-for-element-text", "%s:%d" % (g.file, e["line"]),
                      "%s writes with quotes unescaped; only element text (%s) may do that -- attribute values are delimited by quote characters" % (g.name, sorted(KEEP_QUOTES_ALLOWED)))
    chk.shape(n >= 5, "XMLESC", "EncodeString-call-sites>=5", "", "%d call sites examined" % n)
    # attribute delimiters: value is written between quote characters, hence must have been encoded with quotes escaped (covered above); name too
    # reader
    g = (P.fns_named("SimTK::TiXmlBase::GetEntity") or [None])[0]
    chk.require(g is not None, "anchor vanished: TiXmlBase::GetEntity")
    lv = set()
    fields = set()
    for b, i, e in list(g.events(lambda e: e["k"] in ("call", "assign", "ret"))):
        for x in ([e.get("x")] if e["k"] == "call" else [e.get("lhs"), e.get("rhs"), e.get("val")]):
            for y in sx_find(x, lambda y: y[0] == "mem" and isinstance(y[1], list) and y[1][0] == "idx" and y[1][1] == ["gvar", "SimTK::TiXmlBase::entity"]) if x is not None else []:
                lv.add(sx_str(y[1][2]))
                fields.add(y[2].split("::")[-1])
    chk.judge(len(lv) == 1 and {"str", "strLength", "chr"} <= fields, "XMLESC", "GetEntity:one-index-for-text-length-character", g.loc, "indices used %s, fields %s" % (sorted(lv), sorted(fields)))
    loops = [h for h in g.loops() if g.blocks[h].get("term") and g.blocks[h]["term"].get("cond") is not None and
             sx_find(g.blocks[h]["term"]["cond"], lambda y: (y[0] in ("enum", "gvar", "var") and "NUM_ENTITY" in str(y[1])) or (y[0] == "lit" and y[1] == str(len(rows))))]
    chk.judge(len(loops) == 1, "XMLESC", "GetEntity:loops-over-the-whole-table", g.loc, "loop bounded by NUM_ENTITY found: %d" % len(loops))


def _is_extraction(e):
    if e["k"] != "call":
        return False
    n = e.get("fn", "")
    return (e.get("op") == ">>" and "istream" in n) or n.endswith("stringStreamExtractHelper")


def _eof_checked_return(P, fn, r, stream, depth=2):
    """Is return event r an accepted 'whole string consumed' result for the stream variable?"""
    v = r["val"]
    if _is_lit(v, "false"):
        return True
    if isinstance(v, list) and sx_find(v, lambda y: y[0] == "call" and y[1].endswith("::eof") and var_of(y[2]) == stream):
        # `return sstream.eof()` or `!fail() && eof()`
        return True
    if _is_lit(v, "true"):
        # literal true: must sit under the true branch of sstream.eof()
        gb = guard_blocks(fn, lambda c: c[0] == "call" and c[1].endswith("::eof") and var_of(c[2]) == stream, 0)
        for b, i, e in fn.ret_events():
            if e is r:
                return b in gb
        return False
    # a helper applied to the stream that itself satisfies the rule from its entry
    if depth > 0 and isinstance(v, list) and v[0] == "call" and v[3] and var_of(v[3][0]) == stream:
        for h in P.fns_named(v[1]):
            sp = h.d["params"][0][0]
            return all(_eof_checked_return(P, h, rr, sp, depth - 1) for _, _, rr in h.ret_events()) and bool(h.ret_events())
    return False


def mustcheck(chk, P):
    chk.rule("MUSTCHECK", "every text->value conversion of the tryConvertTo family returns success, on paths that extracted a value from a stream, only through an "
             "end-of-input test on that stream (eof() directly, after std::ws, or via a helper that does exactly that); literal matches of the whole string are exempt")
    fns = [P.fn(n) for n in FAMILY]
    gen = [f for f in P.fns_named("SimTK::tryConvertStringTo") if f.d["params"][1][1] == "T &"]
    chk.require(len(gen) == 1, "generic tryConvertStringTo<T> not found")
    fns += gen
    for f in fns:
        ex = [(b, i, e) for b, i, e in f.events(_is_extraction)]
        chk.judge(len(ex) >= 1, "MUSTCHECK", f.name + sig(f) + ":extracts", f.loc, "conversion extracts from a string stream")
        for b, i, e in ex:
            stream = var_of(call_args(e)[0]) if call_args(e) else None
            site = "%s:%d" % (f.file, e["line"])
            rets = [(bb, ii, r) for bb, ii, r in f.ret_events() if f.path_exists((b, i), lambda q, r=r: q is r, lambda q: False) is not None]
            chk.judge(bool(rets), "MUSTCHECK", f.name + sig(f) + ":returns-after-extraction", site, "there are returns after the extraction")
            for bb, ii, r in rets:
                ok = _eof_checked_return(P, f, r, stream)
                chk.judge(ok, "MUSTCHECK", "%s%s:return@%s" % (f.name, sig(f), sx_str(r["val"])[:40]), "%s:%d" % (f.file, r["line"]),
                          "success is reported after extraction without checking that the whole string was consumed (\"1.5abc\" would convert)")
    # the typed front ends forward to the checked conversions
    for t, target in (("bool &", "tryConvertToBool"), ("float &", "tryConvertToFloat"), ("double &", "tryConvertToDouble")):
        fs = [f for f in P.fns_named("SimTK::tryConvertStringTo") if f.d["params"][1][1] == t]
        chk.judge(len(fs) == 1 and any(True for _ in fs[0].calls("SimTK::String::" + target)), "MUSTCHECK", "tryConvertStringTo(%s)->%s" % (t, target), fs[0].loc if fs else "",
                  "specialisation forwards to String::" + target)
    # readUnformatted<T> -> tryConvertTo
    ru = [f for f in P.fns_named("SimTK::readUnformatted") if f.d["params"][1][1] == "T &"]
    chk.require(len(ru) == 1, "generic readUnformatted<T> not found")
    f = ru[0]
    conv = [e for _, _, e in f.events(lambda e: e["k"] == "call" and (e.get("fn", "").endswith("tryConvertTo") or e.get("fn", "").endswith("tryConvertStringTo")))]
    chk.judge(bool(conv), "MUSTCHECK", "readUnformatted<T>->tryConvertTo", f.loc, "scalar tokens are converted with the whole-string-checking tryConvertTo")


def sig(f):
    return "(" + ",".join(p[1] for p in f.d["params"]) + ")"


def table(chk, P):
    chk.rule("TABLE", "the literals String(float) / String(double) emit for non-finite values are, lower-cased, members of the literal set the float/double readers "
             "compare the whole (trimmed, lower-cased) string against")
    emitted = {}
    for f in P.fns_named("SimTK::String::String"):
        if len(f.d["params"]) == 2 and f.d["params"][0][1] in ("float", "double"):
            lits = set()
            for _, _, e in f.events(lambda e: e["k"] == "call" and e.get("op") == "="):
                for y in sx_find(e["x"], lambda y: y[0] == "str"):
                    lits.add(y[1])
                for y in sx_find(e["x"], lambda y: y[0] == "cond"):
                    pass
            emitted[f.d["params"][0][1]] = lits
    chk.shape(set(emitted) == {"float", "double"}, "TABLE", "writers-found", "", "String(float) and String(double) found")
    for t, reader in (("float", "SimTK::String::tryConvertToFloat"), ("double", "SimTK::String::tryConvertToDouble")):
        r = P.fn(reader)
        accepted = set()
        for _, _, e in r.events(lambda e: e["k"] == "call" and e.get("op") == "=="):
            for y in sx_find(e["x"], lambda y: y[0] == "str"):
                accepted.add(y[1])
        # the reader lower-cases first
        chk.judge(any(True for _ in r.calls("cleanUp")) or any(e.get("fn", "").endswith("toLower") for _, _, e in r.calls()), "TABLE", reader + ":case-folds", r.loc,
                  "the reader folds case before comparing")
        for lit in sorted(emitted.get(t, ())):
            chk.judge(lit.lower() in accepted, "TABLE", "%s:%s" % (t, lit), r.loc, "token %r written for a non-finite %s is not recognised by %s (accepted: %s)" % (lit, t, reader, sorted(accepted)))
        chk.judge(len(emitted.get(t, ())) >= 3, "TABLE", t + ":three-non-finite-tokens", r.loc, "NaN, Inf and -Inf are emitted: %s" % sorted(emitted.get(t, ())))


def _head(ty):
    t = ty.replace("const ", "").replace(" &", "").strip()
    return t.replace("SimTK::", "").replace("std::", "")


def agree(chk, P):
    chk.rule("AGREE", "every element/container type with a writeUnformatted overload has a readUnformatted overload and vice versa (modulo the tabled write-only "
             "abstract views and read-only token types); composite readers and writers visit their sub-objects in the same order (real then imaginary; ascending index)")
    W = {_head(f.d["params"][1][1]): f for f in P.fns_named("SimTK::writeUnformatted")}
    R = {_head(f.d["params"][1][1]): f for f in P.fns_named("SimTK::readUnformatted")}
    chk.require(len(W) >= 15 and len(R) >= 15, "only %d write / %d read overloads found" % (len(W), len(R)))
    for k in sorted(set(W) | set(R)):
        if k in W and k in R:
            chk.ok("AGREE", "pair:" + k, W[k].loc)
        elif k in W:
            chk.judge(k in WRITE_ONLY, "AGREE", "write-only:" + k, W[k].loc, "type %s can be written but not read back" % k)
        else:
            chk.judge(k in READ_ONLY, "AGREE", "read-only:" + k, R[k].loc, "type %s can be read but has no writer" % k)
    # complex: real then imag on both sides
    cw, cr = W.get("complex<T>"), R.get("complex<T>")
    if cw and cr:
        def order(f):
            seq = []
            for _, _, e in f.events(lambda e: e["k"] == "call"):
                n = e.get("fn", "")
                s = sx_str(e["x"])
                if n.endswith("::real") or ".real(" in s and n.endswith("real"):
                    seq.append("real")
                elif n.endswith("::imag") or n.endswith("imag"):
                    seq.append("imag")
            return seq
        ow, orr = order(cw), order(cr)
        # the reader reads two temporaries then builds complex(real, imag): use the constructor argument order
        ctor = [e for _, _, e in cr.events(lambda e: e["k"] == "call" and e.get("ctor") and "complex" in e.get("fn", ""))]
        reads = [var_of(call_args(e)[1]) for _, _, e in cr.calls() if e.get("fn", "").endswith("readUnformatted") and len(call_args(e)) > 1]
        okr = True
        if ctor and len(reads) >= 2:
            a = call_args(ctor[0])
            okr = [var_of(x) for x in a[:2]] == reads[:2]
        chk.judge(ow[:2] == ["real", "imag"], "AGREE", "complex:write-order", cw.loc, "writer emits real then imaginary part (%s)" % ow[:2])
        chk.judge(okr, "AGREE", "complex:read-order", cr.loc, "reader assigns the first token to the real part and the second to the imaginary part")
    # indexed containers: loops ascend from 0 on both sides
    for k in ("Vec<M, E, S>", "Mat<M, N, E, CS, RS>", "SymMat<M, E, RS>", "Array_<T, X>"):
        for side, f in (("write", W.get(k)), ("read", R.get(k))):
            if not f:
                continue
            loops = f.loops()
            ok = True
            n = 0
            for h in loops:
                c = f.blocks[h]["term"].get("cond")
                iv = var_of(c[2]) if isinstance(c, list) and len(c) > 2 else None
                if not iv:
                    continue
                d = [dd for _, _, dd in f.events(lambda dd: dd["k"] == "decl" and dd["var"] == iv)]
                inc = [w for _, _, w in f.events(lambda w: w["k"] == "assign" and var_of(w["lhs"]) == iv)]
                if d and inc:
                    n += 1
                    ok = ok and _is_lit(d[0]["init"], "0" if side == "read" or True else "0") is not None and all(w["op"] == "++" for w in inc) and c[1] == "<"
                    start = d[0]["init"]
                    ok = ok and (_is_lit(start, "0") or _is_lit(start, "1"))
            if n:
                chk.judge(ok, "AGREE", "%s:%s:ascending" % (k, side), f.loc, "elements are visited in ascending index order with ++i and <")


_S = "SimTKcommon/src/String.cpp"
_H = "SimTKcommon/include/SimTKcommon/internal/String.h"
_Z = "SimTKcommon/include/SimTKcommon/internal/Serialize.h"
_T = "SimTKcommon/src/tinyxml.cpp"
_TP = "SimTKcommon/src/tinyxmlparser.cpp"
MUTATIONS = [
    dict(name="seeded (sub-agent): attribute values written with quotes unescaped", arm=True, file=_T,
         old="    EncodeString( name, &n );\n    EncodeString( value, &v );", new="    EncodeString( name, &n );\n    EncodeString( value, &v, true );", expect="XMLESC:TiXmlAttribute::Print:EncodeString(this.value)"),
    dict(name="'>' written as the '<' entity (copy-paste)", file=_T,
         old="            outString->append( entity[2].str, entity[2].strLength );", new="            outString->append( entity[1].str, entity[1].strLength );", expect="XMLESC:EncodeString:&gt;<-entity[2]"),
    dict(name="entity table lists &apos; with the wrong length", file=_TP,
         old="    { \"&apos;\", 6, '\\'' }", new="    { \"&apos;\", 5, '\\'' }", expect="XMLESC:table:&apos;:length"),

    dict(name="tryConvertToDouble accepts trailing characters (pre-fix code)", arm=True, file=_S,
         old="    {   out = -NTraits<double>::getInfinity(); return true;}\n    std::istringstream sstream(adjusted);\n    sstream >> out;\n    return extractionUsedWholeString(sstream);",
         new="    {   out = -NTraits<double>::getInfinity(); return true;}\n    std::istringstream sstream(adjusted);\n    sstream >> out;\n    return !sstream.fail();",
         expect="MUSTCHECK:SimTK::String::tryConvertToDouble"),
    dict(name="generic conversion stops checking for leftovers", file=_H,
         old="    std::ws(sstream);       // Skip trailing whitespace if any.\n    return sstream.eof();   // We must have used up the whole string now.\n}\n\n// This specialization ensures",
         new="    std::ws(sstream);       // Skip trailing whitespace if any.\n    return true;\n}\n\n// This specialization ensures", expect="MUSTCHECK:SimTK::tryConvertStringTo"),
    dict(name="helper no longer tests eof", file=_S,
         old="    std::ws(sstream);       // Skip trailing whitespace if any.\n    return sstream.eof();   // We must have used up the whole string now.",
         new="    std::ws(sstream);       // Skip trailing whitespace if any.\n    return !sstream.bad();", expect="MUSTCHECK:SimTK::String::tryConvertTo"),
    dict(name="infinity written as 'Infinite'", arm=True, file=_S,
         old="        if (isInf(r)) {(*this)=(r<0?\"-Inf\":\"Inf\"); return;}\n        SimTK_ERRCHK1_ALWAYS(false, \"SimTK::String(double)\",",
         new="        if (isInf(r)) {(*this)=(r<0?\"-Infinite\":\"Infinite\"); return;}\n        SimTK_ERRCHK1_ALWAYS(false, \"SimTK::String(double)\",", expect="TABLE:double:"),
    dict(name="complex written imaginary part first", file=_Z,
         old="{   writeUnformatted(o, v.real()); o << \" \"; writeUnformatted(o, v.imag()); }", new="{   writeUnformatted(o, v.imag()); o << \" \"; writeUnformatted(o, v.real()); }",
         expect="AGREE:complex:write-order"),
]
