"""C33 -- Parallel executors run every task exactly once, safely.

LOCKSET, CVPROTO, protocol ORDER, STRIDE, Parallel2DExecutor pass flags and
ParallelWorkQueue worker pairing (DESIGN section 3, C33)."""
from ..facts import extract, units_matching, Program, AnalysisBroken, sx_find, sx_str
from ..match import (known_edges, only_via, expand_locals, ev_write, is_call, call_args, call_obj, field_of, var_of, guard_blocks, lvalue_root, branch_edges)
from ..lockset import LockModel
from .c18 import _in_loop, _reaches, _loop_heads, _is_lit, _is_var

PEI = "SimTK::ParallelExecutorImpl"
TI = "SimTK::ThreadInfo"
PWQ = "SimTK::ParallelWorkQueueImpl"
P2D = "SimTK::Parallel2DExecutorImpl"
TASK = "SimTK::ParallelExecutor::Task"
TB_PE = "SimTK::threadBody(SimTK::ThreadInfo &)"
TB_WQ = "SimTK::threadBody(SimTK::ParallelWorkQueueImpl &)"

GUARDED = {
    PEI + "::finished": PEI + "::runMutex",
    PEI + "::currentTask": PEI + "::runMutex",
    PEI + "::currentTaskCount": PEI + "::runMutex",
    PEI + "::waitingThreadCount": PEI + "::runMutex",
    TI + "::running": PEI + "::runMutex",
    PWQ + "::finished": PWQ + "::queueMutex",
    PWQ + "::pendingTasks": PWQ + "::queueMutex",
    PWQ + "::taskQueue": PWQ + "::queueMutex",
}
# functions whose contract is "caller holds M" -- checked at every call site
REQUIRES = {PWQ + "::markTaskCompleted": PWQ + "::queueMutex"}
# published-before-wake: unlocked access allowed iff the checked side conditions hold
PUBLISHED = {
    (PEI + "::currentTaskCount", TB_PE): "written by execute() under runMutex before notify_all; worker reads after its wait and before its barrier",
    (PEI + "::currentTask", TB_PE): "same as currentTaskCount",
    (TI + "::running", TB_PE): "worker clears its own flag after its wait and before its barrier; next writer (execute) waits for the barrier",
}
BARRIER = PEI + "::incrementWaitingThreads"
# writes that can only make the waiting predicate false need no notification
FALSIFYING = {
    (TI + "::running", TB_PE): "worker clears its own running flag (predicate is `running`)",
    (PEI + "::waitingThreadCount", PEI + "::execute"): "reset to 0 at dispatch (predicate is count == nthreads)",
    (PWQ + "::taskQueue", TB_WQ, "waitForTaskCondition"): "pop can only empty the queue (predicate is !empty || finished)",
    (PWQ + "::taskQueue", PWQ + "::addTask", "queueFullCondition"): "push can only fill the queue (predicate is size < queueSize)",
    (PWQ + "::pendingTasks", PWQ + "::addTask", "queueFullCondition"): "increment can only falsify pendingTasks == 0",
    (PWQ + "::taskQueue", PWQ + "::addTask", "waitForTaskCondition:dummy"): "",
}
# condition variables on which several threads can wait for the same event: notify_all required
NEED_ALL = {
    (PEI + "::runCondition", PEI + "::execute"), (PEI + "::runCondition", PEI + "::~ParallelExecutorImpl"),
    (PWQ + "::waitForTaskCondition", PWQ + "::~ParallelWorkQueueImpl"),
}
UNITS = r"SimTKcommon/src/Parallel(Executor|WorkQueue|2DExecutor)\.cpp$"
HDR = r"SimTKcommon/src/Parallel.*Impl\.h$|internal/Parallel.*\.h$"


def run(chk, tier, overlays=()):
    units = units_matching(UNITS)
    facts = extract(units, hdr=HDR, overlays=overlays)
    P = Program(facts)
    chk.units += units
    chk.nfunctions += len(P.fns)
    L = LockModel(P)
    lockset(chk, P, L)
    cvproto(chk, P, L)
    protocol(chk, P, L)
    stride(chk, P, L)
    p2d(chk, P)
    workqueue(chk, P, L)


# ---------------------------------------------------------------- accesses

def accesses(P, L, fn, guarded=GUARDED):
    """(block, idx, field, 'r'|'w', line) for every access in fn to guarded storage."""
    out = []
    for b, i, e in fn.events():
        if e["k"] == "mem" and e["field"] in guarded:
            if e["acc"] in ("handout", "refbind"):
                continue
            kind = "w" if e["acc"] in ("w", "rw", "mcall", "refarg", "addr") else "r"
            out.append((b, i, e["field"], kind, e["line"]))
        elif e["k"] == "call" and not e.get("ctor"):
            n = e.get("fn", "")
            fld = L.accessor_field(n)
            if fld in guarded:
                cal = P.fns_named(n)[0]
                rv = cal.ret_events()[0][2]["val"]
                plain_ref = cal.d["ret"].rstrip().endswith("&") and isinstance(rv, list) and rv[0] == "mem"
                if not plain_ref:
                    out.append((b, i, fld, "r", e["line"]))
                continue
            obj = call_obj(e)
            r = lvalue_root(obj) if obj is not None else None
            if isinstance(r, list) and r and r[0] in ("var", "call"):
                f2 = L.resolve_field(fn, obj)
                if f2 in guarded:
                    out.append((b, i, f2, "r" if e.get("cconst") else "w", e["line"]))
    return out


def _initial_held(P, L, fn):
    """Lock context a function starts with: wait predicates run with the
    waiting lock held; REQUIRES-functions with their required mutex."""
    if fn.name in REQUIRES:
        return frozenset([REQUIRES[fn.name]])
    if fn.kind == "lambda" and fn.d.get("parent"):
        for pf in P.by_id.get(fn.d["parent"], []):
            for b, i, e, cv, m, lam in L.wait_sites(pf):
                if lam == fn.name and m:
                    return frozenset([m])
    return frozenset()


def _class_fns(P):
    res = []
    for f in P.all_fns():
        if f.cls in (PEI, TI, PWQ) or f.id in (TB_PE, TB_WQ) or (f.kind == "lambda" and (f.d.get("parent") or "").startswith(("SimTK::ParallelExecutorImpl", "SimTK::ParallelWorkQueueImpl", "SimTK::threadBody"))):
            res.append(f)
    return sorted(res, key=lambda f: f.id)


def lockset(chk, P, L):
    chk.rule("LOCKSET", "every access to a shared executor field happens with its mutex in the must-hold lockset "
             "(guards, lock()/unlock(), scope exit, cv.wait keeps the lock, predicates inherit it), or is a checked "
             "published-before-wake access; functions that require a held mutex are called only with it held")
    n_acc = 0
    for fn in _class_fns(P):
        if L.accessor_field(fn.name) in GUARDED and fn.kind == "method":
            continue  # accessor bodies are summarised at their call sites
        before, _ = L.analyse(fn, _initial_held(P, L, fn))
        for b, i, field, kind, line in accesses(P, L, fn):
            n_acc += 1
            held = before.get((b, i), frozenset())
            m = GUARDED[field]
            fkey = fn.id if fn.kind != "lambda" else "lambda-in-" + (fn.d.get("parent") or "?")
            inst = "%s@%s" % (field, fkey)
            site = "%s:%d" % (fn.file, line)
            if m in held:
                chk.ok("LOCKSET", inst + ":" + kind, site, "held=%s" % sorted(held))
                continue
            if (field, fn.id) in PUBLISHED:
                ok, why = _published_ok(P, L, fn, b, i, field, m)
                chk.judge(ok, "LOCKSET", inst + ":published", site, "published-before-wake side conditions: " + why)
                continue
            chk.violation("LOCKSET", inst, site, "%s access to %s without holding %s" % ("write" if kind == "w" else "read", field, m))
        # REQUIRES call sites
        for b, i, e in fn.calls():
            if e.get("fn") in REQUIRES:
                held = before.get((b, i), frozenset())
                chk.judge(REQUIRES[e["fn"]] in held, "LOCKSET", "%s-called-from-%s" % (e["fn"], fn.id), "%s:%d" % (fn.file, e["line"]),
                          "%s requires %s held by the caller" % (e["fn"], REQUIRES[e["fn"]]))
    chk.floor("LOCKSET", 30)


def _published_ok(P, L, fn, b, i, field, m):
    # (c2) dominated by a wait on m in the same function
    waits = [(wb, wi) for wb, wi, e, cv, wm, lam in L.wait_sites(fn) if wm == m]
    if not any(fn.dominates(w, (b, i)) for w in waits):
        return False, "access is not dominated by a wait on " + m
    # (c3) before the worker's barrier: no path to the next wait or to exit avoiding the barrier
    def is_wait(e):
        return e["k"] == "call" and e.get("fn", "").startswith("std::condition_variable::wait")
    p1 = fn.path_exists((b, i), "exit", lambda e: is_call(e, BARRIER))
    p2 = fn.path_exists((b, i), is_wait, lambda e: is_call(e, BARRIER))
    if p1 is not None or p2 is not None:
        return False, "a path from the access reaches exit/next wait without the barrier " + BARRIER
    # (c4) barrier acquires m
    bf = P.fn(BARRIER)
    lv = L.lock_vars(bf)
    if m not in lv.values():
        return False, "barrier does not lock " + m
    if bf.path_exists(None, "exit", lambda e: e["k"] == "decl" and lv.get(e["var"]) == m) is not None:
        return False, "barrier has a path without locking " + m
    # (c5) the dispatching writer waits for the barrier to complete after writing
    ex = P.fn(PEI + "::execute")
    wr = [(wb, wi) for wb, wi, f2, k, _ in accesses(P, L, ex) if f2 == field and k == "w"]
    if not wr:
        return False, "dispatcher does not write " + field
    def is_barrier_wait(e):
        if not (e["k"] == "call" and e.get("fn", "") == "std::condition_variable::wait"):
            return False
        return L.resolve_field(ex, call_obj(e)) == PEI + "::waitCondition"
    for w in wr:
        if ex.path_exists(w, "exit", is_barrier_wait) is not None:
            return False, "dispatcher can return after writing %s without waiting on waitCondition" % field
    return True, "dominated by wait; precedes barrier; barrier locks; dispatcher waits for barrier"


# ----------------------------------------------------------------- CVPROTO

def _pred_fields(P, L, lam_fn):
    out = set()
    for b, i, field, kind, line in accesses(P, L, lam_fn):
        out.add(field)
    return out


def _norm(x):
    if isinstance(x, list):
        if x and x[0] == "cast":
            return _norm(x[2])
        return [_norm(y) for y in x]
    return x


def cvproto(chk, P, L):
    chk.rule("CVPROTO", "for each cv.wait(lock, pred): every write to a guarded field read by pred is made with the same mutex held and "
             "is followed on every path by a notify on that cv (or by the branch `if (pred) notify`), unless tabled as a write that can "
             "only falsify the predicate; notify_all where several threads wait")
    nw = 0
    fns = _class_fns(P)
    for wf in fns:
        for b, i, e, cv, m, lam in L.wait_sites(wf):
            nw += 1
            site = "%s:%d" % (wf.file, e["line"])
            chk.judge(bool(cv) and bool(m) and bool(lam), "CVPROTO", "wait@%s:%s" % (wf.id, cv), site,
                      "wait must use a lock on a known mutex and a predicate (no bare wait: spurious/lost wake-ups)")
            if not (cv and m and lam):
                continue
            lf = P.by_name.get(lam, [None])[0]
            if lf is None:
                raise AnalysisBroken("predicate lambda body not found: " + lam)
            pred_ret = lf.ret_events()[0][2]["val"]
            pf = _pred_fields(P, L, lf)
            chk.judge(bool(pf), "CVPROTO", "pred-reads-shared@%s:%s" % (wf.id, cv), site, "predicate reads shared fields %s" % sorted(pf))
            for field in sorted(pf):
                chk.judge(GUARDED[field] == m, "CVPROTO", "pred-mutex@%s:%s:%s" % (wf.id, cv, field), site,
                          "predicate field %s is guarded by %s but the wait holds %s" % (field, GUARDED[field], m))
                for g in fns:
                    if L.accessor_field(g.name) in GUARDED and g.kind == "method":
                        continue
                    for wb, wi, f2, kind, line in accesses(P, L, g):
                        if f2 != field or kind != "w":
                            continue
                        inst = "%s:%s<-%s" % (cv.split("::")[-1], field, g.id)
                        wsite = "%s:%d" % (g.file, line)
                        cvs = cv.split("::")[-1]
                        if (field, g.id) in FALSIFYING or (field, g.name) in FALSIFYING or (field, g.id, cvs) in FALSIFYING or (field, g.name, cvs) in FALSIFYING:
                            chk.ok("CVPROTO", inst + ":falsifying", wsite, "tabled: write can only falsify the predicate")
                            continue
                        def is_notify(ev, g=g):
                            return ev["k"] == "call" and ev.get("fn", "") in ("std::condition_variable::notify_all", "std::condition_variable::notify_one") \
                                and L.resolve_field(g, call_obj(ev)) == cv
                        # `if (pred) notify`: the false edge of a branch on the predicate itself is exempt
                        pe = branch_edges(g, lambda c: _norm(c) == _norm(pred_ret), 1)
                        path = g.path_exists((wb, wi), "exit", is_notify, avoid_edges=pe)
                        chk.judge(path is None, "CVPROTO", inst + ":notify", wsite,
                                  "write to %s is not followed on every path by a notify on %s" % (field, cv), path)
                        if (cv, g.name) in NEED_ALL:
                            bad = [ev for _, _, ev in g.events(lambda ev: is_notify(ev) and ev["fn"].endswith("notify_one"))]
                            chk.judge(not bad, "CVPROTO", inst + ":notify_all", wsite, "several threads wait on %s: notify_all required" % cv)
    chk.floor("CVPROTO", 25)


def _rebase(x, lam_fn, g):
    """The predicate expression as it would be written inside g: lambda bodies
    refer to members through the captured `this` exactly as methods do."""
    return x


# ---------------------------------------------------------------- protocol

def protocol(chk, P, L):
    chk.rule("ORDER", "in the worker body and in the single-thread branch: initialize() precedes every execute(i); every path from an "
             "execute to the next wait passes the barrier, whose body calls finish() with runMutex held and only then counts the thread; "
             "task exceptions are caught before the barrier; execute() returns only after waiting for all workers")
    tb = P.fn(TB_PE)
    execs = list(tb.calls(TASK + "::execute"))
    chk.require(len(execs) == 1, "worker body: expected exactly one Task::execute call site, found %d" % len(execs))
    for b, i, e in execs:
        site = "%s:%d" % (tb.file, e["line"])
        tv = var_of(call_obj(e))
        path = tb.path_exists(None, lambda ev: ev is e, lambda ev: is_call(ev, TASK + "::initialize") and var_of(call_obj(ev)) == tv)
        chk.judge(path is None, "ORDER", "worker:initialize<execute", site, "initialize() must precede execute() on every path", path)
        # initialize once per round: not inside the index loop
        ini = list(tb.calls(TASK + "::initialize"))
        chk.judge(len(ini) == 1 and _loop_depth(tb, ini[0][0]) < _loop_depth(tb, b), "ORDER", "worker:initialize-once-per-round", site,
                  "initialize() is outside the per-index loop")
        def is_wait(ev):
            return ev["k"] == "call" and ev.get("fn", "").startswith("std::condition_variable::wait")
        p1 = tb.path_exists((b, i), is_wait, lambda ev: is_call(ev, BARRIER))
        p2 = tb.path_exists((b, i), "exit", lambda ev: is_call(ev, BARRIER))
        chk.judge(p1 is None and p2 is None, "ORDER", "worker:execute<barrier", site, "every path from execute() to the next wait/exit passes incrementWaitingThreads()", p1 or p2)
        chk.judge(e.get("try") == "all", "ORDER", "worker:execute-in-catch-all", site, "Task::execute must run inside try { } catch (...) so that the barrier is always reached")
        # the task and count used are the executor's current ones
        td = [d for _, _, d in tb.events(lambda d: d["k"] == "decl" and d["var"] == tv)]
        chk.judge(bool(td) and L.accessor_field((sx_find(td[0]["init"], lambda y: y[0] == "call") or [[None, ""]])[0][1]) == PEI + "::currentTask",
                  "ORDER", "worker:task-is-currentTask", site, "the executed task is the executor's currentTask")
    # barrier body
    bf = P.fn(BARRIER)
    before, _ = L.analyse(bf)
    fin = list(bf.calls(TASK + "::finish"))
    chk.judge(len(fin) == 1, "ORDER", "barrier:finish-call", bf.loc, "barrier calls Task::finish exactly at one site")
    for b, i, e in fin:
        site = "%s:%d" % (bf.file, e["line"])
        chk.judge(PEI + "::runMutex" in before.get((b, i), ()), "ORDER", "barrier:finish-under-runMutex", site, "finish() calls are mutually exclusive (runMutex held)")
        p = bf.path_exists(None, "exit", lambda ev: ev is e)
        chk.judge(p is None, "ORDER", "barrier:finish-on-all-paths", site, "finish() on every path through the barrier", p)
        incs = [(bb, ii) for bb, ii, ev in bf.events(lambda ev: bool(ev_write(ev)) and field_of(ev_write(ev)[0]) == PEI + "::waitingThreadCount")]
        chk.judge(bool(incs) and all(bf.dominates((b, i), x) for x in incs), "ORDER", "barrier:finish<count", site,
                  "the thread is counted as done only after its finish() returned")
        chk.judge(L.accessor_field((sx_find(e["x"], lambda y: y[0] == "call" and y[1] != TASK + "::finish") or [[None, ""]])[0][1]) == PEI + "::currentTask",
                  "ORDER", "barrier:finish-on-currentTask", site, "finish() is called on the current task")
    # execute(): single-thread branch and blocking wait
    ex = P.fn(PEI + "::execute")
    tparam = ex.d["params"][0][0]
    nparam = ex.d["params"][1][0]
    st = guard_blocks(ex, lambda c: c[0] == "op" and c[1] == "<" and field_of(c[2]) == PEI + "::numMaxThreads" and _is_lit(c[3], "2"), 0)
    chk.judge(len(st) == 1, "ORDER", "execute:single-thread-guard", ex.loc, "the inline branch is taken only when numMaxThreads < 2")
    for g in st:
        region = _region_until_return(ex, g)
        evs = [(bb, ii, ev) for bb, ii, ev in ex.events() if bb in region and ev["k"] == "call" and ev.get("fn", "").startswith(TASK + "::")]
        names = [ev["fn"].split("::")[-1] for _, _, ev in evs]
        chk.judge(names.count("initialize") == 1 and names.count("finish") == 1 and names.count("execute") == 1, "ORDER", "execute:inline-calls", ex.loc,
                  "inline branch calls initialize, execute, finish once each (got %s)" % names)
        byname = {ev["fn"].split("::")[-1]: (bb, ii, ev) for bb, ii, ev in evs}
        if len(byname) == 3:
            eb = byname["execute"]
            p = ex.path_exists((g, -1), lambda ev: ev is eb[2], lambda ev: ev is byname["initialize"][2])
            chk.judge(p is None, "ORDER", "execute:inline-initialize<execute", ex.loc, "initialize precedes the loop", p)
            p = ex.path_exists((g, -1), lambda ev: ev["k"] == "ret", lambda ev: ev is byname["finish"][2])
            chk.judge(p is None, "ORDER", "execute:inline-finish-before-return", ex.loc, "finish on every path before returning", p)
            p = ex.path_exists((g, -1), lambda ev: ev is byname["finish"][2], lambda ev: ev is byname["initialize"][2])
            chk.judge(p is None, "ORDER", "execute:inline-initialize<finish", ex.loc, "initialize precedes finish", p)
            chk.judge(_in_loop(ex, eb[0]) and not _in_loop(ex, byname["initialize"][0]) and not _in_loop(ex, byname["finish"][0]), "ORDER", "execute:inline-loop-shape", ex.loc,
                      "execute(i) is in the index loop; initialize/finish are outside it")
            # loop shape 0..times-1
            a = call_args(eb[2])
            iv = var_of(a[0]) if a else None
            d = [dd for _, _, dd in ex.events(lambda dd: dd["k"] == "decl" and dd["var"] == iv)]
            heads = ex.loops_of(eb[0])
            cond_ok = any(ex.blocks[h]["term"].get("cond") == ["op", "<", ["var", iv], ["var", nparam]] for h in heads)
            incs = [ev for bb, _, ev in ex.events(lambda ev: ev["k"] == "assign" and var_of(ev["lhs"]) == iv) if bb in region]
            d = [dd for bb, _, dd in ex.events(lambda dd: dd["k"] == "decl" and dd["var"] == iv) if bb in region]
            chk.judge(bool(d) and _is_lit(d[0]["init"], "0") and cond_ok and len(incs) == 1 and incs[0]["op"] == "++", "STRIDE", "execute:inline-0..times-1", ex.loc,
                      "inline loop runs i = 0; i < times; ++i")
    def is_barrier_wait(e):
        return e["k"] == "call" and e.get("fn", "") == "std::condition_variable::wait" and L.resolve_field(ex, call_obj(e)) == PEI + "::waitCondition"
    p = ex.path_exists(None, "exit", is_barrier_wait, avoid_blocks=st)
    chk.judge(p is None, "ORDER", "execute:blocks-until-all-workers-done", ex.loc, "the threaded path returns only after waitCondition.wait(...)", p)
    for b, i, e, cv, m, lam in L.wait_sites(ex):
        if cv == PEI + "::waitCondition" and lam:
            lf = P.by_name[lam][0]
            rv = lf.ret_events()[0][2]["val"]
            ok = rv[0] == "op" and rv[1] == "==" and field_of(rv[2]) == PEI + "::waitingThreadCount" and \
                bool(sx_find(rv[3], lambda y: y[0] == "call" and y[1].endswith("::size") and field_of(y[2]) == PEI + "::threads"))
            chk.judge(ok, "ORDER", "execute:wait-predicate", "%s:%d" % (ex.file, e["line"]), "waits until waitingThreadCount == threads.size(), got " + sx_str(rv))
    # dispatch stores exactly the arguments
    ws = {field_of(ev_write(e)[0]): ev_write(e)[2] for _, _, e in ex.events(lambda e: bool(ev_write(e)) and field_of(ev_write(e)[0]) in (PEI + "::currentTask", PEI + "::currentTaskCount", PEI + "::waitingThreadCount"))}
    chk.judge(ws.get(PEI + "::currentTask") == ["un", "&", ["var", tparam]], "ORDER", "execute:currentTask=&task", ex.loc, "dispatch publishes the task argument")
    chk.judge(ws.get(PEI + "::currentTaskCount") == ["var", nparam], "ORDER", "execute:currentTaskCount=times", ex.loc, "dispatch publishes the count argument")
    chk.judge(_is_lit(ws.get(PEI + "::waitingThreadCount"), "0"), "ORDER", "execute:waitingThreadCount=0", ex.loc, "dispatch resets the barrier count")
    chk.floor("ORDER", 18)


def _loop_depth(fn, b):
    return fn.loop_depth(b)


def _region_until_return(fn, g):
    """Blocks reachable from block g."""
    seen = set()
    st = [g]
    while st:
        x = st.pop()
        if x in seen:
            continue
        seen.add(x)
        st.extend(fn.succs(x))
    return seen


# ------------------------------------------------------------------ STRIDE

def stride(chk, P, L):
    chk.rule("STRIDE", "worker k executes indices k, k+n, k+2n, ... < count where n is the thread count read before the loop and k its "
             "ThreadInfo index; ThreadInfo(i) is created for i = 0..numMaxThreads-1 and threads has numMaxThreads entries: "
             "the residue classes partition [0,count) (arithmetic argument, trusted)")
    tb = P.fn(TB_PE)
    for b, i, e in tb.calls(TASK + "::execute"):
        site = "%s:%d" % (tb.file, e["line"])
        a = call_args(e)
        iv = var_of(a[0]) if a else None
        d = [dd for _, _, dd in tb.events(lambda dd: dd["k"] == "decl" and dd["var"] == iv)]
        chk.judge(bool(d) and field_of(d[0]["init"]) == TI + "::index", "STRIDE", "worker:start=info.index", site, "first index is the thread's own index")
        ws = [ev for _, _, ev in tb.events(lambda ev: ev["k"] == "assign" and var_of(ev["lhs"]) == iv)]
        ok = len(ws) == 1 and ws[0]["op"] == "+="
        sv = var_of(ws[0]["rhs"]) if ok else None
        sd = [(bb, ii, dd) for bb, ii, dd in tb.events(lambda dd: dd["k"] == "decl" and dd["var"] == sv)]
        ok = ok and len(sd) == 1 and L.accessor_field((sx_find(sd[0][2]["init"], lambda y: y[0] == "call") or [[None, ""]])[0][1]) == PEI + "::threads" or False
        # getThreadCount returns threads.size(): accessor_field sees through `return threads.size()`? it is a call: check directly
        if not ok and len(sd) == 1:
            c = sx_find(sd[0][2]["init"], lambda y: y[0] == "call")
            if c:
                g = P.fns_named(c[0][1])
                if g and len(g[0].ret_events()) == 1:
                    rv = g[0].ret_events()[0][2]["val"]
                    ok = bool(sx_find(rv, lambda y: y[0] == "call" and y[1].endswith("::size") and field_of(y[2]) == PEI + "::threads")) and len(ws) == 1 and ws[0]["op"] == "+="
        chk.judge(ok, "STRIDE", "worker:step=threads.size()", site, "index advances by the number of threads")
        if sd:
            chk.judge(not _in_loop(tb, sd[0][0]), "STRIDE", "worker:step-read-once", site, "thread count is read once, before the worker loop")
            stepwrites = [ev for _, _, ev in tb.events(lambda ev: ev["k"] == "assign" and var_of(ev["lhs"]) == sv)]
            chk.judge(not stepwrites, "STRIDE", "worker:step-constant", site, "the stride variable is never reassigned")
        heads = [h for h in tb.loops_of(b) if "cond" in (tb.blocks[h].get("term") or {})]
        cv = None
        okc = False
        for h in heads:
            c = tb.blocks[h]["term"]["cond"]
            if c[0] == "op" and c[1] == "<" and var_of(c[2]) == iv:
                cv = var_of(c[3])
                cd = [dd for _, _, dd in tb.events(lambda dd: dd["k"] == "decl" and dd["var"] == cv)]
                okc = bool(cd) and L.accessor_field((sx_find(cd[0]["init"], lambda y: y[0] == "call") or [[None, ""]])[0][1]) == PEI + "::currentTaskCount"
        chk.judge(okc, "STRIDE", "worker:bound=index<currentTaskCount", site, "loop runs while index < current task count (strict)")
    # the launch site may live in execute() itself or in a helper of the class: it is looked up class-wide
    launch = [(g, b, i, e) for g in P.methods_of(PEI) for b, i, e in g.calls()
              if e.get("fn", "").endswith("::emplace_back") and field_of(call_obj(e)) == PEI + "::threadInfo"]
    chk.judge(len(launch) == 1, "STRIDE", "launch:one-ThreadInfo-site", P.fn(PEI + "::execute").loc, "ThreadInfo objects are created at one site (found %d)" % len(launch))
    for ex, b, i, e in launch:
        site = "%s:%d" % (ex.file, e["line"])
        a = call_args(e)
        iv = var_of(a[0]) if a else None
        chk.judge(len(a) == 2 and iv is not None and a[1] == ["this"], "STRIDE", "launch:ThreadInfo(i,this)", site, "ThreadInfo(i, this)")
        d = [dd for _, _, dd in ex.events(lambda dd: dd["k"] == "decl" and dd["var"] == iv and dd["line"] <= e["line"] and dd["line"] >= e["line"] - 3)]
        heads = [h for h in ex.loops_of(b) if "cond" in (ex.blocks[h].get("term") or {})]
        okc = any(ex.blocks[h]["term"]["cond"][:2] == ["op", "<"] and var_of(ex.blocks[h]["term"]["cond"][2]) == iv and
                  field_of(ex.blocks[h]["term"]["cond"][3]) == PEI + "::numMaxThreads" for h in heads)
        chk.judge(bool(d) and _is_lit(d[0]["init"], "0") and okc, "STRIDE", "launch:i=0..numMaxThreads-1", site, "thread indices are 0 .. numMaxThreads-1")
        thr = [ev for _, _, ev in ex.events(lambda ev: ev["k"] == "call" and ev.get("op") == "=" and field_of(ev["x"][2]) == PEI + "::threads")]
        chk.judge(len(thr) == 1 and var_of(thr[0]["x"][2][3] if thr[0]["x"][2][0] == "opc" else None) == iv, "STRIDE", "launch:threads[i]", site, "thread i is stored at threads[i]")
    rs = [e for g in P.methods_of(PEI) for _, _, e in g.calls() if e.get("fn", "").endswith("::resize") and field_of(call_obj(e)) == PEI + "::threads"]
    chk.judge(len(rs) == 1 and field_of(call_args(rs[0])[0]) == PEI + "::numMaxThreads", "STRIDE", "launch:threads.resize(numMaxThreads)", P.fn(PEI + "::execute").loc, "threads has numMaxThreads entries")
    # numMaxThreads never changes after construction
    for fn in P.all_fns():
        for b, i, e in fn.events(lambda e: e["k"] == "mem" and e["field"] == PEI + "::numMaxThreads" and e["acc"] in ("w", "rw", "handout", "addr", "refarg")):
            chk.judge(fn.kind == "ctor" and fn.cls == PEI, "STRIDE", "numMaxThreads<-" + fn.id, "%s:%d" % (fn.file, e["line"]), "numMaxThreads is written only by constructors")
    chk.floor("STRIDE", 11)


# -------------------------------------------------------- Parallel2DExecutor

def p2d_split(chk, P):
    """Squares of one pass run concurrently, so two sub-squares that a split puts into the SAME pass must differ in both their row bin and their
    column bin (a necessary condition of 'no two simultaneous invocations share an index'; the global argument over the recursion is not decided)."""
    f = P.fn(P2D + "::addSquare")
    ps = [p_[0] for p_ in f.d["params"]]
    rec = [(b, i, e) for b, i, e in f.calls() if str(e.get("fn", "")) == P2D + "::addSquare" and len(call_args(e)) == 4]
    if not chk.shape(bool(rec), "P2D", "split:recursive-calls", f.loc, "addSquare splits a square by calling itself (%d call sites)" % len(rec)):
        return
    def loopvars(b):
        out = set()
        for h in f.loops_of(b):
            t = f.blocks[h].get("term")
            if t and t.get("cond") is not None:
                for y in sx_find(t["cond"], lambda y: y[0] == "var" and y[1] not in ps):
                    out.add(y[1])
        return out
    def vars_of(x):
        return {y[1] for y in sx_find(x, lambda y: y[0] == "var")}
    sites = []
    for b, i, e in rec:
        a = call_args(e)
        sites.append(dict(x=a[0], y=a[1], p=a[2], lv=loopvars(b), e=e))
    bad = []
    # (a) one call site executed several times (loop form): iterations that agree on the loop variables the pass depends on must differ in x and in y,
    #     i.e. every other loop variable must occur in both coordinate expressions
    for s_ in sites:
        free = s_["lv"] - vars_of(s_["p"])
        for w in sorted(free):
            if w not in vars_of(s_["x"]) or w not in vars_of(s_["y"]):
                bad.append("call at line %d: iterations differing only in `%s` go to the same pass %s but share %s" %
                           (s_["e"]["line"], w, sx_str(s_["p"]), "the row bin " + sx_str(s_["x"]) if w not in vars_of(s_["x"]) else "the column bin " + sx_str(s_["y"])))
    # (b) distinct call sites with structurally the same pass expression must differ in both coordinates
    for n, s1 in enumerate(sites):
        for s2 in sites[n + 1:]:
            if sx_str(s1["p"]) == sx_str(s2["p"]) and not (s1["lv"] or s2["lv"]):
                if sx_str(s1["x"]) == sx_str(s2["x"]) or sx_str(s1["y"]) == sx_str(s2["y"]):
                    bad.append("calls at lines %d and %d both use pass %s and share a bin: (%s,%s) vs (%s,%s)" %
                               (s1["e"]["line"], s2["e"]["line"], sx_str(s1["p"]), sx_str(s1["x"]), sx_str(s1["y"]), sx_str(s2["x"]), sx_str(s2["y"])))
    chk.judge(not bad, "P2D", "split:same-pass-sub-squares-share-no-bin", f.loc, "; ".join(bad) if bad else
              "sub-squares put into the same pass differ in both bins (%d call sites)" % len(sites))
    # the leaf stores the square in the list of the pass it was given
    leaf = [e for _, _, e in f.calls() if str(e.get("fn", "")).endswith("::push_back") and field_of(call_obj(e)) == P2D + "::squares"]
    okl = len(leaf) == 1 and bool(sx_find(call_obj(leaf[0]), lambda y: y[0] == "var" and y[1] == ps[2])) and \
        sorted(vars_of(call_args(leaf[0])[0]) & set(ps)) == sorted(ps[:2])
    chk.judge(okl, "P2D", "split:leaf-stores-(x,y)-in-its-pass", f.loc, "a leaf square (x, y) is appended to squares[pass-1]")


# ---- P2D partition/executor coupling: a finite case analysis over guard conditions ----
_REPS = (0, 1, 2, 3, 4, 5, 8, 16, 32)
_BR = ("if", "cond", "while", "for", "do", "||", "&&")


def _subs(x):
    if isinstance(x, list):
        if x and isinstance(x[0], str):
            yield x
        for y in x:
            yield from _subs(y)


def _ival(x, env, fn=None):
    """three-valued value of a guard expression: literals, variables bound in env, the partition queries (binStart.size(),
    squares.size()/empty(), executor) bound in env, casts, arithmetic, comparisons, std::min/max, !, &&, ||.  None = unknown.
    env['?'] (if present) is the value of any other leaf."""
    if not isinstance(x, list) or not x:
        return None
    k = x[0]
    if k == "lit":
        t = str(x[1])
        if t in ("true", "false"):
            return t == "true"
        if t in ("nullptr", "NULL"):
            return 0
        try:
            return int(t.rstrip("uUlL"))
        except ValueError:
            return None
    if k == "cast" and len(x) == 3:
        return _ival(x[2], env, fn)
    if k == "var":
        if x[1] in env:
            return env[x[1]]
        if fn is not None:
            y = expand_locals(fn, x)
            if y != x:
                return _ival(y, env, fn)
        return env.get("?")
    if k == "mem":
        if field_of(x) == P2D + "::executor":
            return env.get("executor", env.get("?"))
        return env.get("?")
    if k == "call":
        name = str(x[1]).split("::")[-1]
        f = field_of(x[2]) if len(x) > 2 and isinstance(x[2], list) else None
        if f == P2D + "::binStart" and name == "size" and "binStart.size" in env:
            return env["binStart.size"]
        if f == P2D + "::squares" and name == "size" and "squares.size" in env:
            return env["squares.size"]
        if f == P2D + "::squares" and name == "empty" and "squares.size" in env:
            return env["squares.size"] == 0
        if name in ("max", "min") and len(x) > 3 and isinstance(x[3], list) and len(x[3]) == 2:
            a, b = _ival(x[3][0], env, fn), _ival(x[3][1], env, fn)
            if a is not None and b is not None:
                return max(a, b) if name == "max" else min(a, b)
            return None
        return env.get("?")
    if k == "un" and len(x) == 3 and x[1] == "!":
        v = _ival(x[2], env, fn)
        return None if v is None else not v
    if k == "op" and len(x) == 4:
        o = x[1]
        a, b = _ival(x[2], env, fn), _ival(x[3], env, fn)
        if o == "||":
            if (a is not None and a) or (b is not None and b):
                return True
            return None if a is None or b is None else False
        if o == "&&":
            if (a is not None and not a) or (b is not None and not b):
                return False
            return None if a is None or b is None else True
        if a is None or b is None:
            return None
        try:
            if o in ("/", "%") and (not b or a < 0 or b < 0):
                return None
            return {"+": lambda: a + b, "-": lambda: a - b, "*": lambda: a * b, "/": lambda: a // b, "%": lambda: a % b,
                    "<<": lambda: a << b, ">>": lambda: a >> b,
                    "==": lambda: a == b, "!=": lambda: a != b, "<": lambda: a < b, "<=": lambda: a <= b, ">": lambda: a > b, ">=": lambda: a >= b}[o]()
        except (KeyError, TypeError, ValueError):
            return None
    return None


def _dead_edges(fn, env, frozen=()):
    """the untaken side of every two-way branch whose condition has a known value under env.  A condition over a variable in `frozen`
    counts only in blocks after which that variable is never assigned (its value at the branch is its value from then on)."""
    dead = set()
    for b, blk in fn.blocks.items():
        t = blk.get("term")
        if not t or t.get("cond") is None or t["k"] not in _BR or len(blk["succ"]) != 2:
            continue
        c = t["cond"]
        vs = {y[1] for y in _subs(c) if y[0] == "var"}
        stale = False
        for v in frozen:
            if v in vs and fn.path_exists((b, len(blk.get("ev", [])) - 1), lambda e, v=v: e["k"] == "assign" and var_of(e["lhs"]) == v, lambda e: False, lift=0) is not None:
                stale = True
        if stale:
            continue
        val = _ival(c, env, fn)
        if val is None:
            continue
        dead.add((b, blk["succ"][1 if val else 0]))
    return dead


def _live_blocks(fn, dead):
    seen, st = {fn.entry}, [fn.entry]
    infeas = fn.infeasible_edges()
    while st:
        b = st.pop()
        for s in fn.succs(b):
            if s in seen or (b, s) in dead or (b, s) in infeas:
                continue
            seen.add(s)
            st.append(s)
    return seen


def _init_bins(chk, P):
    """init(n): for each representative n, is the partition one bin (n := 1) or 1 << levels bins (levels >= L)?"""
    f = P.fn(P2D + "::init")
    par = f.d["params"][0][0]
    rs = [e for _, _, e in f.calls() if str(e.get("fn", "")).endswith("::resize") and field_of(call_obj(e)) == P2D + "::binStart"]
    if not chk.shape(len(rs) == 1 and call_args(rs[0]), "P2D", "partition:init-sizes-binStart", f.loc, "init sizes binStart once (%d)" % len(rs)):
        return None
    bv = [y[1] for y in _subs(call_args(rs[0])[0]) if y[0] == "var"]
    if not chk.shape(len(bv) == 1, "P2D", "partition:bins-variable", f.loc, "binStart.resize(<bins>+1)"):
        return None
    bv = bv[0]
    res = {}
    for r in _REPS:
        live = _live_blocks(f, _dead_edges(f, {par: r}, frozen=(par,)))
        vals = []
        for b, i, e in f.events(lambda e: e["k"] in ("assign", "decl")):
            if b not in live:
                continue
            if e["k"] == "decl" and e["var"] == bv and e.get("init") is not None:
                vals.append(e["init"])
            if e["k"] == "assign" and var_of(e["lhs"]) == bv and e["lhs"][0] == "var":
                vals.append(e["rhs"] if e["op"] == "=" else None)
        cls = set()
        for v in vals:
            if _ival(v, {}) == 1:
                cls.add("single")
            elif isinstance(v, list) and v[0] == "op" and v[1] == "<<" and _ival(v[2], {}) == 1 and v[3][0] == "var":
                lv = v[3][1]
                d = [dd for _, _, dd in f.events(lambda dd: dd["k"] == "decl" and dd["var"] == lv)]
                lo = _ival(d[0].get("init"), {}) if len(d) == 1 else None
                if lo is None:
                    cls.add("?")
                    continue
                # increments every path from the declaration to this assignment passes
                tgt = [(bb, ii) for bb, ii, ee in f.events(lambda ee: ee["k"] == "assign" and ee.get("rhs") is v)]
                for bb, ii, inc in f.events(lambda ee: ee["k"] == "assign" and ee["op"] == "++" and var_of(ee["lhs"]) == lv):
                    if f.path_exists(None, lambda q: q.get("rhs") is v, lambda q, inc=inc: q is inc, lift=0) is None:
                        lo += 1
                cls.add(("pow2", lo))
            else:
                cls.add("?")
        res[r] = cls
    ok = all(len(c) == 1 and "?" not in c for c in res.values())
    if not chk.shape(ok, "P2D", "partition:init-bin-count", f.loc, "for every processor count init makes 1 bin or 1<<levels bins: %s" % {r: sorted(map(str, c)) for r, c in res.items()}):
        return None
    return {r: next(iter(c)) for r, c in res.items()}


def _ctor_cases(chk, P, c, bins_of):
    """(executor is null?, bin class) combinations a constructor can leave the object in"""
    ini = [(b, i, e) for b, i, e in c.calls(P2D + "::init")]
    if not chk.shape(len(ini) == 1, "P2D", "partition:ctor-calls-init", c.loc, "constructor calls init once (%d)" % len(ini)):
        return None
    ib, ii, ie = ini[0]
    A = call_args(ie)[0]
    v = var_of(A) if A[0] == "var" else None
    def ptr_state(x, env):
        """null / pool / any for a pointer-valued expression; a conditional expression is taken apart under env"""
        while isinstance(x, list) and x and x[0] in ("cast", "conv") and isinstance(x[-1], list):
            x = x[-1]
        if isinstance(x, list) and x and x[0] == "cond" and len(x) == 4:
            t = _ival(x[1], env, c)
            if t is None:
                a, b = ptr_state(x[2], env), ptr_state(x[3], env)
                return a if a == b else "any"
            return ptr_state(x[2] if t else x[3], env)
        if _ival(x, {}) == 0:
            return "null"
        return "pool" if isinstance(x, list) and x and (x[0] == "new" or (x[0] == "un" and x[1] == "&") or x[0] == "addr") else "any"
    cases = set()
    for r in _REPS:
        if v is not None:
            env, frozen = {v: r}, (v,)
            arg = r
        else:
            env, frozen = {}, ()
            leaves = {sx_str(y) for y in _subs(A) if y[0] in ("call", "mem", "var") and y[1] not in ("std::max", "std::min", "max", "min") and not str(y[1]).endswith(("::max", "::min"))}
            arg = _ival(A, {"?": r}) if len(leaves) <= 1 else r
            if arg is None:
                arg = r
        dead = _dead_edges(c, env, frozen)
        live = _live_blocks(c, dead)
        if ib not in live:
            continue
        start = None
        for it in c.d.get("inits", []):
            if it.get("field") == P2D + "::executor" and it.get("written"):
                # (a member initialiser runs before the body: a test of v there sees the value v has on entry)
                assigned_v = v is not None and any(True for _ in c.events(lambda q: q["k"] == "assign" and var_of(q["lhs"]) == v))
                start = ptr_state(it["init"], {} if assigned_v else env)
        # last write of executor on each live path to the init call
        states = set()
        seen = set()
        st = [(c.entry, start)]
        while st:
            b, s = st.pop()
            if (b, s) in seen:
                continue
            seen.add((b, s))
            done = False
            for j, e in enumerate(c.blocks[b].get("ev", [])):
                if e is ie:
                    states.add(s)
                    done = True
                    break
                if e["k"] == "assign" and field_of(e["lhs"]) == P2D + "::executor" and e["lhs"][0] == "mem":
                    stale = v is not None and c.path_exists((b, j), lambda q: q["k"] == "assign" and var_of(q["lhs"]) == v, lambda q: False, lift=0) is not None
                    s = ptr_state(e.get("rhs"), {} if stale else env)
            if done:
                continue
            for t in c.succs(b):
                if (b, t) not in dead and t in live:
                    st.append((t, s))
        cl = bins_of.get(arg if arg in bins_of else max(k for k in bins_of if k <= max(arg, 0)))
        for s in states:
            for s2 in (("null", "pool") if s in ("any", None) else (s,)):
                cases.add((s2, cl))
    return cases


def p2d_partition(chk, P, ex):
    """every state a constructor can leave the object in (executor null or a pool; one bin or 2^k bins) is one in which execute()
    runs exactly one diagonal pass and that pass covers bins [0, n)"""
    bins_of = _init_bins(chk, P)
    if bins_of is None:
        return
    ctors = [m for m in P.methods_of(P2D) if m.kind == "ctor" and m.blocks and len(m.d["params"]) == 2]
    if not chk.shape(len(ctors) >= 2, "P2D", "partition:constructors", ex.loc, "two constructors (%d)" % len(ctors)):
        return
    TT = P2D + "::TriangleTask"

    def ctor_of(x):
        x = expand_locals(ex, x) if x and x[0] == "var" else x
        return x if isinstance(x, list) and x and x[0] == "ctor" and x[1] == TT else None

    n_inst = 0
    for c in ctors:
        cases = _ctor_cases(chk, P, c, bins_of)
        if cases is None:
            continue
        sig = "(%s)" % ",".join(p[1] for p in c.d["params"])
        for s, cl in sorted(cases, key=str):
            ns = (1,) if cl == "single" else tuple(1 << k for k in range(cl[1], cl[1] + 5))
            bad = []
            for n in ns:
                env = {"executor": 0 if s == "null" else 1, "binStart.size": n + 1, "squares.size": n - 1 if n > 1 else 0}
                dead = _dead_edges(ex, env)
                live = _live_blocks(ex, dead)
                sites = []
                for b, i, e in ex.calls():
                    if b not in live:
                        continue
                    fnm = str(e.get("fn", ""))
                    if fnm == TT + "::execute":
                        t = ctor_of(call_obj(e))
                        if t:
                            w, idx = _ival(t[2][3], env, ex), _ival(call_args(e)[0], env, ex)
                            sites.append((e, None if w is None or idx is None else (w * idx, w * (idx + 1)), "TriangleTask(width %s).execute(%s)" % (w, idx)))
                    elif fnm == "SimTK::ParallelExecutor::execute" and call_args(e):
                        t = ctor_of(call_args(e)[0])
                        if t:
                            w, cnt = _ival(t[2][3], env, ex), _ival(call_args(e)[1], env, ex)
                            sites.append((e, None if w is None or cnt is None else (0, w * cnt), "executor->execute(TriangleTask(width %s), %s)" % (w, cnt)))
                if len(sites) != 1:
                    bad.append("%d bins: %d diagonal passes can run (%s)" % (n, len(sites), "; ".join(t[2] for t in sites)))
                    continue
                e, rng, txt = sites[0]
                if rng != (0, n):
                    bad.append("%d bin%s: line %d %s covers bins [%s) of [0, %d)" % (n, "" if n == 1 else "s", e["line"], txt, "?" if rng is None else "%d, %d" % rng, n))
                    continue
                p = ex.path_exists(None, "exit", lambda q, e=e: q is e, avoid_edges=dead, lift=0)
                if p is not None:
                    bad.append("%d bins: a path to the exit skips the diagonal pass (blocks %s)" % (n, p))
            n_inst += 1
            what = "executor %s, %s" % ("absent" if s == "null" else "present", "one bin" if cl == "single" else ">= %d bins" % (1 << cl[1]))
            chk.judge(not bad, "P2D", "partition:%s:%s:%s" % (sig, s, "single" if cl == "single" else "pow2"), c.loc,
                      ("constructor %s can leave the object with %s; execute() then " % (sig, what)) + ("; ".join(bad) if bad else "runs one diagonal pass over all the bins"))
    chk.shape(n_inst >= 3, "P2D", "partition:cases", ex.loc, "constructor states enumerated (%d)" % n_inst)


def p2d(chk, P):
    chk.rule("P2D", "Parallel2DExecutor: the user's initialize runs only in the first (triangle) pass and finish only in the last square pass; "
             "each pass is a separate blocking ParallelExecutor::execute; the non-parallel branch calls initialize/execute/finish itself; "
             "the pass tasks forward initialize/finish under exactly those flags; a square's split never puts two sub-squares that share a row or column "
             "bin into the same pass (squares of one pass run concurrently)")
    p2d_split(chk, P)
    ex = P.fn(P2D + "::execute")
    T2 = "SimTK::Parallel2DExecutor::Task"
    # the sequential branch: blocks entered only where `executor == 0` or `the partition has one bin` is known
    one, many = {"binStart.size": 2, "squares.size": 0}, {"binStart.size": 9, "squares.size": 7}

    def _noexec(c):
        return (c[0] == "op" and c[1] == "==" and len(c) == 4 and ((field_of(c[2]) == P2D + "::executor" and _ival(c[3], {}) == 0) or
                                                                   (field_of(c[3]) == P2D + "::executor" and _ival(c[2], {}) == 0)))

    def _hasexec(c):
        return ((c[0] == "op" and c[1] == "!=" and len(c) == 4 and ((field_of(c[2]) == P2D + "::executor" and _ival(c[3], {}) == 0) or
                                                                    (field_of(c[3]) == P2D + "::executor" and _ival(c[2], {}) == 0))) or
                (c[0] in ("mem", "cast") and field_of(c) == P2D + "::executor"))
    K = known_edges(ex, lambda c: _noexec(c) or (_ival(c, one, ex) is True and _ival(c, many, ex) is False),
                    lambda c: _hasexec(c) or (_ival(c, one, ex) is False and _ival(c, many, ex) is True))
    seq = {b for b in ex.blocks if b in ex.reachable() and only_via(ex, b, K)}
    chk.judge(len(seq) >= 1, "P2D", "execute:sequential-guard", ex.loc, "a sequential branch exists, taken only when executor == 0 or the partition has a single bin")
    p2d_partition(chk, P, ex)
    tri = []
    sq = []
    for b, i, e in ex.events(lambda e: e["k"] == "call" and e.get("ctor")):
        if e["fn"].endswith("TriangleTask::TriangleTask") and len(call_args(e)) == 6:
            tri.append((b, i, e))
        if e["fn"].endswith("SquareTask::SquareTask") and len(call_args(e)) == 6:
            sq.append((b, i, e))
    inseq = [t for t in tri if t[0] in seq]
    par = [t for t in tri if t[0] not in seq]
    chk.judge(len(inseq) == 1 and len(par) == 1 and len(sq) == 1, "P2D", "execute:pass-construction-sites", ex.loc,
              "one sequential triangle, one parallel triangle, one square task site (got %d/%d/%d)" % (len(inseq), len(par), len(sq)))
    if inseq:
        a = call_args(inseq[0][2])
        chk.judge(_is_lit(a[4], "false") and _is_lit(a[5], "false"), "P2D", "sequential:flags", ex.loc, "sequential triangle task neither initializes nor finishes (the caller does)")
        b0 = inseq[0][0]
        calls = [(bb, ii, ev["fn"].split("::")[-1]) for bb, ii, ev in ex.events(lambda ev: ev["k"] == "call" and ev.get("fn", "").startswith(T2 + "::")) if bb in seq]
        chk.judge([c[2] for c in calls] == ["initialize", "finish"] or sorted(c[2] for c in calls) == ["finish", "initialize"], "P2D", "sequential:init-finish", ex.loc,
                  "sequential branch calls task.initialize() and task.finish() itself")
    if par:
        a = call_args(par[0][2])
        chk.judge(_is_lit(a[4], "true") and _is_lit(a[5], "false"), "P2D", "triangle:flags", "%s:%d" % (ex.file, par[0][2]["line"]),
                  "triangle pass initializes and does not finish, got (%s,%s)" % (sx_str(a[4]), sx_str(a[5])))
    if sq:
        b, i, e = sq[0]
        a = call_args(e)
        site = "%s:%d" % (ex.file, e["line"])
        chk.judge(_is_lit(a[4], "false"), "P2D", "square:no-initialize", site, "square passes never initialize")
        fin = expand_locals(ex, a[5])       # a named local for squares.size() is looked through
        okf = isinstance(fin, list) and fin[0] == "op" and fin[1] == "==" and var_of(fin[2]) is not None and \
            bool(sx_find(fin[3], lambda y: y[0] == "op" and y[1] == "-" and _is_lit(y[3], "1") and
                         bool(sx_find(y[2], lambda z: z[0] == "call" and z[1].endswith("::size") and field_of(z[2]) == P2D + "::squares"))))
        chk.judge(okf, "P2D", "square:finish-only-last", site, "shouldFinish is `i == squares.size()-1`, got " + sx_str(fin))
        chk.judge(_in_loop(ex, b), "P2D", "square:in-loop", site, "square passes are dispatched in a loop over squares")
        iv = var_of(fin[2]) if okf else None
        heads = [h for h in ex.loops_of(b) if "cond" in (ex.blocks[h].get("term") or {})]
        okc = any(ex.blocks[h]["term"]["cond"][0] == "op" and ex.blocks[h]["term"]["cond"][1] == "<" and var_of(ex.blocks[h]["term"]["cond"][2]) == iv and
                  bool(sx_find(expand_locals(ex, ex.blocks[h]["term"]["cond"][3]), lambda z: z[0] == "call" and z[1].endswith("::size") and field_of(z[2]) == P2D + "::squares")) for h in heads)
        d = [dd for _, _, dd in ex.events(lambda dd: dd["k"] == "decl" and dd["var"] == iv)]
        incs = [ev for _, _, ev in ex.events(lambda ev: ev["k"] == "assign" and var_of(ev["lhs"]) == iv)]
        chk.judge(okc and bool(d) and _is_lit(d[0]["init"], "0") and len(incs) == 1 and incs[0]["op"] == "++", "P2D", "square:loop-0..size-1", site,
                  "the loop visits every pass i = 0 .. squares.size()-1 in order, so the last one exists and is last")
        # squares[i] passed with the same i
        chk.judge(bool(sx_find(a[2], lambda y: (y[0] == "opc" and y[1] == "[]" and field_of(y[2]) == P2D + "::squares" and var_of(y[3]) == iv))), "P2D", "square:squares[i]", site,
                  "pass i works on squares[i]")
    # every pass is dispatched through ParallelExecutor::execute (blocking)
    disp = [(b, i, e) for b, i, e in ex.calls("SimTK::ParallelExecutor::execute")]
    chk.judge(len(disp) == 2, "P2D", "execute:two-dispatch-sites", ex.loc, "triangle and square passes each dispatched through ParallelExecutor::execute")
    if par and sq and len(disp) == 2:
        tv = [dd["var"] for _, _, dd in ex.events(lambda dd: dd["k"] == "decl" and "TriangleTask" in dd["ty"])]
        sv = [dd["var"] for _, _, dd in ex.events(lambda dd: dd["k"] == "decl" and "SquareTask" in dd["ty"])]
        got = sorted(var_of(call_args(e)[0]) or "?" for _, _, e in disp)
        chk.judge(sorted(tv + sv) == got, "P2D", "execute:dispatches-the-pass-tasks", ex.loc, "dispatch sites execute the constructed pass tasks (%s)" % got)
        # triangle pass strictly before any square pass
        tdisp = [d for d in disp if var_of(call_args(d[2])[0]) in tv]
        sdisp = [d for d in disp if var_of(call_args(d[2])[0]) in sv]
        if tdisp and sdisp:
            p = ex.path_exists(None, lambda ev: ev is sdisp[0][2], lambda ev: ev is tdisp[0][2], avoid_blocks=seq)
            chk.judge(p is None, "P2D", "execute:triangle-before-squares", ex.loc, "the triangle pass (which initializes) precedes every square pass", p)
    # the pass task classes forward under their flags
    for cls in (P2D + "::TriangleTask", P2D + "::SquareTask"):
        for meth, flag in (("initialize", "shouldInitialize"), ("finish", "shouldFinish")):
            f = P.fn("%s::%s" % (cls, meth))
            calls = [(b, i, e) for b, i, e in f.calls(T2 + "::" + meth)]
            gb = guard_blocks(f, lambda c: field_of(c) == cls + "::" + flag and c[0] == "mem", 0)
            chk.judge(len(calls) == 1 and calls[0][0] in gb, "P2D", "%s::%s" % (cls.split("::")[-1], meth), f.loc,
                      "%s() forwards to the user task exactly when %s" % (meth, flag))
            other = [e for _, _, e in f.calls() if e.get("fn", "").startswith(T2 + "::") and not e["fn"].endswith("::" + meth)]
            chk.judge(not other, "P2D", "%s::%s:nothing-else" % (cls.split("::")[-1], meth), f.loc, "no other user-task call in " + meth)
        # the flags are set only from the constructor arguments
        for flag, pos in (("shouldInitialize", 4), ("shouldFinish", 5)):
            ctors = [m for m in P.methods_of(cls) if m.kind == "ctor"]
            ok = False
            for c in ctors:
                for ini in c.d.get("inits", []):
                    if ini.get("field") == cls + "::" + flag and var_of(ini["init"]) == c.d["params"][pos][0]:
                        ok = True
            chk.judge(ok, "P2D", "%s::%s<-ctor-arg" % (cls.split("::")[-1], flag), ctors[0].loc if ctors else "", "%s is initialised from constructor argument %d" % (flag, pos))
            wr = [fn.id for fn in P.methods_of(cls) for _, _, e in fn.events(lambda e: e["k"] == "mem" and e["field"] == cls + "::" + flag and e["acc"] in ("w", "rw", "addr", "handout", "refarg"))]
            chk.judge(not wr, "P2D", "%s::%s:never-reassigned" % (cls.split("::")[-1], flag), "", "flag never written after construction")
    chk.floor("P2D", 22)


# ------------------------------------------------------------- work queue

def workqueue(chk, P, L):
    chk.rule("PAIRCALL", "ParallelWorkQueue worker: a popped task is executed and deleted on every path; the pending count is "
             "incremented only together with a push and decremented exactly once per executed task (flag set after execute, "
             "cleared beside markTaskCompleted, flushed before thread exit); the destructor sets finished and notifies all before joining")
    tb = P.fn(TB_WQ)
    pops = [(b, i, e) for b, i, e in tb.calls() if e.get("fn", "").endswith("::pop") and L.resolve_field(tb, call_obj(e)) == PWQ + "::taskQueue"]
    fronts = [(b, i, e) for b, i, e in tb.calls() if e.get("fn", "").endswith("::front") and L.resolve_field(tb, call_obj(e)) == PWQ + "::taskQueue"]
    # the rule starts from the worker's own front()/pop() of the task queue; when the worker does not touch the queue itself (taken through a helper), it cannot be applied
    if chk.shape(bool(pops) or bool(fronts), "PAIRCALL", "worker:takes-tasks-from-the-queue-itself", tb.loc, "front()/pop() of taskQueue found in the worker body: %d/%d" % (len(fronts), len(pops))):
        chk.judge(len(pops) == 1 and len(fronts) == 1, "PAIRCALL", "worker:one-pop", tb.loc, "one front()/pop() site")
    execs = list(tb.calls("SimTK::ParallelWorkQueue::Task::execute"))
    dels = [(b, i, e) for b, i, e in tb.events(lambda e: e["k"] == "delete")]
    chk.judge(len(execs) == 1 and len(dels) == 1, "PAIRCALL", "worker:one-execute-one-delete", tb.loc, "one execute and one delete site")
    if pops and fronts and execs and dels:
        pb, pi, pe = pops[0]
        eb, ei, ee = execs[0]
        db, di, de = dels[0]
        tv = var_of(call_obj(ee))
        asg = [e for _, _, e in tb.events(lambda e: e["k"] == "assign" and var_of(e["lhs"]) == tv)]
        chk.judge(len(asg) == 1 and bool(sx_find(asg[0]["rhs"], lambda y: y[0] == "call" and y[1].endswith("::front"))), "PAIRCALL", "worker:task=front()", tb.loc,
                  "the executed task is the one taken from the queue front")
        chk.judge(var_of(de["arg"]) == tv, "PAIRCALL", "worker:delete-same-task", "%s:%d" % (tb.file, de["line"]), "the deleted object is the executed task")
        # front precedes pop (same element), pop on every path after front before unlocking
        p = tb.path_exists((fronts[0][0], fronts[0][1]), lambda e: is_call(e, "std::unique_lock<std::mutex>::unlock"), lambda e: e is pe)
        chk.judge(p is None, "PAIRCALL", "worker:front->pop", tb.loc, "the element read by front() is popped before the lock is released", p)
        # after pop: every path to the next loop iteration / exit passes execute and delete
        def next_round(e):
            return e["k"] == "decl" and e["var"] == "lock" or (e["k"] == "call" and e.get("fn", "").startswith("std::condition_variable::wait"))
        # a popped task is assumed non-null (addTask(NULL) is a caller error): the false edge of `task != NULL` is
        # infeasible on paths that come from the pop
        nn = branch_edges(tb, lambda c: c[0] == "op" and c[1] == "!=" and var_of(c[2]) == tv and _is_lit(c[3], "null"), 1)
        for what, tgt in (("execute", ee), ("delete", de)):
            p1 = tb.path_exists((pb, pi), "exit", lambda e, tgt=tgt: e is tgt, avoid_edges=nn)
            p2 = tb.path_exists((pb, pi), lambda e: e["k"] == "call" and e.get("fn", "").startswith("std::condition_variable::wait"), lambda e, tgt=tgt: e is tgt, avoid_edges=nn)
            chk.judge(p1 is None and p2 is None, "PAIRCALL", "worker:pop->" + what, "%s:%d" % (tb.file, pe["line"]),
                      "every path from pop() to the next wait/exit passes " + what, p1 or p2)
        chk.judge(tb.dominates((eb, ei), (db, di)), "PAIRCALL", "worker:execute<delete", tb.loc, "execute precedes delete")
        # execute runs unlocked
        before, _ = L.analyse(tb)
        chk.judge(PWQ + "::queueMutex" not in before.get((eb, ei), ()), "PAIRCALL", "worker:execute-unlocked", "%s:%d" % (tb.file, ee["line"]),
                  "tasks execute without the queue mutex (otherwise no parallelism and addTask deadlocks)")
        # the null guard: execute only if a task was taken
        gb = guard_blocks(tb, lambda c: c[0] == "op" and c[1] == "!=" and var_of(c[2]) == tv and _is_lit(c[3], "null"), 0)
        chk.judge(eb in gb, "PAIRCALL", "worker:execute-iff-task", tb.loc, "execute/delete guarded by task != NULL")
        # decrement flag protocol
        # the completion flag: the local set to true on the path that executed a task
        fl = [e for b, i, e in tb.events(lambda e: e["k"] == "assign" and _is_lit(e["rhs"], "true") and e["lhs"][0] == "var") if tb.dominates((eb, ei), (b, i))]
        chk.judge(len(fl) == 1, "PAIRCALL", "worker:flag-set-after-execute", tb.loc,
                  "a completion flag is set (once) after the task executed")
        if len(fl) == 1:
            fv = fl[0]["lhs"][1]
            fpos = [(b, i) for b, i, e in tb.events(lambda e: e is fl[0])][0]
            def completes(e):
                return is_call(e, PWQ + "::markTaskCompleted")
            p1 = tb.path_exists(fpos, "exit", completes)
            p2 = tb.path_exists(fpos, lambda e: e["k"] == "call" and e.get("fn", "").startswith("std::condition_variable::wait"), completes)
            # the only way around markTaskCompleted is the false edge of `if (flag)`, infeasible right after flag = true:
            # accept iff every markTaskCompleted is guarded by the flag and every such guard sits on all paths
            guards = guard_blocks(tb, lambda c: var_of(c) == fv and c[0] == "var", 0)
            mk = [(b, i, e) for b, i, e in tb.calls(PWQ + "::markTaskCompleted")]
            chk.judge(len(mk) == 2 and all(b in guards for b, i, e in mk), "PAIRCALL", "worker:complete-iff-flag", tb.loc,
                      "markTaskCompleted is called exactly under `if (flag)` (at loop top and after the loop)")
            # all paths flag=true -> (next wait | exit) pass an `if (flag)` test
            ifblocks = {b for b, blk in tb.blocks.items() if blk.get("term") and blk["term"]["k"] == "if" and blk["term"].get("cond") == ["var", fv]}
            p3 = tb.path_exists(fpos, "exit", lambda e: False, avoid_blocks=ifblocks)
            p4 = tb.path_exists(fpos, lambda e: e["k"] == "call" and e.get("fn", "").startswith("std::condition_variable::wait"), lambda e: False, avoid_blocks=ifblocks)
            chk.judge(p3 is None and p4 is None, "PAIRCALL", "worker:flag-tested-before-wait-or-exit", tb.loc,
                      "between setting the flag and the next wait / thread exit the flag is tested", p3 or p4)
            # cleared beside the completion inside the loop
            clr = [(b, i) for b, i, e in tb.events(lambda e: e["k"] == "assign" and var_of(e["lhs"]) == fv and _is_lit(e["rhs"], "false"))]
            inloop = [m for m in mk if _in_loop(tb, m[0])]
            chk.judge(len(inloop) == 1 and any(c[0] == inloop[0][0] for c in clr), "PAIRCALL", "worker:flag-cleared-with-completion", tb.loc,
                      "inside the loop the flag is cleared in the same block as markTaskCompleted (exactly one decrement per task)")
    drain(chk, P, L, tb)
    # addTask: ++pending only with push
    at = P.fn(PWQ + "::addTask")
    push = [(b, i, e) for b, i, e in at.calls() if e.get("fn", "").endswith("::push") and field_of(call_obj(e)) == PWQ + "::taskQueue"]
    inc = [(b, i, e) for b, i, e in at.events(lambda e: bool(ev_write(e)) and field_of(ev_write(e)[0]) == PWQ + "::pendingTasks")]
    chk.judge(len(push) == 1 and len(inc) == 1 and inc[0][2]["op"] == "++" and push[0][0] == inc[0][0], "PAIRCALL", "addTask:push+count", at.loc,
              "one push and one ++pendingTasks in the same block")
    if push:
        chk.judge(var_of(call_args(push[0][2])[0]) == at.d["params"][0][0], "PAIRCALL", "addTask:pushes-argument", at.loc, "the pushed task is the argument")
        p = at.path_exists(None, "exit", lambda e: e is push[0][2])
        chk.judge(p is None, "PAIRCALL", "addTask:always-pushes", at.loc, "every call enqueues", p)
    # writers of pendingTasks
    for fn in P.all_fns():
        for b, i, e in fn.events(lambda e: e["k"] == "mem" and e["field"] == PWQ + "::pendingTasks" and e["acc"] in ("w", "rw", "addr", "handout", "refarg")):
            chk.judge(fn.name in (PWQ + "::addTask", PWQ + "::markTaskCompleted"), "PAIRCALL", "pendingTasks<-" + fn.id, "%s:%d" % (fn.file, e["line"]), "pendingTasks written only by addTask/markTaskCompleted")
    mc = P.fn(PWQ + "::markTaskCompleted")
    dec = [e for _, _, e in mc.events(lambda e: bool(ev_write(e)) and field_of(ev_write(e)[0]) == PWQ + "::pendingTasks")]
    chk.judge(len(dec) == 1 and dec[0]["op"] == "--", "PAIRCALL", "markTaskCompleted:--pending", mc.loc, "exactly one decrement")
    # destructors: set finished, notify_all, then join every thread
    for cls, mtx, cvn, dn in ((PWQ, "queueMutex", "waitForTaskCondition", "~ParallelWorkQueueImpl"), (PEI, "runMutex", "runCondition", "~ParallelExecutorImpl")):
        d = P.fn(cls + "::" + dn)
        fin = [(b, i) for b, i, e in d.events(lambda e: bool(ev_write(e)) and field_of(ev_write(e)[0]) == cls + "::finished" and _is_lit(ev_write(e)[2], "true"))]
        joins = [(b, i, e) for b, i, e in d.calls("std::thread::join")]
        chk.judge(len(fin) == 1 and len(joins) == 1, "PAIRCALL", "%s:finished+join" % dn, d.loc, "destructor sets finished and joins")
        if fin and joins:
            p = d.path_exists(None, lambda e: e is joins[0][2], lambda e: bool(ev_write(e)) and field_of(ev_write(e)[0]) == cls + "::finished")
            chk.judge(p is None, "PAIRCALL", "%s:finished<join" % dn, d.loc, "finished is set before any join", p)
            p = d.path_exists(fin[0], lambda e: e is joins[0][2], lambda e: is_call(e, "std::condition_variable::notify_all") and field_of(call_obj(e)) == cls + "::" + cvn)
            chk.judge(p is None, "PAIRCALL", "%s:notify_all<join" % dn, d.loc, "all workers are woken before joining", p)
            p = d.path_exists(fin[0], lambda e: e is joins[0][2], lambda e: is_call(e, "std::unique_lock<std::mutex>::unlock") or e["k"] == "autodtor")
            chk.judge(p is None, "PAIRCALL", "%s:unlock<join" % dn, d.loc, "the mutex is released before joining (workers need it to exit)", p)
            jb = joins[0][0]
            over_threads = field_of(call_obj(joins[0][2])) == cls + "::threads" or \
                any(dd["var"].startswith("__range") and dd.get("init") is not None and bool(sx_find(dd["init"], lambda y: y[0] == "mem" and y[2] == cls + "::threads"))
                    for _, _, dd in d.events(lambda dd: dd["k"] == "decl"))     # index loop threads[i].join() or range-for over threads
            chk.judge(_in_loop(d, jb) and over_threads, "PAIRCALL", "%s:join-each" % dn, d.loc, "join is called in a loop over threads")
    chk.floor("PAIRCALL", 22)


def drain(chk, P, L, tb):
    """The worker may leave its loop only after an emptiness test found the queue empty: otherwise tasks still queued when the
    owner is destroyed are never executed.  Path search with constant propagation of the local bool flags that the loop
    condition tests (so that `done` is known false on the path that just took a task)."""
    waits = [(b, i, e) for b, i, e, cv, m, lam in L.wait_sites(tb) if cv == PWQ + "::waitForTaskCondition"]
    chk.judge(len(waits) == 1, "PAIRCALL", "worker:one-wait", tb.loc, "one wait for work")
    if not waits:
        return
    def empty_edge():
        res = set()
        for b, blk in tb.blocks.items():
            t = blk.get("term")
            if not t or "cond" not in t or len(blk["succ"]) < 2:
                continue
            c = t["cond"]
            neg = False
            # for a short-circuit block clang reports the operand evaluated last; for the final block the whole expression
            if isinstance(c, list) and c[0] == "op" and c[1] in ("||", "&&"):
                c = c[3]
            if isinstance(c, list) and c[0] == "un" and c[1] == "!":
                neg = True
                c = c[2]
            if isinstance(c, list) and c[0] == "call" and c[1].endswith("::empty") and L.resolve_field(tb, c[2]) == PWQ + "::taskQueue":
                res.add((b, blk["succ"][1] if neg else blk["succ"][0]))
        return res
    ee = empty_edge()
    if not chk.shape(bool(ee), "PAIRCALL", "worker:emptiness-test", tb.loc, "the worker body itself tests taskQueue.empty()"):
        return
    flags = {d["var"]: ("true" if _is_lit(d["init"], "true") else "false") for _, _, d in tb.events(lambda d: d["k"] == "decl" and d["ty"] == "bool" and d["init"] is not None and
                                                                                                  (_is_lit(d["init"], "true") or _is_lit(d["init"], "false")))}
    wb, wi, we = waits[0]
    seen = set()
    stack = [(wb, wi + 1, tuple(sorted(flags.items())), (wb,))]
    bad = None
    while stack and bad is None:
        b, i, st, path = stack.pop()
        if (b, i, st) in seen:
            continue
        seen.add((b, i, st))
        env = dict(st)
        blk = tb.blocks[b]
        stop = False
        for j in range(i, len(blk["ev"])):
            e = blk["ev"][j]
            if e["k"] == "call" and e.get("fn", "").startswith("std::condition_variable::wait"):
                stop = True   # next round
                break
            if e["k"] == "assign" and e["lhs"][0] == "var" and e["lhs"][1] in env:
                env[e["lhs"][1]] = "true" if _is_lit(e["rhs"], "true") else "false" if _is_lit(e["rhs"], "false") else "?"
            if e["k"] == "ret" or e["k"] == "throw":
                stop = True
        if stop:
            continue
        if b == tb.exit:
            bad = list(path)
            break
        succ = blk["succ"]
        t = blk.get("term")
        feasible = [s for s in succ if s >= 0]
        if t and "cond" in t and len(succ) >= 2:
            c = t["cond"]
            if isinstance(c, list) and c[0] == "op" and c[1] in ("||", "&&"):
                c = c[3] if (isinstance(c[3], list) and (c[3][0] == "var" or (c[3][0] == "un" and c[3][2][0] == "var"))) else c
            neg = False
            if isinstance(c, list) and c[0] == "un" and c[1] == "!":
                neg, c = True, c[2]
            if isinstance(c, list) and c[0] == "var" and c[1] in env and env[c[1]] in ("true", "false"):
                val = (env[c[1]] == "true") != neg
                feasible = [succ[0]] if val else [succ[1]]
        for s2 in feasible:
            if s2 < 0 or (b, s2) in ee or (b, s2) in tb.infeasible_edges():
                continue
            stack.append((s2, 0, tuple(sorted(env.items())), path + (s2,)))
    chk.judge(bad is None, "PAIRCALL", "worker:exit-only-when-queue-empty", "%s:%d" % (tb.file, we["line"]),
              "the worker can leave its loop on a path that never found the queue empty: tasks still queued at destruction would never run", bad)


# --------------------------------------------------------------- mutations
_PE = "SimTKcommon/src/ParallelExecutor.cpp"
_WQ = "SimTKcommon/src/ParallelWorkQueue.cpp"
_2D = "SimTKcommon/src/Parallel2DExecutor.cpp"
MUTATIONS = [
    dict(name="seeded (sub-agent): worker exits as soon as finished is set, leaving queued tasks", file=_WQ,
         old="        else {\n            // Woken with nothing queued: the queue is finished and drained.\n            // (Decided here, with the mutex held, not in the loop condition.)\n            done = true;\n        }\n",
         new="        done = owner.isFinished();\n", expect="worker:exit-only-when-queue-empty"),
    dict(name="execute() falls back only when there is no executor (pre-fix code, F16)", arm=True, file="SimTKcommon/src/Parallel2DExecutor.cpp",
         old="    if (executor == 0 || binStart.size() == 2) {", new="    if (executor == 0) {", expect="P2D:partition:(int,SimTK::ParallelExecutor &):pool:single"),
    dict(name="execute() falls back to one bin's triangle on a four-bin partition", file="SimTKcommon/src/Parallel2DExecutor.cpp",
         old="    if (executor == 0 || binStart.size() == 2) {", new="    if (executor == 0 || binStart.size() <= 5) {", expect="pool:pow2"),
    dict(name="owning constructor keeps no executor for two processors but init makes four bins", file="SimTKcommon/src/Parallel2DExecutor.cpp",
         old="    if (numProcessors < 2)\n        executor = 0;", new="    if (numProcessors < 3)\n        executor = 0;", expect="P2D:partition:(int,int):null:pow2"),
    dict(name="diagonal pass dispatched over bins/4 blocks", file="SimTKcommon/src/Parallel2DExecutor.cpp",
         old="    executor->execute(triangle, bins/2);", new="    executor->execute(triangle, bins/4);", expect="pool:pow2"),
    dict(name="worker reads the exit flag after unlocking (pre-fix code)", arm=True, file=_PE,
         old="        finished = executor.isFinished();\n        lock.unlock();", new="        lock.unlock();\n        finished = executor.isFinished();",
         expect="LOCKSET:SimTK::ParallelExecutorImpl::finished@SimTK::threadBody"),
    dict(name="work queue loop condition reads queue state unlocked (pre-fix code)", file=_WQ,
         old="    while (!done) {", new="    while (!done && (!owner.isFinished() || !taskQueue.empty())) {",
         expect="LOCKSET:SimTK::ParallelWorkQueueImpl::"),
    dict(name="barrier count incremented without the mutex", arm=True, file=_PE,
         old="    std::lock_guard<std::mutex> lock(runMutex);\n    getCurrentTask().finish();", new="    getCurrentTask().finish();",
         expect="LOCKSET:SimTK::ParallelExecutorImpl::waitingThreadCount@SimTK::ParallelExecutorImpl::incrementWaitingThreads()"),
    dict(name="finish() called outside the barrier lock", file=_PE,
         old="    std::lock_guard<std::mutex> lock(runMutex);\n    getCurrentTask().finish();", new="    getCurrentTask().finish();\n    std::lock_guard<std::mutex> lock(runMutex);",
         expect="barrier:finish-under-runMutex"),
    dict(name="dispatch unlocks before publishing the task", file=_PE,
         old="    std::unique_lock<std::mutex> lock(runMutex);\n    currentTask = &task;\n    currentTaskCount = times;",
         new="    currentTask = &task;\n    currentTaskCount = times;\n    std::unique_lock<std::mutex> lock(runMutex);",
         expect="LOCKSET:SimTK::ParallelExecutorImpl::currentTask@SimTK::ParallelExecutorImpl::execute"),
    dict(name="worker wakes with notify_one", file=_PE,
         old="    // Wake up the worker threads and wait until they finish.\n    runCondition.notify_all();", new="    // Wake up the worker threads and wait until they finish.\n    runCondition.notify_one();",
         expect="notify_all"),
    dict(name="worker clears running after the barrier", file=_PE,
         old="            info.running = false;\n            executor.incrementWaitingThreads();", new="            executor.incrementWaitingThreads();\n            info.running = false;",
         expect="LOCKSET:SimTK::ThreadInfo::running@SimTK::threadBody(SimTK::ThreadInfo &):published"),
    dict(name="worker initializes per index", file=_PE,
         old="            task.initialize();\n            int index = info.index;\n                        \n            try {\n                while (index < count) {\n                    task.execute(index);",
         new="            int index = info.index;\n                        \n            try {\n                while (index < count) {\n                    task.initialize();\n                    task.execute(index);",
         expect="initialize-once-per-round"),
    dict(name="stride is max threads + 1", file=_PE,
         old="                    index += threadCount;", new="                    index += threadCount + 1;", expect="STRIDE:worker:step"),
    dict(name="worker starts at index+1", file=_PE,
         old="            int index = info.index;", new="            int index = info.index + 1;", expect="STRIDE:worker:start"),
    dict(name="execute returns without waiting", arm=True, file=_PE,
         old="    waitCondition.wait(lock,\n        [&] { return waitingThreadCount == (int)threads.size(); });\n", new="", expect="blocks-until-all-workers-done"),
    dict(name="barrier counts before finish", file=_PE,
         old="    getCurrentTask().finish();\n    waitingThreadCount++;", new="    waitingThreadCount++;\n    getCurrentTask().finish();", expect="barrier:finish<count"),
    dict(name="barrier never notifies", file=_PE,
         old="    if (waitingThreadCount == (int)threads.size()) {\n        waitCondition.notify_one();\n    }", new="", expect="CVPROTO:waitCondition"),
    dict(name="task exception escapes the worker", file=_PE,
         old="            catch (...) {\n                std::cerr <<\"The parallel task threw an error.\"<< std::endl;\n            }\n", new="", expect="execute-in-catch-all"),
    dict(name="inline branch forgets finish", file=_PE,
         old="          task.execute(i);\n      task.finish();\n      return;", new="          task.execute(i);\n      return;", expect="execute:inline"),
    dict(name="work queue: pending count bumped before lock", file=_WQ,
         old="    std::unique_lock<std::mutex> lock(queueMutex);\n    queueFullCondition.wait(lock,\n            [this] { return (int)taskQueue.size() < queueSize; });\n    taskQueue.push(task);\n    ++pendingTasks;",
         new="    ++pendingTasks;\n    std::unique_lock<std::mutex> lock(queueMutex);\n    queueFullCondition.wait(lock,\n            [this] { return (int)taskQueue.size() < queueSize; });\n    taskQueue.push(task);",
         expect="pendingTasks@SimTK::ParallelWorkQueueImpl::addTask"),
    dict(name="work queue: task executed under the lock", file=_WQ,
         old="        queueFullCondition.notify_one();\n        lock.unlock();\n        if (task != NULL) {", new="        queueFullCondition.notify_one();\n        if (task != NULL) {", expect="execute-unlocked"),
    dict(name="work queue: task leaked", file=_WQ,
         old="            task->execute();\n            delete task;", new="            task->execute();", expect="one-execute-one-delete"),
    dict(name="work queue: completion not flagged", arm=True, file=_WQ,
         old="            delete task;\n            decrementTaskCount = true;", new="            delete task;", expect="PAIRCALL:worker:flag"),
    dict(name="work queue: addTask does not wake a worker", file=_WQ,
         old="    ++pendingTasks;\n    waitForTaskCondition.notify_one();", new="    ++pendingTasks;", expect="CVPROTO:waitForTaskCondition"),
    dict(name="work queue: destructor wakes one worker only", file=_WQ,
         old="    finished = true;\n    waitForTaskCondition.notify_all();", new="    finished = true;\n    waitForTaskCondition.notify_one();", expect="notify_all"),
    dict(name="work queue: completion outside the lock after the loop", file=_WQ,
         old="    if (decrementTaskCount) {\n        std::lock_guard<std::mutex> lock(queueMutex);\n        owner.markTaskCompleted();", new="    if (decrementTaskCount) {\n        owner.markTaskCompleted();",
         expect="markTaskCompleted-called-from"),
    dict(name="seeded (sub-agent): the square split loops over (dy,dx) and derives the pass from dy only", file=_2D,
         old="        addSquare(2*x+0, 2*y+1, 2*pass+1, level-1);\n        addSquare(2*x+1, 2*y+2, 2*pass+1, level-1);\n        addSquare(2*x+0, 2*y+2, 2*pass+2, level-1);\n        addSquare(2*x+1, 2*y+1, 2*pass+2, level-1);",
         new="        for (int dy = 0; dy < 2; ++dy)\n            for (int dx = 0; dx < 2; ++dx)\n                addSquare(2*x+dx, 2*y+1+dy, 2*pass+1+dy, level-1);", expect="P2D:split:same-pass"),
    dict(name="2D: two sub-squares of one pass share the row bin", file=_2D,
         old="        addSquare(2*x+1, 2*y+2, 2*pass+1, level-1);", new="        addSquare(2*x+0, 2*y+2, 2*pass+1, level-1);", expect="P2D:split:same-pass"),
    dict(name="2D: every square pass finishes", file=_2D,
         old="false, \n                          i == (int)squares.size()-1);", new="false, \n                          true);", expect="square:finish-only-last"),
    dict(name="2D: triangle pass does not initialize", file=_2D,
         old="    TriangleTask triangle(*this, task, rangeType, 2, true, false);", new="    TriangleTask triangle(*this, task, rangeType, 2, false, false);", expect="triangle:flags"),
    dict(name="2D: square task finishes regardless of flag", file=_2D,
         old="    void finish() override {\n        if (shouldFinish)\n            task.finish();\n    }\nprivate:\n    const Parallel2DExecutorImpl& executor;\n    Parallel2DExecutor::Task& task;\n    const Array_<pair<int,int> >& squares;",
         new="    void finish() override {\n        task.finish();\n    }\nprivate:\n    const Parallel2DExecutorImpl& executor;\n    Parallel2DExecutor::Task& task;\n    const Array_<pair<int,int> >& squares;",
         expect="SquareTask::finish"),
]
