"""C35 -- Collision detection reports exactly the overlapping pairs (structural clauses).

FRAME adjacency in the trackers / collision algorithms, and consistent
handling of the `mustReverse` flag in ContactTrackerSubsystem (the two
trackContact calls are mirror images, the stored surface indices follow the
same flag, and type-id pairs are normalised identically by lookup and query)."""
import re

from ..facts import extract_split, units_matching, Program, AnalysisBroken, sx_find, sx_str
from ..match import ev_write, is_call, call_args, call_obj, field_of, var_of, guard_blocks, branch_edges
from .. import frame
from .c13 import frames

UNITS = r"/SimTKmath/Geometry/src/(ContactTracker|CollisionDetectionAlgorithm|Contact)\.cpp$|/Simbody/src/(ContactTrackerSubsystem|GeneralContactSubsystem)\.cpp$"
HDR = r"/SimTKmath/Geometry/src/.*\.h$|/Simbody/src/.*\.h$"
FRAME_FILES = re.compile(UNITS)
CTS = "SimTK::ContactTrackerSubsystemImpl"
FRAME_EXCEPTIONS = {
    ("SimTK::ContactTracker::HalfSpaceEllipsoid::trackContact", "X_HC"):
        "X_HC is first set to X_HQ (X_HE*X_EQ) and its origin is then shifted from Q to C on the same line (X_HC.updP()[0] -= depth/2)",
    ("SimTK::ContactTracker::HalfSpaceConvexImplicit::trackContact", "X_HC"):
        "same idiom: X_HS*X_SQ then origin shifted to the contact point C",
}


def run(chk, tier, overlays=()):
    units = units_matching(UNITS)
    P = Program(extract_split(units, hdr=HDR, overlays=overlays))
    chk.units += units
    chk.nfunctions += len(P.fns)
    frames(chk, P, FRAME_FILES, FRAME_EXCEPTIONS, floor=25)
    reversal(chk, P)
    traverse(chk, P)
    chk.floor("REVERSE", 8)
    chk.floor("TRAVERSE", 20)
    chk.assumptions += ["overlap tests, depths and tolerance bands are numerical geometry and not decided; of the mesh traversal only the completeness of the descent and the node/box pairing are decided"]


def _sel(a, pname):
    """how argument a selects from tree-node parameter pname: '=' the node itself, 'F' / 'S' its first / second child, None otherwise"""
    if isinstance(a, list) and a[:1] == ["var"] and a[1] == pname:
        return "="
    if isinstance(a, list) and a and a[0] == "call" and isinstance(a[2], list) and a[2][:1] == ["var"] and a[2][1] == pname and not a[3]:
        n = a[1].split("::")[-1]
        return {"getFirstChildNode": "F", "getSecondChildNode": "S"}.get(n)
    return None


def traverse(chk, P):
    chk.rule("TRAVERSE", "bounding-volume-tree descents (functions with OBBTreeNode parameters that call themselves): wherever a node is descended, BOTH children are visited with "
             "otherwise identical arguments (for two trees: the full cross product of the children); and a bounding box passed along with a node is the box of exactly that "
             "node -- `X * <that node>.getBounds()`, or the box parameter unchanged when the node parameter is passed unchanged -- so no subtree pair is pruned with another "
             "subtree's box")
    n = 0
    for f in sorted(P.all_fns(), key=lambda f: f.id):
        ps = f.d.get("params", [])
        nodes = [k for k, p_ in enumerate(ps) if "OBBTreeNode" in p_[1] and "Impl" not in p_[1]]
        if not nodes:
            continue
        selfc = [(b, i, e) for b, i, e in f.calls() if e.get("fid") == f.id]
        if not selfc:
            continue
        n += 1
        short = f.name.replace("SimTK::", "")
        boxes = [k for k, p_ in enumerate(ps) if "OrientedBoundingBox" in p_[1]]
        # ---- both children, full cross product, per block
        byblock = {}
        for b, i, e in selfc:
            byblock.setdefault(b, []).append(e)
        for b, es in sorted(byblock.items()):
            tuples = []
            okshape = True
            for e in es:
                a = call_args(e)
                t = tuple(_sel(a[k], ps[k][0]) for k in nodes)
                if None in t:
                    okshape = False
                tuples.append(t)
            site = "%s:%d" % (f.file, es[0]["line"])
            if not chk.shape(okshape, "TRAVERSE", "%s@%d:node-arguments-select-from-the-parameters" % (short, es[0]["line"] - f.line), site, "node arguments: %s" % tuples):
                continue
            per = [sorted({t[j] for t in tuples}) for j in range(len(nodes))]
            want = set()
            def prod(j, acc):
                if j == len(per):
                    want.add(tuple(acc))
                    return
                for x in (["F", "S"] if set(per[j]) & {"F", "S"} else ["="]):
                    prod(j + 1, acc + [x])
            prod(0, [])
            ordn = sorted(byblock).index(b)
            chk.judge(set(tuples) == want and len(tuples) == len(want), "TRAVERSE", "%s:descent#%d:all-children" % (short, ordn), site,
                      "descended child combinations %s; required %s (each once)" % (sorted(tuples), sorted(want)))
            # other (non-node, non-box) arguments identical across the sibling calls
            rest = {tuple(sx_str(x) for k, x in enumerate(call_args(e)) if k not in nodes and k not in boxes) for e in es}
            chk.judge(len(rest) == 1, "TRAVERSE", "%s:descent#%d:same-other-arguments" % (short, ordn), site, "the sibling calls differ only in the nodes (and their boxes)")
        # ---- box pairing at every call site of f (recursive or not)
        if not boxes:
            continue
        # which node parameter a box parameter belongs to: the one whose argument owns the box at the call sites that derive it
        partner = {}
        for bk in boxes:
            votes = {}
            for g in P.all_fns():
                for b, i, e in g.calls():
                    if e.get("fid") != f.id:
                        continue
                    a = call_args(e)
                    gb = sx_find(_expand_here(g, a[bk], e), lambda y: y[0] == "call" and y[1].split("::")[-1] == "getBounds")
                    if len(gb) == 1:
                        for k in nodes:
                            if _expand_here(g, a[k], e) == gb[0][2]:
                                votes[k] = votes.get(k, 0) + 1
            if votes:
                partner[bk] = max(sorted(votes), key=lambda k: votes[k])
        for g in sorted(P.all_fns(), key=lambda g: g.id):
            sites = [(b, i, e) for b, i, e in g.calls() if e.get("fid") == f.id]
            for b, i, e in sites:
                a = call_args(e)
                for bk in boxes:
                    src = a[bk]
                    site = "%s:%d" % (g.file, e["line"])
                    cnt = sum(1 for _b, _i, _e in sites if _e["line"] <= e["line"])
                    inst = "%s<-%s#%d:box" % (short, g.name.split("::")[-1], cnt)
                    if g is f and isinstance(src, list) and src[:1] == ["var"] and src[1] == ps[bk][0]:
                        # own box handed on: the node it belongs to must be handed on unchanged too
                        pk = partner.get(bk)
                        okp = pk is not None and _sel(a[pk], ps[pk][0]) == "="
                        chk.judge(okp, "TRAVERSE", inst + ":unchanged-with-its-node", site,
                                  "the box parameter %s is passed on unchanged but the node it belongs to (%s) is not: %s" % (ps[bk][0], ps[pk][0] if pk is not None else "?", sx_str(a[pk]) if pk is not None else ""))
                        continue
                    x = _expand_here(g, src, e)
                    gb = sx_find(x, lambda y: y[0] == "call" and y[1].split("::")[-1] == "getBounds")
                    if not chk.shape(len(gb) == 1, "TRAVERSE", inst + ":is-a-getBounds-expression", site, "box argument %s" % sx_str(x)[:120]):
                        continue
                    owner = gb[0][2]
                    match = [k for k in nodes if _expand_here(g, a[k], e) == owner and k == partner.get(bk, k)]
                    chk.judge(len(match) == 1, "TRAVERSE", inst + ":belongs-to-a-passed-node", site,
                              "the box passed is that of %s, but the nodes passed are %s: the callee prunes this subtree pair with another subtree's box" % (sx_str(owner), [sx_str(a[k]) for k in nodes]))
    chk.shape(n >= 4, "TRAVERSE", "tree-descents-found", "", "%d recursive functions with OBBTreeNode parameters" % n)


def _expand_here(f, x, at_ev, depth=3):
    """x with each never-reassigned local replaced by the initialiser of the declaration of that name that reaches at_ev"""
    if not isinstance(x, list) or depth <= 0:
        return x
    if len(x) == 2 and x[0] == "var":
        ds = [(b, i, d) for b, i, d in f.events(lambda q: q["k"] == "decl" and q["var"] == x[1] and q.get("init") is not None)]
        if not ds or any(True for _ in f.events(lambda q: q["k"] == "assign" and var_of(q["lhs"]) == x[1] and q["lhs"][0] == "var")):
            return x
        live = [d for b, i, d in ds if f.path_exists((b, i), lambda q: q is at_ev, lambda q: any(q is o[2] for o in ds if o[2] is not d), lift=0) is not None]
        if len(live) == 1:
            init = live[0]["init"]
            if isinstance(init, list) and init[:1] == ["ctor"] and len(init[2]) == 1:
                init = init[2][0]
            return _expand_here(f, init, at_ev, depth - 1)
        return x
    return [_expand_here(f, y, at_ev, depth) for y in x]


def reversal(chk, P):
    chk.rule("REVERSE", "ContactTrackerSubsystem: when a tracker is registered for the type-id pair in the other order (mustReverse) the subsystem swaps (transform, geometry) of the "
             "two surfaces in the trackContact call and swaps the surface indices stored in the Contact with the same flag; registration, hasContactTracker and getContactTracker "
             "normalise the type-id pair to (low, high) the same way")
    fs = [f for f in P.all_fns() if f.name.endswith("ensureActiveContactsUpdated") and "ContactTrackerSubsystem" in f.name]
    chk.require(len(fs) == 1, "ensureActiveContactsUpdated not found")
    f = fs[0]
    calls = [(b, i, e) for b, i, e in f.calls() if str(e.get("fn", "")).endswith("::trackContact")]
    chk.shape(len(calls) == 2, "REVERSE", "two-trackContact-calls", f.loc, "one call per orientation (found %d)" % len(calls))
    if len(calls) == 2:
        (b1, _, e1), (b2, _, e2) = calls
        a1, a2 = [sx_str(x) for x in call_args(e1)], [sx_str(x) for x in call_args(e2)]
        # mirror: args 1,2 <-> 3,4
        mirror = a1[0] == a2[0] and a1[1] == a2[3] and a1[2] == a2[4] and a1[3] == a2[1] and a1[4] == a2[2] and a1[5:] == a2[5:]
        chk.judge(mirror, "REVERSE", "calls-are-mirror-images", "%s:%d" % (f.file, e1["line"]), "the two calls pass (transform, geometry) of the two surfaces in swapped order: %s vs %s" % (a1[1:5], a2[1:5]))
        # each (transform, geometry) pair belongs to one surface: same trailing digit
        for a in (a1, a2):
            chk.judge(re.sub(r"\D", "", a[1]) == re.sub(r"\D", "", a[2]) and re.sub(r"\D", "", a[3]) == re.sub(r"\D", "", a[4]) and re.sub(r"\D", "", a[1]) != re.sub(r"\D", "", a[3]),
                      "REVERSE", "transform-geometry-pairing:%s" % a[1], f.loc, "transform and geometry passed together belong to the same surface: %s" % a[1:5])
        # which one is under mustReverse
        # the reversal flag is the bool handed to getContactTracker as its out-argument (identified by that role, not by its name)
        gct = [e for _, _, e in f.calls() if str(e.get("fn", "")).endswith("::getContactTracker") and len(call_args(e)) >= 3]
        bools = {d["var"] for _, _, d in f.events(lambda d: d["k"] == "decl" and d["ty"] == "bool")}
        flag = sorted({var_of(call_args(e)[2]) for e in gct if var_of(call_args(e)[2]) in bools})
        chk.shape(len(flag) == 1, "REVERSE", "flag-variable", f.loc, "reversal flag variable found")
        if flag:
            tr = guard_blocks(f, lambda c: c == ["var", flag[0]], 0)
            fl = guard_blocks(f, lambda c: c == ["var", flag[0]], 1)
            rev = [(b, e) for b, e in ((b1, e1), (b2, e2)) if b in tr]
            fwd = [(b, e) for b, e in ((b1, e1), (b2, e2)) if b in fl]
            chk.judge(len(rev) == 1 and len(fwd) == 1, "REVERSE", "one-call-per-branch", f.loc, "one call under mustReverse, the other under !mustReverse")
            if rev and fwd:
                ra = [sx_str(x) for x in call_args(rev[0][1])]
                chk.judge(re.sub(r"\D", "", ra[1]) == "2", "REVERSE", "reversed-call-passes-surface-2-first", f.loc, "under mustReverse surface 2's (transform, geometry) come first")
            # stored indices follow the same flag
            # the tracker-order surface indices are the two arguments of Contact::setSurfaces (identified by that role)
            ss = [e for _, _, e in f.calls() if str(e.get("fn", "")).endswith("::setSurfaces")]
            tsn = [var_of(x) for x in call_args(ss[0])] if len(ss) == 1 else []
            ts = {d["var"]: d["init"] for _, _, d in f.events(lambda d: d["k"] == "decl" and d["var"] in tsn)}
            ok = len(ts) == 2 and len(tsn) == 2 and tsn[0] != tsn[1]
            for nm, want_true in zip(tsn, ("2", "1")):
                x = ts.get(nm)
                ok = ok and isinstance(x, list) and x[0] == "cond" and x[1] == ["var", flag[0]] and re.sub(r"\D", "", sx_str(x[2])) == want_true and \
                    re.sub(r"\D", "", sx_str(x[3])) == ("1" if want_true == "2" else "2")
            chk.judge(ok, "REVERSE", "stored-surface-indices-follow-flag", f.loc, "setSurfaces(a, b) with a = mustReverse ? index2 : index1 and b = mustReverse ? index1 : index2")
            chk.judge(len(ss) == 1 and len(ts) == 2, "REVERSE", "contact-gets-tracker-order-surfaces", f.loc,
                      "the resulting Contact stores the surfaces in the tracker's order")
    # normalisation of the type-id pair
    for nm in ("hasContactTracker", "getContactTracker"):
        gs = [g for g in P.all_fns() if g.name.endswith("::" + nm) and "ContactTrackerSubsystemImpl" in g.name]
        chk.require(bool(gs), nm + " not found")
        for g in gs:
            p1, p2 = g.d["params"][0][0], g.d["params"][1][0]
            sw = [e for _, _, e in g.calls() if str(e.get("fn", "")).endswith("swap") and sorted(var_of(x) or "" for x in call_args(e)) == sorted([p1, p2])]
            gb = guard_blocks(g, lambda c: c[0] in ("op", "opc") and c[1] == ">" and var_of(c[2]) == p1 and var_of(c[3]) == p2, 0)
            swb = [b for b, _, e in g.calls() if e in sw]
            chk.judge(len(sw) == 1 and bool(swb) and (swb[0] in gb or _init_then_guard(g, p1, p2)), "REVERSE", nm + ":normalises-(low,high)", g.loc,
                      "ids are swapped exactly when id1 > id2 before the map lookup")
            mk = [e for _, _, e in g.calls() if str(e.get("fn", "")).endswith("make_pair")]
            chk.judge(bool(mk) and all([var_of(x) for x in call_args(e)] == [p1, p2] for e in mk), "REVERSE", nm + ":lookup-key=(id1,id2)", g.loc, "lookup key is (id1,id2) after normalisation")
    ad = [g for g in P.all_fns() if g.name.endswith("::adoptContactTracker") and "Impl" in g.name]
    for g in ad:
        mk = [e for _, _, e in g.calls() if str(e.get("fn", "")).endswith("make_pair")]
        chk.judge(bool(mk), "REVERSE", "adoptContactTracker:registers-pair", g.loc, "tracker registered under a (low,high) type-id pair")


def _init_then_guard(g, p1, p2):
    # `const bool inputSwapped = id1 > id2; if (inputSwapped) swap(...)`
    d = [dd for _, _, dd in g.events(lambda dd: dd["k"] == "decl" and dd["init"] is not None and isinstance(dd["init"], list) and dd["init"][0] in ("op", "opc") and dd["init"][1] == ">" and
                                     var_of(dd["init"][2]) == p1 and var_of(dd["init"][3]) == p2)]
    if not d:
        return False
    gb = guard_blocks(g, lambda c: c == ["var", d[0]["var"]], 0)
    return any(b in gb for b, _, e in g.calls() if str(e.get("fn", "")).endswith("swap"))


_S = "Simbody/src/ContactTrackerSubsystem.cpp"
_T = "SimTKmath/Geometry/src/ContactTracker.cpp"
_T = "SimTKmath/Geometry/src/ContactTracker.cpp"
_A = "SimTKmath/Geometry/src/CollisionDetectionAlgorithm.cpp"
MUTATIONS = [
    dict(name="seeded (sub-agent): (second child, first child) pair pruned with the second child's box", arm=True, file=_T,
         old="findIntersectingFaces(mesh1, mesh2, node1.getSecondChildNode(), node2.getFirstChildNode(), firstChildBounds, X_M1M2, triangles1, triangles2);",
         new="findIntersectingFaces(mesh1, mesh2, node1.getSecondChildNode(), node2.getFirstChildNode(), secondChildBounds, X_M1M2, triangles1, triangles2);",
         expect="findIntersectingFaces<-findIntersectingFaces#3:box:belongs-to-a-passed-node"),
    dict(name="sphere/mesh descent visits the first child twice", file=_T,
         old="        processBox(mesh, node.getSecondChildNode(), center_M, radius2,", new="        processBox(mesh, node.getFirstChildNode(), center_M, radius2,", expect="SphereTriangleMesh::processBox:descent#0:all-children"),
    dict(name="old mesh/mesh algorithm skips the (second, second) pair", file=_A,
         old="            processNodes(mesh1, mesh2, node1.getSecondChildNode(), node2.getSecondChildNode(), secondChildBounds, X_M1M2, triangles1, triangles2);\n", new="",
         expect="processNodes:descent#"),
    dict(name="leaf-vs-inner descent hands the parent's box to the children", file=_T,
         old="        findIntersectingFaces(mesh1, mesh2, node1, node2.getFirstChildNode(), firstChildBounds, X_M1M2, triangles1, triangles2);",
         new="        findIntersectingFaces(mesh1, mesh2, node1, node2.getFirstChildNode(), node2Bounds_M1, X_M1M2, triangles1, triangles2);", expect="box:unchanged-with-its-node"),
    dict(name="relative transform computed without the inverse", arm=True, file=_T,
         old="    const Transform X_HB = ~X_GH * X_GB; // 63 flops", new="    const Transform X_HB = X_GH * X_GB; // 63 flops", expect="FRAME:"),
    dict(name="mesh/mesh relative transform uses the wrong mesh", file=_T,
         old="    const Transform X_M1M2 = ~X_GM1*X_GM2; ", new="    const Transform X_M1M2 = ~X_GM2*X_GM1; ", expect="FRAME:"),
    dict(name="reversed trackers get the geometries un-swapped", arm=True, file=_S,
         old="                   (*prev, transform2,geom2, transform1,geom1, 0/*TODO*/, next);", new="                   (*prev, transform2,geom1, transform1,geom2, 0/*TODO*/, next);",
         expect="REVERSE:"),
    dict(name="stored surface order ignores mustReverse", file=_S,
         old="            const ContactSurfaceIndex trackSurf2 = (mustReverse? index1:index2);", new="            const ContactSurfaceIndex trackSurf2 = index2;", expect="REVERSE:stored-surface-indices-follow-flag"),
    dict(name="hasContactTracker forgets to normalise", file=_S,
         old="{   if (id1 > id2) std::swap(id1,id2); // (low,high) order for lookup\n    return m_contactTrackers.find", new="{   return m_contactTrackers.find", expect="REVERSE:hasContactTracker"),
]
