"""C36 -- Mesh queries match brute force and bounding volumes contain (tree-bookkeeping clauses only).

That an OrientedBoundingBox built from points contains them, that a bounding sphere contains its points, and the geometry of the
point/triangle and ray/triangle tests are numerical and NOT decided; nor is the soundness of the distance-based pruning in the tree
descents.  What the statement needs from the shape of ContactGeometry_TriangleMesh.cpp, and what is decided here for every mesh:
 TREE       the root is built over all faces; each node's box is built from every corner of every face handed to that node (so 'contains
            its triangles' reduces to 'a box contains the points it was built from'); a node either hands its two face lists to its two
            children (list k to child k) or stores ALL its faces as a leaf -- on every path.
 PARTITION  splitObbAxis puts every face of the parent into exactly one of the two lists (one push on every iteration path, of that
            iteration's face), so the leaves partition the faces: a brute-force scan and a complete descent see the same faces.
 LEAF       both query routines scan every triangle of a leaf, and the candidate that is kept is written together with its face and
            coordinates from the same triangle.
 MERGE      an interior node returns distance, face, coordinates and point that all come from the SAME child's answer."""
import re
from ..facts import extract, units_matching, Program, sx_find, sx_str
from ..match import call_args, call_obj, var_of, field_of, ev_write, known_edges, only_via, expand_locals
from ..columns import _loop_var, _steps, _lit, _iter_bypass, range_for

UNITS = r"SimTKmath/Geometry/src/ContactGeometry_TriangleMesh\.cpp$"
IMPL = "SimTK::ContactGeometry::TriangleMesh::Impl"
NODE = "SimTK::OBBTreeNodeImpl"


def _strip(x):
    while isinstance(x, list) and x and x[0] in ("cast", "conv", "paren"):
        x = x[2] if x[0] == "cast" else x[1]
    return x


def _whole(f, h, is_bound):
    """index loop from 0 with `<` a bound accepted by is_bound, stepped by ++ only; or a range-for over something accepted by is_bound.
    Returns ('idx', loop variable) / ('elem', element variable) or None"""
    rf = range_for(f, h)
    if rf is not None:
        return ("elem", rf[1]) if is_bound(rf[0]) else None
    iv, c = _loop_var(f, h)
    if not iv or not isinstance(c, list) or c[1] != "<" or not is_bound(expand_locals(f, c[3])):
        return None
    ds = sorted([d for _, _, d in f.events(lambda q: q["k"] == "decl" and q["var"] == iv) if d["line"] <= f.blocks[h]["term"]["line"]], key=lambda d: d["line"])[-1:]
    if not ds or not _lit(ds[0].get("init"), ("0",)) or _steps(f, f.loops()[h], iv) != ["++"]:
        return None
    return ("idx", iv)


def _size_of(name_pred):
    return lambda x: bool(sx_find(x, lambda y: y[0] == "call" and str(y[1]).endswith("::size") and name_pred(y[2]))) or name_pred(_strip(x))


def tree(chk, P):
    chk.rule("TREE", "root over all faces; a node's box from every corner of every face it was handed; list k to child k; on every path either both children are built or all "
             "the node's faces are stored in the leaf")
    ctor = [m for m in P.methods_of(IMPL) if any(True for _ in m.calls(IMPL + "::createObbTree")) and not m.name.endswith("::createObbTree")]
    if chk.shape(len(ctor) >= 1, "TREE", "root:builder", "", "%d callers of createObbTree outside itself" % len(ctor)):
        f = ctor[0]
        cs = [(b, i, e) for b, i, e in f.calls(IMPL + "::createObbTree")]
        lst = var_of(_strip(call_args(cs[0][2])[1]))
        loops = f.loops()
        ok = False
        for h, body in loops.items():
            w = _whole(f, h, _size_of(lambda y: field_of(y) == IMPL + "::faces" or _strip(y) == ["var", lst]))
            if not w or w[0] != "idx":
                continue
            for b in body:
                for q in f.blocks[b]["ev"]:
                    ww = ev_write(q)
                    if ww and ww[1] == "=" and isinstance(ww[0], list) and ww[0][0] in ("opc", "idx") and var_of(ww[0][2] if ww[0][0] == "opc" else ww[0][1]) == lst and \
                            _strip(ww[0][-1]) == ["var", w[1]] and _strip(ww[2]) == ["var", w[1]]:
                        ok = True
        if not ok:
            # `int next = 0; for (int& e : list) e = next++;` -- a range-for visits the elements in order, so element k receives k
            for h, body in loops.items():
                rf = range_for(f, h)
                if rf is None or _strip(rf[0]) != ["var", lst]:
                    continue
                for b in body:
                    for q in f.blocks[b]["ev"]:
                        if q["k"] == "assign" and q["lhs"] == ["var", rf[1]] and q["op"] == "=" and isinstance(q.get("rhs"), list) and _strip(q["rhs"])[:2] == ["un", "post++"]:
                            cv = var_of(_strip(q["rhs"])[2])
                            cd = [dd for _, _, dd in f.events(lambda dd: dd["k"] == "decl" and dd["var"] == cv)]
                            others = [w for _, _, w in f.events(lambda w: w["k"] == "assign" and w["lhs"] == ["var", cv] and w["op"] != "++")]
                            incs = [w for _, _, w in f.events(lambda w: w["k"] == "assign" and w["lhs"] == ["var", cv] and w["op"] == "++")]
                            ok = len(cd) == 1 and _lit(cd[0].get("init"), ("0",)) and not others and len(incs) == 1
        d = [dd for _, _, dd in f.events(lambda dd: dd["k"] == "decl" and dd["var"] == lst)]
        sized = len(d) == 1 and bool(sx_find(d[0].get("init"), lambda y: y[0] == "call" and str(y[1]).endswith("::size") and field_of(y[2]) == IMPL + "::faces"))
        chk.judge(ok and sized and field_of(_strip(call_args(cs[0][2])[0])) == IMPL + "::obb", "TREE", "root:over-all-faces", "%s:%d" % (f.file, cs[0][2]["line"]),
                  "%s has faces.size() entries, %s[i] = i for every i, createObbTree(obb, %s)" % (lst, lst, lst))
    f = P.fn(IMPL + "::createObbTree")
    nodev, facesv = f.d["params"][0][0], f.d["params"][1][0]
    loops = f.loops()
    is_faces = _size_of(lambda y: _strip(y) == ["var", facesv])
    # box: every corner of every face
    ins = [(b, i, e) for b, i, e in f.calls() if str(e.get("fn", "")).endswith("::insert") and str(e.get("objty", "")).startswith("std::set")]
    okc = False
    setv = None
    for b, i, e in ins:
        a = _strip(call_args(e)[0])
        hs = f.loops_of(b)
        outer = [(h, _whole(f, h, is_faces)) for h in hs if _whole(f, h, is_faces)]
        inner = [(h, _whole(f, h, lambda x: _lit(x, ("3",)))) for h in hs if _whole(f, h, lambda x: _lit(x, ("3",)))]
        if not outer or not inner:
            continue
        (ho, (ko, vo)), (hi, (ki, vi)) = outer[0], inner[0]
        # faces[faceIndices[i]].vertices[j]  (or faces[elem].vertices[j] for a range-for)
        face_sel = (lambda y: y[0] in ("opc", "idx") and var_of(y[2] if y[0] == "opc" else y[1]) == facesv and _strip(y[-1]) == ["var", vo]) if ko == "idx" else (lambda y: y == ["var", vo])
        corner = isinstance(a, list) and a[0] in ("idx", "opc") and _strip(a[-1]) == ["var", vi] and bool(sx_find(a, lambda y: y[0] == "mem" and y[2].endswith("::vertices"))) and \
            bool(sx_find(a, lambda y: y[0] == "mem" and y[2] == IMPL + "::faces")) and bool(sx_find(a, face_sel))
        if corner and _iter_bypass(f, hi, loops[hi], (hi, len(f.blocks[hi]["ev"]) - 1), [e]) is None:
            okc = True
            setv = var_of(call_obj(e))
    chk.judge(okc, "TREE", "box:every-corner-of-every-face-collected", f.loc, "vertexIndices.insert(faces[faceIndices[i]].vertices[j]) for all i, j = 0..2")
    # every collected vertex becomes a point
    okp = False
    ptsv = None
    for h, body in loops.items():
        rf = range_for(f, h)
        t = f.blocks[h].get("term", {})
        c = t.get("cond")
        it = None
        if rf is not None and _strip(rf[0]) == ["var", setv]:
            it = ("elem", rf[1])
        elif isinstance(c, list) and c[:2] == ["opc", "!="] and isinstance(c[3], list) and c[3][:1] == ["call"] and str(c[3][1]).endswith("::end") and var_of(c[3][2]) == setv:
            itv = var_of(c[2])
            ds = [d for _, _, d in f.events(lambda q: q["k"] == "decl" and q["var"] == itv)]
            begins = len(ds) == 1 and isinstance(ds[0].get("init"), list) and bool(sx_find(ds[0]["init"], lambda y: y[0] == "call" and str(y[1]).endswith("::begin") and var_of(y[2]) == setv))
            steps = [q for b in body for q in f.blocks[b]["ev"] if q["k"] == "call" and q.get("op") in ("++",) and _strip(q["x"][2]) == ["var", itv]]
            if begins and len(steps) == 1:
                it = ("iter", itv)
        if it is None:
            continue
        for b in body:
            for q in f.blocks[b]["ev"]:
                ww = ev_write(q)
                if not (ww and ww[1] == "=" and isinstance(ww[0], list) and ww[0][0] in ("opc", "idx")):
                    continue
                src = ww[2]
                cur = (lambda y: y == ["opc", "*", ["var", it[1]]]) if it[0] == "iter" else (lambda y: y == ["var", it[1]])
                frompos = bool(sx_find(src, lambda y: y[0] == "mem" and y[2].endswith("::pos"))) and bool(sx_find(src, lambda y: y[0] == "mem" and y[2] == IMPL + "::vertices")) and bool(sx_find(src, cur))
                if frompos and _iter_bypass(f, h, body, (h, len(f.blocks[h]["ev"]) - 1), [q]) is None:
                    okp = True
                    ptsv = var_of(ww[0][2] if ww[0][0] == "opc" else ww[0][1])
    d = [dd for _, _, dd in f.events(lambda dd: dd["k"] == "decl" and dd["var"] == ptsv)]
    sized = len(d) == 1 and bool(sx_find(d[0].get("init"), lambda y: y[0] == "call" and str(y[1]).endswith("::size") and var_of(y[2]) == setv))
    chk.judge(okp and sized, "TREE", "box:every-collected-vertex-becomes-a-point", f.loc, "points has vertexIndices.size() entries, one per collected vertex, = vertices[v].pos")
    # bounds = OrientedBoundingBox(points), on every path to the exit
    bw = [(b, i, q) for b, i, q in f.events(lambda q: bool(ev_write(q)) and field_of(ev_write(q)[0]) == NODE + "::bounds" and var_of(ev_write(q)[0][1]) == nodev)]
    okb = len(bw) == 1 and bool(sx_find(ev_write(bw[0][2])[2], lambda y: y[0] == "ctor" and str(y[1]).endswith("OrientedBoundingBox") and [_strip(z) for z in y[2]] == [["var", ptsv]]))
    p = f.path_exists(None, "exit", lambda q: any(q is x[2] for x in bw), lift=0)
    chk.judge(okb and p is None, "TREE", "box:built-from-those-points-on-every-path", f.loc, "node.bounds = OrientedBoundingBox(%s)" % ptsv, p)
    # children
    sp = [(b, i, e) for b, i, e in f.calls(IMPL + "::splitObbAxis")]
    rec = [(b, i, e) for b, i, e in f.calls(IMPL + "::createObbTree")]
    leaf = [(b, i, e) for b, i, e in f.calls() if str(e.get("fn", "")).endswith("::insert") and field_of(call_obj(e)) == NODE + "::triangles"]
    if chk.shape(len(sp) == 1 and len(rec) == 2 and len(leaf) == 1, "TREE", "children:sites", f.loc, "%d split, %d recursive, %d leaf-store sites" % (len(sp), len(rec), len(leaf))):
        sa = call_args(sp[0][2])
        chk.judge(_strip(sa[0]) == ["var", facesv], "TREE", "children:split-of-this-node's-faces", f.loc, "splitObbAxis(%s, ..)" % sx_str(sa[0]))
        lists = {1: var_of(_strip(sa[1])), 2: var_of(_strip(sa[2]))}
        got = {}
        for b, i, e in rec:
            a = call_args(e)
            ch = sx_find(a[0], lambda y: y[0] == "mem" and y[2] in (NODE + "::child1", NODE + "::child2"))
            if ch:
                got[int(ch[0][2][-1])] = var_of(_strip(a[1]))
        chk.judge(got == lists and lists[1] != lists[2], "TREE", "children:list-k-goes-to-child-k", f.loc, "split outputs %s; recursions %s" % (lists, got))
        # the two lists are fresh for every split attempt
        fresh = all(any(d["var"] == v and isinstance(d.get("init"), list) and d["init"][:1] == ["ctor"] and not d["init"][2] for _, _, d in f.events(lambda q: q["k"] == "decl")) for v in lists.values())
        inloop = all(any(db in body and sp[0][0] in body for body in [f.loops().get(h, set()) for h in f.loops_of(sp[0][0])]) for db, _, d in f.events(lambda q: q["k"] == "decl" and q["var"] in lists.values()))
        chk.judge(fresh and inloop, "TREE", "children:lists-start-empty-for-every-split-attempt", f.loc, "")
        # leaf stores all faces
        la = call_args(leaf[0][2])
        is_call = lambda x, nm: isinstance(_strip(x), list) and _strip(x)[:1] == ["call"] and str(_strip(x)[1]).endswith("::" + nm) and var_of(_strip(x)[2]) == facesv
        okl = len(la) == 3 and is_call(la[1], "begin") and is_call(la[2], "end")
        chk.judge(okl, "TREE", "leaf:stores-all-the-node's-faces", "%s:%d" % (f.file, leaf[0][2]["line"]), "triangles.insert(.., %s.begin(), %s.end())" % (facesv, facesv))
        # on every path: both recursions, or the leaf store
        p1 = f.path_exists(None, "exit", lambda q: q is leaf[0][2] or q is rec[0][2], lift=0)
        p2 = f.path_exists(None, "exit", lambda q: q is leaf[0][2] or q is rec[1][2], lift=0)
        chk.judge(p1 is None and p2 is None, "TREE", "every-path:both-children-or-leaf", f.loc, "a path to the exit builds neither both children nor the leaf", p1 or p2)
        # children exist when recursed into
        news = {int(field_of(q["lhs"])[-1]) for _, _, q in f.events(lambda q: q["k"] == "assign" and field_of(q.get("lhs")) in (NODE + "::child1", NODE + "::child2") and
                                                                       isinstance(q.get("rhs"), list) and q["rhs"][:1] == ["new"])}
        chk.judge(news == {1, 2}, "TREE", "children:both-allocated", f.loc, "")
    chk.floor("TREE", 10)


def partition(chk, P):
    chk.rule("PARTITION", "splitObbAxis assigns every face of the parent to exactly one of the two child lists")
    f = P.fn(IMPL + "::splitObbAxis")
    parent, c1, c2 = f.d["params"][0][0], f.d["params"][1][0], f.d["params"][2][0]
    pushes = [(b, i, e) for b, i, e in f.calls() if str(e.get("fn", "")).endswith("::push_back") and var_of(call_obj(e)) in (c1, c2)]
    if not chk.shape(len(pushes) >= 2, "PARTITION", "pushes", f.loc, "%d" % len(pushes)):
        return
    loops = f.loops()
    hs = {h for b, _, _ in pushes for h in f.loops_of(b)}
    if not chk.shape(len(hs) == 1, "PARTITION", "one-assignment-loop", f.loc, "%d" % len(hs)):
        return
    h = next(iter(hs))
    w = _whole(f, h, _size_of(lambda y: _strip(y) == ["var", parent]))
    chk.judge(w is not None, "PARTITION", "every-face-of-the-parent-visited", f.loc, "loop over %s" % parent)
    if w is None:
        return
    cur = (lambda x: isinstance(_strip(x), list) and _strip(x)[0] in ("opc", "idx") and var_of(_strip(x)[2] if _strip(x)[0] == "opc" else _strip(x)[1]) == parent and _strip(_strip(x)[-1]) == ["var", w[1]]) \
        if w[0] == "idx" else (lambda x: _strip(x) == ["var", w[1]])
    chk.judge(all(cur(call_args(e)[0]) or cur(expand_locals(f, call_args(e)[0])) for _, _, e in pushes), "PARTITION", "the-face-pushed-is-this-iteration's-face", f.loc, "%s" % sorted({sx_str(call_args(e)[0]) for _, _, e in pushes}))
    # at least one push on every iteration path
    byp = _iter_bypass(f, h, loops[h], (h, len(f.blocks[h]["ev"]) - 1), [e for _, _, e in pushes])
    chk.judge(byp is None, "PARTITION", "every-face-goes-somewhere", f.loc, "an iteration can end without a push", byp)
    # at most one: no push reachable from another push within the iteration
    twice = None
    for b, i, e in pushes:
        p = _iter_reaches(f, h, loops[h], (b, i), [x[2] for x in pushes if x[2] is not e])
        twice = twice or p
    chk.judge(twice is None, "PARTITION", "no-face-goes-twice", f.loc, "two pushes on one iteration path", twice)
    both = {var_of(call_obj(e)) for _, _, e in pushes}
    chk.judge(both == {c1, c2}, "PARTITION", "both-lists-are-targets", f.loc, "%s" % sorted(both))
    chk.floor("PARTITION", 5)


def _iter_reaches(f, h, body, start, targets):
    """a path inside one iteration (not through the header) from just after `start` to an event of targets"""
    b0, i0 = start
    for e in f.blocks[b0]["ev"][i0 + 1:]:
        if any(e is t for t in targets):
            return [b0]
    infeas = f.infeasible_edges()
    seen, st = set(), [(s, (b0, s)) for s in f.succs(b0) if (b0, s) not in infeas]
    while st:
        b, path = st.pop()
        if b == h or b in seen or b not in body:
            continue
        seen.add(b)
        if any(any(e is t for t in targets) for e in f.blocks[b]["ev"]):
            return list(path)
        for s in f.succs(b):
            if (b, s) not in infeas:
                st.append((s, path + (s,)))
    return None


def queries(chk, P):
    chk.rule("LEAF", "a leaf's scan visits every triangle of the leaf, and a kept candidate's distance, face and coordinates are written together from that triangle")
    chk.rule("MERGE", "what an interior node returns (distance, face, coordinates, point) comes from one and the same child's answer")
    for meth in ("findNearestPoint", "intersectsRay"):
        f = P.fn(NODE + "::" + meth)
        ps = [p_[0] for p_ in f.d["params"]]
        loops = f.loops()
        tri = lambda y: field_of(y) == NODE + "::triangles"
        hs = [(h, _whole(f, h, _size_of(tri))) for h in loops if _whole(f, h, _size_of(tri))]
        if not chk.shape(len(hs) == 1, "LEAF", meth + ":leaf-loop", f.loc, "%d loops over triangles" % len(hs)):
            continue
        h, (kind, iv) = hs[0]
        body = loops[h]
        cur = (lambda x: isinstance(_strip(x), list) and _strip(x)[0] in ("opc", "idx") and field_of(_strip(x)[2] if _strip(x)[0] == "opc" else _strip(x)[1]) == NODE + "::triangles" and
               _strip(_strip(x)[-1]) == ["var", iv]) if kind == "idx" else (lambda x: _strip(x) == ["var", iv])
        chk.ok("LEAF", meth + ":every-triangle-of-the-leaf", f.loc, "loop %s over triangles" % iv)
        # the leaf loop is reached only where the node has no children
        nochild = known_edges(f, lambda c: (isinstance(c, list) and len(c) == 4 and c[1] == "==" and field_of(_strip(c[2])) == NODE + "::child1") or (isinstance(c, list) and c[:2] == ["un", "!"] and field_of(_strip(c[2])) == NODE + "::child1"),
                              lambda c: (isinstance(c, list) and len(c) == 4 and c[1] == "!=" and field_of(_strip(c[2])) == NODE + "::child1") or field_of(_strip(c)) == NODE + "::child1")
        haschild = known_edges(f, lambda c: (isinstance(c, list) and len(c) == 4 and c[1] == "!=" and field_of(_strip(c[2])) == NODE + "::child1") or field_of(_strip(c)) == NODE + "::child1",
                               lambda c: (isinstance(c, list) and len(c) == 4 and c[1] == "==" and field_of(_strip(c[2])) == NODE + "::child1") or (isinstance(c, list) and c[:2] == ["un", "!"] and field_of(_strip(c[2])) == NODE + "::child1"))
        # the face output written in the loop is this iteration's triangle, and it is written in the block that writes the distance output
        outs = [p_[0] for p_ in f.d["params"] if p_[1].rstrip().endswith("&") and not p_[1].startswith("const")]
        facev = [p_[0] for p_ in f.d["params"] if p_[1].replace(" ", "") == "int&"]
        distv = [p_[0] for p_ in f.d["params"] if re.match(r"(SimTK::)?Real ?&$", p_[1])]
        if chk.shape(len(facev) == 1 and len(distv) == 1, "LEAF", meth + ":outputs", f.loc, "face %s, distance %s" % (facev, distv)):
            fw = [(b, q) for b in body for q in f.blocks[b]["ev"] if q["k"] == "assign" and q["lhs"] == ["var", facev[0]]]
            dw = [(b, q) for b in body for q in f.blocks[b]["ev"] if q["k"] == "assign" and q["lhs"] == ["var", distv[0]]]
            okf = len(fw) == 1 and cur(fw[0][1]["rhs"])
            chk.judge(okf, "LEAF", meth + ":face=this-triangle", f.loc, "%s" % [sx_str(q["rhs"]) for _, q in fw])
            chk.judge(len(fw) == 1 and len(dw) == 1 and fw[0][0] == dw[0][0], "LEAF", meth + ":distance-and-face-written-together", f.loc, "")
            uvw = [(b, q) for b in body for q in f.blocks[b]["ev"] if ev_write(q) and ev_write(q)[0][:1] == ["var"] and ev_write(q)[0][1] in outs and ev_write(q)[0][1] not in (facev[0], distv[0])]
            chk.judge(bool(uvw) and all(b == fw[0][0] for b, _ in uvw) if fw else False, "LEAF", meth + ":coordinates-written-with-them", f.loc, "")
        # MERGE: in every return block of the interior region, the outputs come from one child
        rec = [(b, i, e) for b, i, e in f.calls() if e.get("fid") == f.id]
        for g_ in P.all_fns():      # a child's search extracted into a local lambda (captures by reference: same variables)
            if g_.d.get("parent") == f.id and g_.blocks:
                rec += [(b, i, e) for b, i, e in g_.calls() if e.get("fid") == f.id]
        lam_assigns = [q for g_ in P.all_fns() if g_.d.get("parent") == f.id and g_.blocks for _, _, q in g_.events(lambda q: q["k"] == "assign")]
        prov = {}
        for b, i, e in rec:
            k = field_of(call_obj(e))
            k = int(k[-1]) if k and k[-1] in "12" else None
            for a in call_args(e):
                v = var_of(_strip(a))
                if v and v not in ps and k:
                    prov.setdefault(v, set()).add(k)
            for d in [dd for _, _, dd in f.events(lambda q: q["k"] == "decl" and isinstance(q.get("init"), list) and q["init"] == e["x"])]:
                prov.setdefault(d["var"], set()).add(k)
            for q in [qq for _, _, qq in f.events(lambda q: q["k"] == "assign" and q.get("rhs") == e["x"])] + [qq for qq in lam_assigns if qq.get("rhs") == e["x"]]:
                prov.setdefault(var_of(q["lhs"]), set()).add(k)
        chk.shape(len(rec) >= 2 and {k for s in prov.values() for k in s} == {1, 2}, "MERGE", meth + ":recursions-into-both-children", f.loc, "%d recursive calls" % len(rec))
        nret = 0
        for b, blk in f.blocks.items():
            rets = [q for q in blk["ev"] if q["k"] == "ret"]
            if not rets or b in body or not (haschild and only_via(f, b, haschild)):
                continue
            ks = set()
            used = []
            for q in blk["ev"]:
                if q["k"] == "assign" and q["lhs"][:1] == ["var"] and q["lhs"][1] in outs:
                    v = var_of(_strip(q["rhs"]))
                    if v in prov:
                        ks |= prov[v]
                        used.append(v)
                if q["k"] == "ret" and q.get("val") is not None:
                    v = var_of(_strip(q["val"]))
                    if v in prov:
                        ks |= prov[v]
                        used.append(v)
            if not used:
                continue
            nret += 1
            chk.judge(len(ks) == 1, "MERGE", "%s:return@%d:one-child's-answer" % (meth, rets[0]["line"] - f.line), "%s:%d" % (f.file, rets[0]["line"]), "outputs taken from %s (children %s)" % (used, sorted(ks)))
        chk.shape(nret >= 2, "MERGE", meth + ":interior-returns", f.loc, "%d returns that hand on a child's answer" % nret)
    chk.floor("LEAF", 8)
    chk.floor("MERGE", 6)


def dropaxis(chk, P):
    chk.rule("DROPAXIS", "the leaf ray/triangle test projects onto the two coordinate axes that are NOT the axis of the largest normal component, for every ordering of the "
             "three component magnitudes (a finite case analysis over the comparisons the code makes): the dropped axis then has a non-zero normal component, so the "
             "projected triangle is not degenerate")
    f = P.fn(NODE + "::intersectsRay")

    def mag(x):
        """(vector variable, component) for abs(v[k])"""
        x = _strip(x)
        if not (isinstance(x, list) and x[:1] == ["call"] and str(x[1]).split("::")[-1] in ("abs", "fabs")):
            return None
        a = _strip((x[3] or [None])[0])
        if isinstance(a, list) and a[0] in ("opc", "idx") and _strip(a[-1])[:1] == ["lit"]:
            v = var_of(a[2] if a[0] == "opc" else a[1])
            try:
                return (v, int(_strip(a[-1])[1]))
            except ValueError:
                return None
        return None

    def cmp_of(c):
        if isinstance(c, list) and len(c) == 4 and c[0] == "op" and c[1] in (">", "<", ">=", "<=") and mag(c[2]) and mag(c[3]) and mag(c[2])[0] == mag(c[3])[0]:
            return c[1], mag(c[2])[1], mag(c[3])[1]
        return None
    heads = [b for b, blk in f.blocks.items() if blk.get("term") and cmp_of(blk["term"].get("cond"))]
    if len(heads) < 2:
        # the selection extracted into a file-local helper called from the leaf loop
        for _, _, e in f.calls():
            for g_ in P.by_id.get(e.get("fid"), []):
                hs_ = [b for b, blk in g_.blocks.items() if blk.get("term") and cmp_of(blk["term"].get("cond"))]
                if g_.blocks and len(hs_) >= 2 and not g_.cls:
                    f, heads = g_, hs_
    if not chk.shape(len(heads) >= 2, "DROPAXIS", "axis-selection", f.loc, "%d comparisons of normal-component magnitudes" % len(heads)):
        return
    preds = f.preds()
    roots = [b for b in heads if not any(p_ in heads for p_ in preds[b])]
    if not chk.shape(len(roots) == 1, "DROPAXIS", "axis-selection:root", f.loc, "%d" % len(roots)):
        return
    bad, ncase = [], 0
    for r0 in range(3):
        for r1 in range(3):
            for r2 in range(3):
                m = (r0, r1, r2)
                b = roots[0]
                axes = {}
                for _ in range(8):
                    blk = f.blocks[b]
                    for e in blk["ev"]:
                        if e["k"] == "assign" and e["op"] == "=" and e["lhs"][:1] == ["var"] and isinstance(e.get("rhs"), list) and _strip(e["rhs"])[:1] == ["lit"]:
                            axes[e["lhs"][1]] = int(_strip(e["rhs"])[1])
                    t = blk.get("term")
                    cc = cmp_of(t.get("cond")) if t else None
                    if cc is None:
                        break
                    o, i_, j_ = cc
                    v = {">": m[i_] > m[j_], "<": m[i_] < m[j_], ">=": m[i_] >= m[j_], "<=": m[i_] <= m[j_]}[o]
                    b = blk["succ"][0 if v else 1]
                ncase += 1
                kept = sorted(axes.values())
                if len(axes) != 2 or len(set(kept)) != 2 or not all(0 <= k_ <= 2 for k_ in kept):
                    bad.append("magnitudes ranked %s: axes %s" % (m, axes))
                    continue
                dropped = ({0, 1, 2} - set(kept)).pop()
                if m[dropped] != max(m):
                    bad.append("magnitudes ranked %s: keeps axes %s and drops axis %d, which is not a largest component" % (m, kept, dropped))
    chk.judge(not bad, "DROPAXIS", "intersectsRay:dominant-normal-axis-dropped-in-all-%d-orderings" % ncase, f.loc, "; ".join(bad[:3]) if bad else "checked %d rank assignments" % ncase)
    chk.floor("DROPAXIS", 3)


def run(chk, tier, overlays=()):
    units = units_matching(UNITS)
    P = Program(extract(units, hdr="^$", overlays=overlays))
    chk.units += units
    chk.nfunctions += len(P.fns)
    tree(chk, P)
    partition(chk, P)
    queries(chk, P)
    dropaxis(chk, P)


_F = "SimTKmath/Geometry/src/ContactGeometry_TriangleMesh.cpp"
MUTATIONS = [
    dict(name="node box built from the first two corners of each face", arm=True, file=_F,
         old="        for (int j = 0; j < 3; j++)\n            vertexIndices.insert(faces[faceIndices[i]].vertices[j]);", new="        for (int j = 0; j < 2; j++)\n            vertexIndices.insert(faces[faceIndices[i]].vertices[j]);",
         expect="TREE:box:every-corner-of-every-face-collected"),
    dict(name="split drops faces that straddle the split plane", arm=True, file=_F,
         old="        else if (0.5*(minExtent[i]+maxExtent[i]) <= split)\n            child1Indices.push_back(parentIndices[i]);\n        else\n            child2Indices.push_back(parentIndices[i]);",
         new="        else if (0.5*(minExtent[i]+maxExtent[i]) < split)\n            child1Indices.push_back(parentIndices[i]);\n        else if (0.5*(minExtent[i]+maxExtent[i]) > split)\n            child2Indices.push_back(parentIndices[i]);",
         expect="PARTITION:every-face-goes-somewhere"),
    dict(name="straddling faces go to both children", file=_F,
         old="        else if (0.5*(minExtent[i]+maxExtent[i]) <= split)\n            child1Indices.push_back(parentIndices[i]);\n        else\n            child2Indices.push_back(parentIndices[i]);",
         new="        else {\n            child1Indices.push_back(parentIndices[i]);\n            child2Indices.push_back(parentIndices[i]);\n        }", expect="PARTITION:no-face-goes-twice"),
    dict(name="second child built from the first child's list", file=_F,
         old="                createObbTree(*node.child2, child2Indices);", new="                createObbTree(*node.child2, child1Indices);", expect="TREE:children:list-k-goes-to-child-k"),
    dict(name="leaf keeps all but the last face", file=_F,
         old="    node.triangles.insert(node.triangles.begin(), faceIndices.begin(), \n                          faceIndices.end());", new="    node.triangles.insert(node.triangles.begin(), faceIndices.begin(), \n                          faceIndices.end()-1);",
         expect="TREE:leaf:stores-all-the-node's-faces"),
    dict(name="nearest-point leaf scan starts at the second triangle", arm=True, file=_F,
         old="    for (int i = 0; i < (int) triangles.size(); i++) {\n        Vec2 triangleUV;", new="    for (int i = 1; i < (int) triangles.size(); i++) {\n        Vec2 triangleUV;", expect="BROKEN"),
    dict(name="interior node returns child 1's point with child 2's face", file=_F,
         old="            distance2 = child1distance2;\n            face = child1face;", new="            distance2 = child1distance2;\n            face = child2face;", expect="MERGE:findNearestPoint"),
    dict(name="ray query reports the face of the previous triangle", file=_F,
         old="        distance = t;\n        face = triangles[i];", new="        distance = t;\n        face = triangles[i > 0 ? i-1 : 0];", expect="LEAF:intersectsRay:face=this-triangle"),
    dict(name="seeded (sub-agent): y-dominant faces projected onto the xy plane", file=_F,
         old="            else {\n                axis1 = 0;\n                axis2 = 2;\n            }", new="            else {\n                axis1 = 0;\n                axis2 = 1;\n            }", expect="DROPAXIS:intersectsRay"),
    dict(name="split lists reused across split attempts", file=_F,
         old="        for (int i = 0; i < 3; i++) {\n            Array_<int> child1Indices, child2Indices;\n            splitObbAxis(", new="        Array_<int> child1Indices, child2Indices;\n        for (int i = 0; i < 3; i++) {\n            splitObbAxis(",
         expect="TREE:children:lists-start-empty-for-every-split-attempt"),
]
