"""C37 -- Compliant contact forces follow their documented laws (per-contact independence and non-attraction clauses only).

The constitutive formulas (Hertz, Hunt-Crossley, elastic foundation, exponential spring ..), the friction model and every force value are
numerical and NOT decided.  Decided from the shape of the compliant-contact force code, for every contact configuration:
 PERCONTACT  a loop that visits the contacts (or contact patches: faces, vertices, force elements) and applies or accumulates their forces is
             left only through its header: no `return` and no `break` inside it, so the outcome of one contact -- in particular a contact whose
             force is clamped to zero -- never suppresses the forces of the contacts after it.
 NONATTRACT  a scalar normal-force (or penetration) quantity that the code tests against zero is multiplied into a force only where the test
             is known to have come out positive: on every path to the product an edge `N > 0` (the false side of `N <= 0`) is crossed, so the
             contribution is never attractive and vanishes without penetration."""
import re
from ..facts import extract, units_matching, Program, sx_find, sx_str
from ..match import call_args, var_of, field_of, ev_write, known_edges, only_via, expand_locals
from ..columns import _lit

UNITS = r"Simbody/src/(HuntCrossleyForce|ElasticFoundationForce|CompliantContactSubsystem|SmoothSphereHalfSpaceForce|ExponentialSpringForce)\.cpp$"
APPLY = ("applyForceToBodyPoint", "applyBodyForce", "applyForce", "addInStationForce", "addInBodyTorque", "setForceOnSurface2", "applyTorque")


def _strip(x):
    while isinstance(x, list) and x and x[0] in ("cast", "conv", "paren"):
        x = x[2] if x[0] == "cast" else x[1]
    return x


def _accumulates(f, body):
    """does the loop body apply a force to a body, or add into a force accumulator (SpatialVec / Vec3 local or output)?"""
    tys = {d["var"]: str(d.get("ty", "")) for _, _, d in f.events(lambda q: q["k"] == "decl")}
    tys.update({p_[0]: p_[1] for p_ in f.d.get("params", [])})
    for b in body:
        for q in f.blocks[b]["ev"]:
            if q["k"] == "call" and str(q.get("fn", "")).split("::")[-1] in APPLY:
                return True
            w = ev_write(q)
            if w and w[1] == "+=" and isinstance(w[0], list):
                v = var_of(w[0])
                if v and re.search(r"SpatialVec|Vec3|Vec<3", tys.get(v, "")):
                    return True
    return False


def percontact(chk, P):
    chk.rule("PERCONTACT", "a loop that applies or accumulates the forces of a set of contacts is left only through its header: one contact's outcome never suppresses the others")
    n = 0
    for f in sorted(P.all_fns(), key=lambda g: g.id):
        loops = f.loops()
        for h, body in sorted(loops.items(), key=lambda t: -t[0]):
            if not _accumulates(f, body):
                continue
            # only the outermost accumulating loop of a nest is the contact loop; inner ones are judged too (they are per-patch loops)
            t = f.blocks[h].get("term", {})
            exits = [(b, s) for b in body if b != h for s in f.succs(b) if s not in body]
            infeas = f.infeasible_edges()
            exits = [(b, s) for b, s in exits if (b, s) not in infeas]
            # an exit that can only throw is not a way of skipping the remaining contacts silently
            silent = []
            for b, s in exits:
                if f.path_exists((s, -1), "exit", lambda q: False, lift=0) is not None or s == 0:
                    silent.append((b, s))
            n += 1
            inst = "%s:loop@+%d" % (f.name.replace("SimTK::", ""), (t.get("line", f.line) - f.line))
            where = ", ".join("line %s" % (f.blocks[b]["term"].get("line") if f.blocks[b].get("term") else "?") for b, s in silent)
            chk.judge(not silent, "PERCONTACT", inst + ":left-only-through-its-header", "%s:%d" % (f.file, t.get("line", f.line)),
                      "the loop `%s` can be left from inside its body (%s): the remaining contacts get no force" % (sx_str(t.get("cond"))[:50], where))
    chk.floor("PERCONTACT", 3)


def _cond_guarded(x, prod, v):
    """prod occurs in the branch of a conditional expression inside x that is selected by v > 0"""
    for c in sx_find(x, lambda y: y[0] == "cond" and len(y) == 4):
        t = _strip(c[1])
        isgt = isinstance(t, list) and len(t) == 4 and t[1] == ">" and _strip(t[2]) == ["var", v] and _lit(t[3], ("0", "0.0", "0."))
        isle = isinstance(t, list) and len(t) == 4 and t[1] == "<=" and _strip(t[2]) == ["var", v] and _lit(t[3], ("0", "0.0", "0."))
        if isgt and sx_find(c[2], lambda y: y is prod or y == prod) and not sx_find(c[3], lambda y: y == prod):
            return True
        if isle and sx_find(c[3], lambda y: y is prod or y == prod) and not sx_find(c[2], lambda y: y == prod):
            return True
    return False


def _xbool(f, c):
    """condition c with single-assignment BOOL locals replaced by their initialiser (`const bool pushing = f > 0; if (pushing)` reads as `if (f > 0)`);
    numeric locals are kept -- they are what the tests are about"""
    if not isinstance(c, list):
        return c
    if len(c) == 2 and c[0] == "var":
        ds = [d for _, _, d in f.events(lambda q: q["k"] == "decl" and q["var"] == c[1])]
        asg = [q for _, _, q in f.events(lambda q: q["k"] == "assign" and q["lhs"] == c)]
        if len(ds) == 1 and not asg and "bool" in str(ds[0].get("ty", "")) and ds[0].get("init") is not None:
            return _xbool(f, _strip(ds[0]["init"]))
        return c
    return [_xbool(f, y) for y in c]


def _pos_edges(f, v):
    """edges on which v > 0 is known; a test stored in a single-assignment bool (`const bool pushing = f > 0; if (pushing)`) counts"""
    gt = lambda c: isinstance(c, list) and len(c) == 4 and c[1] == ">" and _strip(c[2]) == ["var", v] and _lit(c[3], ("0", "0.0", "0."))
    le = lambda c: isinstance(c, list) and len(c) == 4 and c[1] == "<=" and _strip(c[2]) == ["var", v] and _lit(c[3], ("0", "0.0", "0."))
    x = lambda c: _strip(_xbool(f, c)) if isinstance(c, list) and c[:1] == ["var"] else c
    return known_edges(f, lambda c: gt(c) or gt(x(c)), lambda c: le(c) or le(x(c)))


def nonattract(chk, P):
    chk.rule("NONATTRACT", "a quantity that is tested against zero as `N <= 0` (no force / no penetration) is multiplied into a force only where `N > 0` is known")
    n = 0
    for f in sorted(P.all_fns(), key=lambda g: g.id):
        if not f.blocks:
            continue
        tys = {d["var"]: str(d.get("ty", "")) for _, _, d in f.events(lambda q: q["k"] == "decl")}
        cands = set()
        for b, blk in f.blocks.items():
            t = blk.get("term")
            c = _xbool(f, _strip(t.get("cond"))) if t and t.get("cond") is not None else None     # (a test held in a named bool is still the test)
            for y in sx_find(c, lambda y: y[0] == "op" and len(y) == 4 and y[1] in ("<=", ">") and _strip(y[2])[:1] == ["var"] and _lit(y[3], ("0", "0.0", "0."))):
                v = _strip(y[2])[1]
                if re.search(r"Real|double", tys.get(v, "")) and re.search(r"^f|force|depth|^x$|normal", v, re.I):
                    cands.add(v)
        for v in sorted(cands):
            pos = _pos_edges(f, v)
            if not pos:
                continue
            # products of v that build a force vector: v * <something of vector type>, or a declared Vec3 / SpatialVec initialised from a product with v
            sites = []
            for b, i, e in f.events(lambda q: q["k"] in ("decl", "assign", "call")):
                x = e.get("init") if e["k"] == "decl" else (e.get("rhs") if e["k"] == "assign" else e.get("x"))
                prods = sx_find(x, lambda y: y[0] in ("op", "opc") and len(y) == 4 and y[1] == "*" and (_strip(y[2]) == ["var", v] or _strip(y[3]) == ["var", v]))
                if not prods:
                    continue
                vec = (e["k"] == "decl" and re.search(r"Vec3|Vec<3|SpatialVec", str(e.get("ty", "")))) or any(p_[0] == "opc" for p_ in prods)
                # a product inside the guarded branch of a conditional expression `v > 0 ? v*dir : 0` is guarded where it stands
                prods = [p_ for p_ in prods if not _cond_guarded(x, p_, v)]
                if vec and prods:
                    sites.append((b, e))
            for b, e in sites:
                n += 1
                chk.judge(only_via(f, b, pos), "NONATTRACT", "%s:%s*..@+%d:only-where-%s>0" % (f.name.replace("SimTK::", ""), v, e.get("line", f.line) - f.line, v), "%s:%d" % (f.file, e.get("line", f.line)),
                          "%s is multiplied into a force vector on a path that has not established %s > 0" % (v, v))
    # the vector handed to an apply call, when it is defined as <scalar> * <direction>: the scalar must have been tested (a clamp that was
    # never written cannot be found by looking for its test)
    SMOOTH = ("SmoothSphereHalfSpaceForce.cpp", "ExponentialSpringForce.cpp")   # positivity by a smoothing formula, not by a test: numerical, not decided
    for f in sorted(P.all_fns(), key=lambda g: g.id):
        if str(f.file).endswith(SMOOTH):
            continue
        applied = set()
        for _, _, e in f.calls():
            if str(e.get("fn", "")).split("::")[-1] in APPLY:
                for a in call_args(e):
                    a_ = _strip(a)
                    if isinstance(a_, list) and a_[0] in ("un", "opc") and len(a_) == 3 and a_[1] == "-":
                        a_ = _strip(a_[2])
                    if isinstance(a_, list) and a_[:1] == ["var"]:
                        applied.add(a_[1])
        for b, i, d in f.events(lambda q: q["k"] == "decl" and q["var"] in applied and re.search(r"Vec3|Vec<3", str(q.get("ty", ""))) is not None and q.get("init") is not None):
            x = d["init"]
            prods = sx_find(x, lambda y: y[0] in ("op", "opc") and len(y) == 4 and y[1] == "*" and (_strip(y[2])[:1] == ["var"] or _strip(y[3])[:1] == ["var"]))
            tys = {dd["var"]: str(dd.get("ty", "")) for _, _, dd in f.events(lambda q: q["k"] == "decl")}
            for pr in prods[:1]:
                sc = [_strip(z)[1] for z in (pr[2], pr[3]) if _strip(z)[:1] == ["var"] and re.search(r"Real|double", tys.get(_strip(z)[1], ""))]
                if len(sc) != 1:
                    continue
                v = sc[0]
                pos = _pos_edges(f, v)
                ok = _cond_guarded(x, pr, v) or (bool(pos) and only_via(f, b, pos))
                n += 1
                chk.judge(ok, "NONATTRACT", "%s:applied-%s=%s*direction:magnitude-tested-positive" % (f.name.replace("SimTK::", ""), d["var"], v), "%s:%d" % (f.file, d["line"]),
                          "the applied force %s is %s times a direction, and %s > 0 is not known where it is formed" % (d["var"], v, v))
    # what is ADDED to an applied force vector (the friction part) is proportional to a scalar whose definition mentions the tested normal
    # force: friction limited by mu * (the force that was just clamped), not by some other magnitude
    for f in sorted(P.all_fns(), key=lambda g: g.id):
        if str(f.file).endswith(SMOOTH):
            continue
        applied = set()
        for _, _, e in f.calls():
            if str(e.get("fn", "")).split("::")[-1] in APPLY:
                for a in call_args(e):
                    a_ = _strip(a)
                    if isinstance(a_, list) and a_[0] in ("un", "opc") and len(a_) == 3 and a_[1] == "-":
                        a_ = _strip(a_[2])
                    if isinstance(a_, list) and a_[:1] == ["var"]:
                        applied.add(a_[1])
        tys = {dd["var"]: str(dd.get("ty", "")) for _, _, dd in f.events(lambda q: q["k"] == "decl")}
        tested = set()
        for b, blk in f.blocks.items():
            t = blk.get("term")
            c = _xbool(f, t.get("cond")) if t and t.get("cond") is not None else None
            for y in sx_find(c, lambda y: y[0] == "op" and len(y) == 4 and y[1] in ("<=", ">") and _strip(y[2])[:1] == ["var"] and _lit(y[3], ("0", "0.0", "0."))):
                tested.add(_strip(y[2])[1])
        for b, i, e in f.events(lambda q: q["k"] in ("call", "assign")):
            w = ev_write(e)
            if not (w and w[1] == "+=" and var_of(w[0]) in applied and w[0][:1] == ["var"]):
                continue
            scal = [y[1] for y in sx_find(w[2], lambda y: y[0] == "var" and re.search(r"Real|double", tys.get(y[1], "")) is not None)]
            for sv in scal[:1]:
                ds = [d for _, _, d in f.events(lambda q: q["k"] == "decl" and q["var"] == sv and q.get("init") is not None)]
                if len(ds) != 1:
                    continue
                base = [y[1] for y in sx_find(ds[0]["init"], lambda y: y[0] == "var" and y[1] in tested and re.search(r"Real|double", tys.get(y[1], "")) is not None and
                                              not re.search(r"slip|vrel|vtang", y[1], re.I))]
                n += 1
                chk.judge(bool(base), "NONATTRACT", "%s:%s-added-to-%s:built-on-the-tested-normal-force" % (f.name.replace("SimTK::", ""), sv, var_of(w[0])), "%s:%d" % (f.file, ds[0]["line"]),
                          "%s (added to the applied force) = %s mentions none of the magnitudes tested against zero (%s)" % (sv, sx_str(ds[0]["init"])[:60], sorted(tested)))
    chk.floor("NONATTRACT", 3)


def suffix(chk, P):
    chk.rule("SUFFIX", "side agreement in two-sided contact code (naming lint, like FRAME): a declaration `<name>K = <object>J.method(args)` whose names carry a side index "
             "(…1 / …2) is computed from the object and the arguments of its own side: J = K and every side-indexed argument variable carries only K")
    n = 0
    dig = lambda nm: set(re.findall(r"[A-Za-z_]([12])(?![0-9])", "_" + nm))
    for f in sorted(P.all_fns(), key=lambda g: g.id):
        for b, i, d in f.events(lambda q: q["k"] == "decl" and isinstance(q.get("init"), list)):
            name = d["var"]
            m = re.search(r"([12])$", name)
            if not m or len(dig(name)) != 1:
                continue
            k = m.group(1)
            x = _strip(d["init"])
            if not (isinstance(x, list) and x[:1] == ["call"] and isinstance(x[2], list) and _strip(x[2])[:1] == ["var"]):
                continue
            obj = _strip(x[2])[1]
            od = dig(obj)
            if len(od) != 1 or not re.search(r"[12]$", obj):
                continue
            args = [y[1] for a in (x[3] if len(x) > 3 and isinstance(x[3], list) else []) for y in sx_find(a, lambda y: y[0] == "var") if dig(y[1])]
            n += 1
            bad = []
            if od != {k}:
                bad.append("object %s" % obj)
            bad += ["argument %s" % a for a in args if dig(a) != {k}]
            chk.judge(not bad, "SUFFIX", "%s:%s" % (f.name.replace("SimTK::", ""), name), "%s:%d" % (f.file, d["line"]),
                      "%s (side %s) is computed from %s" % (name, k, ", ".join(bad)) if bad else "%s from %s%s" % (name, obj, (" and " + ", ".join(args)) if args else ""))
    chk.floor("SUFFIX", 8)


def run(chk, tier, overlays=()):
    units = units_matching(UNITS)
    P = Program(extract(units, hdr="^$", overlays=overlays))
    chk.units += units
    chk.nfunctions += len(P.fns)
    percontact(chk, P)
    nonattract(chk, P)
    suffix(chk, P)


_HC = "Simbody/src/HuntCrossleyForce.cpp"
_CC = "Simbody/src/CompliantContactSubsystem.cpp"
_EF = "Simbody/src/ElasticFoundationForce.cpp"
MUTATIONS = [
    dict(name="HuntCrossleyForce returns at the first contact without force (pre-fix code, F18)", arm=True, file=_HC,
         old="        if (f <= 0) \n            continue; // no force from this contact; go on to the next one", new="        if (f <= 0) \n            return;", expect="PERCONTACT:HuntCrossleyForceImpl::calcForce"),
    dict(name="HuntCrossleyForce applies an attractive force", arm=True, file=_HC,
         old="        if (f <= 0) \n            continue; // no force from this contact; go on to the next one\n", new="", expect="NONATTRACT:HuntCrossleyForceImpl::calcForce"),
    dict(name="seeded (sub-agent): Hunt-Crossley friction scaled by the Hertz force instead of the clamped normal force", file=_HC,
         old="            const Real ffriction = f*(std::min(vrel, Real(1))", new="            const Real ffriction = fH*(std::min(vrel, Real(1))", expect="NONATTRACT:HuntCrossleyForceImpl::calcForce:ffriction"),
    dict(name="seeded (sub-agent, reduced): surface 1's velocity taken with surface 2's mount", file=_CC,
         old="        const SpatialVec V_GS1 = mobod1.findFrameVelocityInGround\n            (state, m_tracker.getContactSurfaceTransform(surf1));",
         new="        const SpatialVec V_GS1 = mobod1.findFrameVelocityInGround\n            (state, m_tracker.getContactSurfaceTransform(surf2));", expect="SUFFIX:CompliantContactSubsystemImpl::ensureForceCacheValid:V_GS1"),
    dict(name="brick contact: sticking vertices still pull", file=_CC,
         old="        if (fNormal <= 0) {\n            powerLoss = -fK*xdot; // xdot<0 here\n        } else {", new="        if (fNormal <= 0) {\n            powerLoss = -fK*xdot; // xdot<0 here\n        } {", expect="NONATTRACT"),
    dict(name="elastic foundation stops at the first face without penetration", file=_EF,
         old="        if (distance == 0.0)\n            continue;", new="        if (distance == 0.0)\n            break;", expect="PERCONTACT:ElasticFoundationForceImpl::processContact"),
]
