"""C37 -- Compliant contact forces follow their documented laws (per-contact independence and non-attraction clauses only).

The constitutive formulas (Hertz, Hunt-Crossley, elastic foundation, exponential spring ..), the friction model and every force value are
numerical and NOT decided.  Decided from the shape of the compliant-contact force code, for every contact configuration:
 PERCONTACT  a loop that visits the contacts (or contact patches: faces, vertices, force elements) and applies or accumulates their forces is
             left only through its header: no `return` and no `break` inside it, so the outcome of one contact -- in particular a contact whose
             force is clamped to zero -- never suppresses the forces of the contacts after it.
 NONATTRACT  a scalar normal-force (or penetration) quantity that the code tests against zero is multiplied into a force only where the test
             is known to have come out positive: on every path to the product an edge `N > 0` (the false side of `N <= 0`) is crossed, so the
             contribution is never attractive and vanishes without penetration."""
import re
from ..facts import extract, units_matching, Program, sx_find, sx_str
from ..match import call_args, var_of, field_of, ev_write, known_edges, only_via, expand_locals
from ..columns import _lit

UNITS = r"Simbody/src/(HuntCrossleyForce|ElasticFoundationForce|CompliantContactSubsystem|SmoothSphereHalfSpaceForce|ExponentialSpringForce)\.cpp$"
APPLY = ("applyForceToBodyPoint", "applyBodyForce", "applyForce", "addInStationForce", "addInBodyTorque", "setForceOnSurface2", "applyTorque")


def _strip(x):
    while isinstance(x, list) and x and x[0] in ("cast", "conv", "paren"):
        x = x[2] if x[0] == "cast" else x[1]
    return x


def _accumulates(f, body):
    """does the loop body apply a force to a body, or add into a force accumulator (SpatialVec / Vec3 local or output)?"""
    tys = {d["var"]: str(d.get("ty", "")) for _, _, d in f.events(lambda q: q["k"] == "decl")}
    tys.update({p_[0]: p_[1] for p_ in f.d.get("params", [])})
    for b in body:
        for q in f.blocks[b]["ev"]:
            if q["k"] == "call" and str(q.get("fn", "")).split("::")[-1] in APPLY:
                return True
            w = ev_write(q)
            if w and w[1] == "+=" and isinstance(w[0], list):
                v = var_of(w[0])
                if v and re.search(r"SpatialVec|Vec3|Vec<3", tys.get(v, "")):
                    return True
    return False


def percontact(chk, P):
    chk.rule("PERCONTACT", "a loop that applies or accumulates the forces of a set of contacts is left only through its header: one contact's outcome never suppresses the others")
    n = 0
    for f in sorted(P.all_fns(), key=lambda g: g.id):
        loops = f.loops()
        for h, body in sorted(loops.items(), key=lambda t: -t[0]):
            if not _accumulates(f, body):
                continue
            # only the outermost accumulating loop of a nest is the contact loop; inner ones are judged too (they are per-patch loops)
            t = f.blocks[h].get("term", {})
            exits = [(b, s) for b in body if b != h for s in f.succs(b) if s not in body]
            infeas = f.infeasible_edges()
            exits = [(b, s) for b, s in exits if (b, s) not in infeas]
            # an exit that can only throw is not a way of skipping the remaining contacts silently
            silent = []
            for b, s in exits:
                if f.path_exists((s, -1), "exit", lambda q: False, lift=0) is not None or s == 0:
                    silent.append((b, s))
            n += 1
            inst = "%s:loop@+%d" % (f.name.replace("SimTK::", ""), (t.get("line", f.line) - f.line))
            where = ", ".join("line %s" % (f.blocks[b]["term"].get("line") if f.blocks[b].get("term") else "?") for b, s in silent)
            chk.judge(not silent, "PERCONTACT", inst + ":left-only-through-its-header", "%s:%d" % (f.file, t.get("line", f.line)),
                      "the loop `%s` can be left from inside its body (%s): the remaining contacts get no force" % (sx_str(t.get("cond"))[:50], where))
    chk.floor("PERCONTACT", 3)


def _cond_guarded(x, prod, v):
    """prod occurs in the branch of a conditional expression inside x that is selected by v > 0"""
    for c in sx_find(x, lambda y: y[0] == "cond" and len(y) == 4):
        t = _strip(c[1])
        isgt = isinstance(t, list) and len(t) == 4 and t[1] == ">" and _strip(t[2]) == ["var", v] and _lit(t[3], ("0", "0.0", "0."))
        isle = isinstance(t, list) and len(t) == 4 and t[1] == "<=" and _strip(t[2]) == ["var", v] and _lit(t[3], ("0", "0.0", "0."))
        if isgt and sx_find(c[2], lambda y: y is prod or y == prod) and not sx_find(c[3], lambda y: y == prod):
            return True
        if isle and sx_find(c[3], lambda y: y is prod or y == prod) and not sx_find(c[2], lambda y: y == prod):
            return True
    return False


def nonattract(chk, P):
    chk.rule("NONATTRACT", "a quantity that is tested against zero as `N <= 0` (no force / no penetration) is multiplied into a force only where `N > 0` is known")
    n = 0
    for f in sorted(P.all_fns(), key=lambda g: g.id):
        if not f.blocks:
            continue
        tys = {d["var"]: str(d.get("ty", "")) for _, _, d in f.events(lambda q: q["k"] == "decl")}
        cands = set()
        for b, blk in f.blocks.items():
            t = blk.get("term")
            c = _strip(t.get("cond")) if t and t.get("cond") is not None else None
            for y in sx_find(c, lambda y: y[0] == "op" and len(y) == 4 and y[1] in ("<=", ">") and _strip(y[2])[:1] == ["var"] and _lit(y[3], ("0", "0.0", "0."))):
                v = _strip(y[2])[1]
                if re.search(r"Real|double", tys.get(v, "")) and re.search(r"^f|force|depth|^x$|normal", v, re.I):
                    cands.add(v)
        for v in sorted(cands):
            pos = known_edges(f, lambda c, v=v: isinstance(c, list) and len(c) == 4 and c[1] == ">" and _strip(c[2]) == ["var", v] and _lit(c[3], ("0", "0.0", "0.")),
                              lambda c, v=v: isinstance(c, list) and len(c) == 4 and c[1] == "<=" and _strip(c[2]) == ["var", v] and _lit(c[3], ("0", "0.0", "0.")))
            if not pos:
                continue
            # products of v that build a force vector: v * <something of vector type>, or a declared Vec3 / SpatialVec initialised from a product with v
            sites = []
            for b, i, e in f.events(lambda q: q["k"] in ("decl", "assign", "call")):
                x = e.get("init") if e["k"] == "decl" else (e.get("rhs") if e["k"] == "assign" else e.get("x"))
                prods = sx_find(x, lambda y: y[0] in ("op", "opc") and len(y) == 4 and y[1] == "*" and (_strip(y[2]) == ["var", v] or _strip(y[3]) == ["var", v]))
                if not prods:
                    continue
                vec = (e["k"] == "decl" and re.search(r"Vec3|Vec<3|SpatialVec", str(e.get("ty", "")))) or any(p_[0] == "opc" for p_ in prods)
                # a product inside the guarded branch of a conditional expression `v > 0 ? v*dir : 0` is guarded where it stands
                prods = [p_ for p_ in prods if not _cond_guarded(x, p_, v)]
                if vec and prods:
                    sites.append((b, e))
            for b, e in sites:
                n += 1
                chk.judge(only_via(f, b, pos), "NONATTRACT", "%s:%s*..@+%d:only-where-%s>0" % (f.name.replace("SimTK::", ""), v, e.get("line", f.line) - f.line, v), "%s:%d" % (f.file, e.get("line", f.line)),
                          "%s is multiplied into a force vector on a path that has not established %s > 0" % (v, v))
    # the vector handed to an apply call, when it is defined as <scalar> * <direction>: the scalar must have been tested (a clamp that was
    # never written cannot be found by looking for its test)
    SMOOTH = ("SmoothSphereHalfSpaceForce.cpp", "ExponentialSpringForce.cpp")   # positivity by a smoothing formula, not by a test: numerical, not decided
    for f in sorted(P.all_fns(), key=lambda g: g.id):
        if str(f.file).endswith(SMOOTH):
            continue
        applied = set()
        for _, _, e in f.calls():
            if str(e.get("fn", "")).split("::")[-1] in APPLY:
                for a in call_args(e):
                    a_ = _strip(a)
                    if isinstance(a_, list) and a_[0] in ("un", "opc") and len(a_) == 3 and a_[1] == "-":
                        a_ = _strip(a_[2])
                    if isinstance(a_, list) and a_[:1] == ["var"]:
                        applied.add(a_[1])
        for b, i, d in f.events(lambda q: q["k"] == "decl" and q["var"] in applied and re.search(r"Vec3|Vec<3", str(q.get("ty", ""))) is not None and q.get("init") is not None):
            x = d["init"]
            prods = sx_find(x, lambda y: y[0] in ("op", "opc") and len(y) == 4 and y[1] == "*" and (_strip(y[2])[:1] == ["var"] or _strip(y[3])[:1] == ["var"]))
            tys = {dd["var"]: str(dd.get("ty", "")) for _, _, dd in f.events(lambda q: q["k"] == "decl")}
            for pr in prods[:1]:
                sc = [_strip(z)[1] for z in (pr[2], pr[3]) if _strip(z)[:1] == ["var"] and re.search(r"Real|double", tys.get(_strip(z)[1], ""))]
                if len(sc) != 1:
                    continue
                v = sc[0]
                pos = known_edges(f, lambda c, v=v: isinstance(c, list) and len(c) == 4 and c[1] == ">" and _strip(c[2]) == ["var", v] and _lit(c[3], ("0", "0.0", "0.")),
                                  lambda c, v=v: isinstance(c, list) and len(c) == 4 and c[1] == "<=" and _strip(c[2]) == ["var", v] and _lit(c[3], ("0", "0.0", "0.")))
                ok = _cond_guarded(x, pr, v) or (bool(pos) and only_via(f, b, pos))
                n += 1
                chk.judge(ok, "NONATTRACT", "%s:applied-%s=%s*direction:magnitude-tested-positive" % (f.name.replace("SimTK::", ""), d["var"], v), "%s:%d" % (f.file, d["line"]),
                          "the applied force %s is %s times a direction, and %s > 0 is not known where it is formed" % (d["var"], v, v))
    chk.floor("NONATTRACT", 3)


def run(chk, tier, overlays=()):
    units = units_matching(UNITS)
    P = Program(extract(units, hdr="^$", overlays=overlays))
    chk.units += units
    chk.nfunctions += len(P.fns)
    percontact(chk, P)
    nonattract(chk, P)


_HC = "Simbody/src/HuntCrossleyForce.cpp"
_CC = "Simbody/src/CompliantContactSubsystem.cpp"
_EF = "Simbody/src/ElasticFoundationForce.cpp"
MUTATIONS = [
    dict(name="HuntCrossleyForce returns at the first contact without force (pre-fix code, F18)", arm=True, file=_HC,
         old="        if (f <= 0) \n            continue; // no force from this contact; go on to the next one", new="        if (f <= 0) \n            return;", expect="PERCONTACT:HuntCrossleyForceImpl::calcForce"),
    dict(name="HuntCrossleyForce applies an attractive force", arm=True, file=_HC,
         old="        if (f <= 0) \n            continue; // no force from this contact; go on to the next one\n", new="", expect="NONATTRACT:HuntCrossleyForceImpl::calcForce"),
    dict(name="brick contact: sticking vertices still pull", file=_CC,
         old="        if (fNormal <= 0) {\n            powerLoss = -fK*xdot; // xdot<0 here\n        } else {", new="        if (fNormal <= 0) {\n            powerLoss = -fK*xdot; // xdot<0 here\n        } {", expect="NONATTRACT"),
    dict(name="elastic foundation stops at the first face without penetration", file=_EF,
         old="        if (distance == 0.0)\n            continue;", new="        if (distance == 0.0)\n            break;", expect="PERCONTACT:ElasticFoundationForceImpl::processContact"),
]
