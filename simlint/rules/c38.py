"""C38 -- Non-contact force elements follow their documented laws.

Decides only the clause "changes to an element's parameters, enable state or
exclusions take effect at the next realization": TOPO, STAGE (shared with
C16), GUARD, enabled-list REACHDEF and Gravity's PREFILL pairing."""
import re

from ..facts import extract_split, units_matching, Program, AnalysisBroken, sx_find, sx_str
from ..match import (ev_write, is_call, call_args, call_obj, field_of, var_of, guard_blocks, lvalue_root, branch_edges)
from .c18 import _in_loop, _is_lit, _is_var
from . import c16

CONTACT = {"SimTK::HuntCrossleyForceImpl", "SimTK::ElasticFoundationForceImpl", "SimTK::SmoothSphereHalfSpaceForceImpl",
           "SimTK::ExponentialSpringForceImpl"}
INV = re.compile(r"invalidate(Subsystem)?TopologyCache$|::setDisabledByDefault$")
REP = "SimTK::GeneralForceSubsystemRep"
GI = "SimTK::Force::GravityImpl"
UNITS = r"/Simbody/src/(Force[^/]*|GeneralForceSubsystem|CableSpring|HuntCrossleyForce|ElasticFoundationForce|SmoothSphereHalfSpaceForce|ExponentialSpringForce)\.cpp$"
# writes of Impl data members that are not runtime parameter changes
TOPO_EXEMPT_FUNCS = {
    "realizeTopology": "fills the topology cache (index members) during realizeTopology",
    "setForceSubsystem": "called once when the element is adopted by the subsystem (adoptForce invalidates the topology cache itself)",
    "clone": "copy",
}
STATE_METHODS = ("realizeInstance", "realizeTime", "realizePosition", "realizeVelocity", "realizeDynamics", "realizeAcceleration",
                 "realizeReport", "calcForce", "calcPotentialEnergy", "calcDecorativeGeometryAndAppend")


def run(chk, tier, overlays=()):
    units = units_matching(r"/Simbody/src/" if tier == "thorough" else UNITS)
    P = Program(extract_split(units, hdr=c16.HDR, overlays=overlays))
    chk.units += units
    chk.nfunctions += len(P.fns)
    impls = sorted(P.subclasses("SimTK::ForceImpl"))
    chk.require(len(impls) >= 20, "only %d ForceImpl subclasses found" % len(impls))
    noncontact = [c for c in impls if c not in CONTACT]
    topo(chk, P, noncontact, impls)
    shared_stage(chk, P, noncontact)
    guard(chk, P)
    enabled_lists(chk, P)
    prefill(chk, P)
    chk.assumptions += ["the force laws and energies themselves are numerical and not decided (DESIGN section 3, C38)"]


def topo(chk, P, noncontact, impls):
    chk.rule("TOPO", "for every built-in non-contact force element: any function other than constructors, clone and realizeTopology that writes a "
             "non-mutable data member of the element's Impl class (its TOPOLOGY STATE) calls a topology invalidator "
             "(invalidateTopologyCache / invalidateSubsystemTopologyCache / setDisabledByDefault) on every path through the write")
    mut = {}
    owner = {}
    for c in impls + ["SimTK::ForceImpl"]:
        cd = P.classes.get(c)
        if not cd:
            continue
        for f in cd["fields"]:
            mut[c + "::" + f["name"]] = bool(f.get("mutable"))
            owner[c + "::" + f["name"]] = c
    info = 0
    for fn in sorted(P.all_fns(), key=lambda f: f.id):
        if fn.kind in ("ctor", "copyctor", "movector", "dtor", "copyassign", "moveassign"):
            continue
        short = fn.name.split("::")[-1]
        for b, i, e in fn.events(lambda e: e["k"] == "mem" and e["field"] in mut and e["acc"] in ("w", "rw", "mcall", "refarg", "addr", "handout", "refbind")):
            if mut[e["field"]]:
                continue
            cls = owner[e["field"]]
            fshort = e["field"].split("::")[-1]
            inst = "%s->%s" % (fn.id, fshort)
            site = "%s:%d" % (fn.file, e["line"])
            if short in TOPO_EXEMPT_FUNCS:
                chk.ok("TOPO", inst + ":exempt", site, TOPO_EXEMPT_FUNCS[short])
                continue
            def isinv(q):
                return q["k"] == "call" and INV.search(q.get("fn", "")) is not None
            before = fn.path_exists(None, lambda q: q is e, isinv)
            after = fn.path_exists((b, i), "exit", isinv)
            ok = before is None or after is None
            if cls in CONTACT:
                if not ok:
                    info += 1
                continue
            chk.judge(ok, "TOPO", inst, site, "topology-state member %s of %s is changed without invalidating the topology cache: the new default never reaches a State"
                      % (fshort, cls), before)
    if info:
        chk.note("informational (outside C38's non-contact scope): %d writes of contact-element Impl members do not invalidate the topology cache "
                 "(SmoothSphereHalfSpaceForce setters, ElasticFoundationForce::setTransitionVelocity, HuntCrossleyForce parameter growth)" % info)
    chk.floor("TOPO", 30)


def shared_stage(chk, P, noncontact):
    chk.rule("STAGE", "C16's STAGE and POSONLY rules restricted to the non-contact force elements: each parameter variable invalidates a stage no later "
             "than the earliest stage at which anything computed from it is cached")
    SV, var, cache, nsites = c16.build(P)
    S = c16.Summ(P, var, cache)
    sub = type(chk)(chk.pid, chk.tier)
    c16.posonly(sub, P, S, SV)
    c16.stage(sub, P, S, SV)
    keep = tuple(noncontact)
    for o in sub.obl:
        if any(k in o["instance"] for k in keep):
            chk.obl.append(o)
    for b in sub.broken:
        chk.broken.append(b)
    # every element parameter variable has a State-level setter that obtains it through updDiscreteVariable (stage invalidated by State, C18)
    n = 0
    for v, d in sorted(var.items()):
        if not any(v.startswith(c + "::") for c in noncontact):
            continue
        n += 1
        ws = S.writers(v)
        chk.ok("STAGE", "var:%s:inv=%s:writers=%d" % (v, [k for k, x in SV.items() if x == d["inv"]][0], len(ws)), d["site"])
    chk.floor("STAGE", 20)


def guard(chk, P):
    chk.rule("GUARD", "every call from GeneralForceSubsystemRep to a force element's State-taking virtual (realizeInstance..Report, calcForce, "
             "calcPotentialEnergy, decorative geometry) inside a loop over `forces` is guarded by that element's enabled flag, read from the "
             "Instance-stage forceEnabled variable with the same index (realizeTopology/realizeModel are documented exceptions)")
    n = 0
    for fn in sorted(P.methods_of(REP), key=lambda f: f.id):
        for b, i, e in fn.calls():
            n0 = e.get("fn", "")
            if not (n0.startswith("SimTK::ForceImpl::") and n0.split("::")[-1] in STATE_METHODS):
                continue
            obj = call_obj(e)
            fl = field_of_deep(obj)
            if fl != REP + "::forces":
                # through a local `const Force& f = *forces[i]`
                v = var_of_deep(obj)
                d = [dd for _, _, dd in fn.events(lambda dd: dd["k"] == "decl" and dd["var"] == v)] if v else []
                if not (d and field_of_deep(d[0]["init"]) == REP + "::forces"):
                    continue
                idx = index_var(d[0]["init"])
            else:
                idx = index_var(obj)
            n += 1
            site = "%s:%d" % (fn.file, e["line"])
            inst = "%s->%s" % (fn.name.split("::")[-1], n0.split("::")[-1])
            def enabled_cond(c, idx=idx, fn=fn):
                # enabled[i] / forceEnabled[i]  or  !isForceDisabled(s, index)
                if c[0] in ("opc", "idx") and index_var(c) == idx:
                    v = var_of(c)
                    d = [dd for _, _, dd in fn.events(lambda dd: dd["k"] == "decl" and dd["var"] == v)]
                    return bool(d) and REP + "::forceEnabledIndex" in c16._fields_in(d[0]["init"])
                if c[0] == "un" and c[1] == "!" and c[2][0] == "call" and c[2][1] == REP + "::isForceDisabled":
                    return var_of(c[2][3][1]) == idx
                return False
            region = set()
            for g in guard_blocks(fn, enabled_cond, 0):
                dom = fn.dominators()
                region |= {x for x in dom if g in dom[x]}
            chk.judge(b in region, "GUARD", inst, site, "force element virtual called without testing the element's enabled flag (index %s)" % idx)
    # isForceDisabled reads the Instance-stage variable
    f = P.fn(REP + "::isForceDisabled")
    chk.judge(any(REP + "::forceEnabledIndex" in c16._fields_in(e["x"]) for _, _, e in f.calls() if e.get("fn", "").endswith("::getDiscreteVariable")),
              "GUARD", "isForceDisabled:reads-forceEnabled", f.loc, "isForceDisabled reads the forceEnabled variable")
    chk.floor("GUARD", 10)


def field_of_deep(x):
    """field at the root of *forces[i], forces[i]->getImpl(), (*forces[i]).getImpl() ..."""
    while isinstance(x, list) and x:
        if x[0] == "mem":
            return x[2]
        if x[0] in ("opc",) and len(x) > 2:
            x = x[2]
        elif x[0] == "call" and x[2] is not None:
            x = x[2]
        elif x[0] in ("un", "cast", "idx"):
            x = x[2] if x[0] != "idx" else x[1]
        elif x[0] == "conv":
            x = x[1]
        else:
            return None
    return None


def var_of_deep(x):
    while isinstance(x, list) and x:
        if x[0] == "var":
            return x[1]
        if x[0] in ("opc",) and len(x) > 2:
            x = x[2]
        elif x[0] == "call" and x[2] is not None:
            x = x[2]
        elif x[0] in ("un", "cast"):
            x = x[2]
        elif x[0] == "idx":
            x = x[1]
        elif x[0] == "conv":
            x = x[1]
        else:
            return None
    return None


def index_var(x):
    """variable used as subscript in the innermost [] of x"""
    hits = sx_find(x, lambda y: (y[0] == "opc" and y[1] == "[]" and len(y) > 3) or y[0] == "idx")
    for h in hits:
        iv = var_of(h[3] if h[0] == "opc" else h[2])
        if iv:
            return iv
    return None


def enabled_lists(chk, P):
    chk.rule("REACHDEF", "the force tasks evaluate only members of the enabled lists, and realizeSubsystemInstanceImpl (and realizeTopology) rebuild "
             "those lists from the enabled flags: every push_back into enabled(Non)ParallelForces is guarded by forceEnabled[i] with the same i; "
             "setForceIsDisabled writes the flag through the Instance-stage variable")
    for fname in (REP + "::realizeSubsystemInstanceImpl", REP + "::realizeSubsystemTopologyImpl"):
        fn = P.fn(fname)
        # roles of the locals, never their names: the enabled lists are the Array_<ForceIndex> locals tied (by their initialiser or by the
        # allocateCacheEntry that stores them) to the enabledParallelForcesIndex / enabledNonParallelForcesIndex members; the flag array is
        # the Array_<bool> local
        ldecl = {d["var"]: d for _, _, d in fn.events(lambda d: d["k"] == "decl")}
        lists = {}
        for v, d in ldecl.items():
            if "ForceIndex" not in str(d.get("ty", "")) or "Array_" not in str(d.get("ty", "")):
                continue
            tied = set()
            for _, _, e in fn.events():
                for x in (e.get("x"), e.get("init") if e.get("var") == v else None, e.get("rhs")):
                    if x is None:
                        continue
                    if (e.get("var") == v or sx_find(x, lambda y: y[0] == "var" and y[1] == v)):
                        for y in sx_find(x, lambda y: y[0] == "mem" and re.search(r"::enabled(Non)?ParallelForcesIndex$", y[2])):
                            tied.add(y[2].split("::")[-1][:-len("Index")])
                if e["k"] in ("assign",) and e.get("rhs") is not None and sx_find(e["rhs"], lambda y: y[0] == "var" and y[1] == v):
                    for y in sx_find(e["lhs"], lambda y: y[0] == "mem" and re.search(r"::enabled(Non)?ParallelForcesIndex$", y[2])):
                        tied.add(y[2].split("::")[-1][:-len("Index")])
            if len(tied) == 1:
                lists[v] = next(iter(tied))
        flags = {v for v, d in ldecl.items() if re.search(r"Array_<bool", str(d.get("ty", "")))}
        pushes = [(b, i, e) for b, i, e in fn.calls() if e.get("fn", "").endswith("::push_back") and var_of(call_obj(e)) in lists]
        chk.shape(len(pushes) == 2 and sorted(lists.values()) == ["enabledNonParallelForces", "enabledParallelForces"], "REACHDEF", "%s:two-push-sites" % fname.split("::")[-1], fn.loc,
                  "parallel and non-parallel push sites (found %d; lists %s)" % (len(pushes), sorted(lists.values())))
        for b, i, e in pushes:
            a = call_args(e)
            iv = var_of(a[0]) if a else None
            if iv is None and a:
                c = sx_find(a[0], lambda y: y[0] == "var")
                iv = c[0][1] if c else None
            def cond(c, iv=iv, fn=fn):
                if c[0] in ("opc", "idx") and index_var(c) == iv:
                    v = var_of(c)
                    if v in flags:
                        return True
                return False
            region = set()
            for g in guard_blocks(fn, cond, 0):
                dom = fn.dominators()
                region |= {x for x in dom if g in dom[x]}
            chk.judge(b in region, "REACHDEF", "%s:%s.push_back" % (fname.split("::")[-1], lists.get(var_of(call_obj(e)))), "%s:%d" % (fn.file, e["line"]),
                      "force %s is put on an enabled list only under forceEnabled[%s]" % (iv, iv))
        if fname.endswith("InstanceImpl"):
            # the lists are cleared first
            for lst in ("enabledParallelForces", "enabledNonParallelForces"):
                lv = [v for v, r in lists.items() if r == lst]
                rs = [(b, i, e) for b, i, e in fn.calls() if e.get("fn", "").endswith(("::resize", "::clear")) and var_of(call_obj(e)) in lv]
                ok = bool(rs)
                for pb, pi, pe in pushes:
                    if var_of(call_obj(pe)) in lv and rs:
                        ok = ok and fn.path_exists(None, lambda q, pe=pe: q is pe, lambda q, rs=rs: q is rs[0][2]) is None
                chk.judge(ok, "REACHDEF", "realizeInstance:%s-cleared-first" % lst, fn.loc, "list is emptied before being rebuilt")
    # the tasks iterate only the enabled lists
    for cls in (c17_PT, c17_NPT):
        ex = P.fn(cls + "::execute")
        for b, i, e in ex.calls("SimTK::ForceImpl::calcForce"):
            obj = call_obj(e)
            v = var_of_deep(obj)
            # impl / force local -> m_forces[forceIndex] ; forceIndex from an enabled list
            d = [dd for _, _, dd in ex.events(lambda dd: dd["k"] == "decl" and dd["var"] == v)]
            src = d[-1]["init"] if d else obj
            fi = index_var(src)
            ok = False
            if fi:
                # range-for variable over *m_enabledNonParallelForces or decl from m_enabledParallelForces->getElt
                dd = [x for _, _, x in ex.events(lambda x: x["k"] == "decl" and x["var"] == fi)]
                for x in dd:
                    if x["init"] is not None and sx_find(x["init"], lambda y: y[0] == "mem" and y[2].endswith(("::m_enabledParallelForces", "::m_enabledNonParallelForces"))):
                        ok = True
                    if x["init"] is not None and sx_find(x["init"], lambda y: y[0] == "var" and y[1].startswith("__")):
                        ok = True  # range-for element: checked below
                rng = [x for _, _, x in ex.events(lambda x: x["k"] == "decl" and x["var"].startswith("__range") and x["init"] is not None and
                                                  sx_find(x["init"], lambda y: y[0] == "mem" and y[2].endswith("::m_enabledNonParallelForces")))]
                ok = ok and (bool(rng) or any(sx_find(x["init"], lambda y: y[0] == "mem" and y[2].endswith("::m_enabledParallelForces")) for x in dd if x["init"] is not None))
            chk.judge(ok, "REACHDEF", "%s::execute:calcForce-from-enabled-list:%s" % (cls.split("::")[-1], "b%d" % b), "%s:%d" % (ex.file, e["line"]),
                      "the evaluated element is m_forces[k] with k taken from an enabled list")
    chk.floor("REACHDEF", 12)


c17_PT = "(anonymous namespace)::CalcForcesParallelTask"
c17_NPT = "(anonymous namespace)::CalcForcesNonParallelTask"


def prefill(chk, P):
    chk.rule("PREFILL", "Force::Gravity precomputes zeros in its lazily validated force cache: every function that can set the magnitude to zero "
             "zeroes the cache under `== 0`; every function that changes a body's immunity re-fills that body's entry (zero when excluded or g == 0, NaN otherwise)")
    G = "SimTK::Force::Gravity"
    pg = GI + "::Parameters::g"
    for fn in sorted(P.all_fns(), key=lambda f: f.id):
        ws = [(b, i, e) for b, i, e in fn.events(lambda e: e["k"] == "mem" and e["field"] == pg and e["acc"] in ("w", "rw"))]
        for b, i, e in ws:
            if fn.kind == "ctor":
                continue
            site = "%s:%d" % (fn.file, e["line"])
            zs = [(bb, ee) for bb, _, ee in fn.calls() if ee.get("fn", "").endswith("ForceCache::setToZero")]
            gb = guard_blocks(fn, lambda c: c[0] == "op" and c[1] == "==" and _is_lit(c[3], "0"), 0)
            ok = bool(zs) and all(bb in gb for bb, ee in zs) and fn.path_exists((b, i), lambda q: q is zs[0][1], lambda q: False) is not None if zs else False
            chk.judge(ok, "PREFILL", "%s:g==0->setToZero" % fn.name.split("::")[-1], site, "setting the magnitude must zero the force cache when the new magnitude is 0")
    callers = [fn for fn in P.all_fns() if fn.name.startswith(G + "::") and any(True for _ in fn.calls(GI + "::setMobodIsImmune"))]
    chk.shape(len(callers) >= 1, "PREFILL", "setMobodIsImmune-callers", "", "handle-level exclusion setter found")
    for fn in callers:
        for b, i, e in fn.calls(GI + "::setMobodIsImmune"):
            site = "%s:%d" % (fn.file, e["line"])
            z = [ee for _, _, ee in fn.calls() if ee.get("fn", "").endswith("::setToZero")]
            n = [ee for _, _, ee in fn.calls() if ee.get("fn", "").endswith("::setToNaN")]
            fcache = [dd for _, _, dd in fn.events(lambda dd: dd["k"] == "decl" and dd["init"] is not None and
                                                   sx_find(dd["init"], lambda y: y[0] == "mem" and y[2].endswith("ForceCache::F_GB")) and
                                                   sx_find(dd["init"], lambda y: y[0] == "call" and y[1] == GI + "::updForceCache"))]
            mob = fn.d["params"][1][0]
            ok = bool(z) and bool(n) and bool(fcache) and index_var(fcache[0]["init"]) == mob
            chk.judge(ok, "PREFILL", "%s:refill-entry" % fn.name.split("::")[-1], site, "after changing immunity the body's cache entry F_GB[mobod] is re-filled (zero / NaN)")
            if ok:
                p1 = fn.path_exists((b, i), "exit", lambda q: q is z[0] or q is n[0])
                chk.judge(p1 is None, "PREFILL", "%s:refill-on-all-paths" % fn.name.split("::")[-1], site, "every path after the immunity change re-fills the entry", p1)
                excl = fn.d["params"][2][0]
                # `isExcluded || g == 0` is a short-circuit: the NaN branch is reached only when both are false
                nb = [bb for bb, _, ee in fn.calls() if ee is n[0]]
                zb = [bb for bb, _, ee in fn.calls() if ee is z[0]]
                g_false = guard_blocks(fn, lambda c: bool(sx_find(c, lambda y: y[0] == "op" and y[1] == "==" and bool(sx_find(y[2], lambda z: z[0] == "call" and z[1].endswith("::getMagnitude"))) and _is_lit(y[3], "0"))), 1)
                e_true = branch_edges(fn, lambda c: c == ["var", excl], 0)
                chk.judge(bool(nb) and nb[0] in g_false and bool(zb) and any(t == zb[0] for _, t in e_true), "PREFILL", "%s:zero-iff-excluded-or-g0" % fn.name.split("::")[-1], site,
                          "zero is written when isExcluded (or magnitude == 0); NaN only when the magnitude is non-zero")
    chk.floor("PREFILL", 5)


_G = "Simbody/src/Force_Gravity.cpp"
_S = "Simbody/src/GeneralForceSubsystem.cpp"
_F = "Simbody/src/Force.cpp"
_LB = "Simbody/src/Force_LinearBushing.cpp"
MUTATIONS = [
    dict(name="Gravity::setDefaultMagnitude without topology invalidation", arm=True, file=_G,
         old="        g);\n\n    getImpl().invalidateTopologyCache();\n    updImpl().defMagnitude = g;", new="        g);\n\n    updImpl().defMagnitude = g;", expect="TOPO:SimTK::Force::Gravity::setDefaultMagnitude"),
    dict(name="calcPotentialEnergy ignores the enabled flag", arm=True, file=_S,
         old="            if (forceEnabled[i]) {\n                const Force& f = *forces[i];\n                energy += f.getImpl().calcPotentialEnergy(state);\n            }",
         new="            {\n                const Force& f = *forces[i];\n                energy += f.getImpl().calcPotentialEnergy(state);\n            }", expect="GUARD:calcPotentialEnergy"),
    dict(name="realizeVelocity realizes disabled forces", file=_S,
         old="            if (enabled[i]) forces[i]->getImpl().realizeVelocity(s);", new="            forces[i]->getImpl().realizeVelocity(s);", expect="GUARD:realizeSubsystemVelocityImpl"),
    dict(name="realizeInstance lists disabled parallel forces", file=_S,
         old="        for (int i = 0; i < (int) forces.size(); ++i) {\n            if (forceEnabled[i])\n            {\n                if (forces[i]->getImpl().shouldBeParallelIfPossible())\n                    enabledParallelForces.push_back(ForceIndex(i));\n                else\n                    enabledNonParallelForces.push_back(ForceIndex(i));\n            }\n        }\n        return 0;",
         new="        for (int i = 0; i < (int) forces.size(); ++i) {\n            if (forces[i]->getImpl().shouldBeParallelIfPossible())\n                enabledParallelForces.push_back(ForceIndex(i));\n            else if (forceEnabled[i])\n                enabledNonParallelForces.push_back(ForceIndex(i));\n        }\n        return 0;",
         expect="REACHDEF:realizeSubsystemInstanceImpl:enabledParallelForces.push_back"),
    dict(name="setBodyIsExcluded leaves the old force in the cache", file=_G,
         old="        SpatialVec& F = impl.updForceCache(state).F_GB[mobod];\n        if (isExcluded || getMagnitude(state) == 0)\n          F.setToZero();\n        else\n          F.setToNaN();\n", new="", expect="PREFILL:setBodyIsExcluded"),
    dict(name="setGravityVector(0) does not zero the cache", file=_G,
         old="        getImpl().updParameters(state).d = newd; \n\n        if (newg == 0) \n            getImpl().updForceCache(state).setToZero(); // must precalculate\n",
         new="        getImpl().updParameters(state).d = newd; \n", expect="PREFILL:setGravityVector"),
]
